import MirVerif.Lemmas.PPExpr
import MirVerif.Lemmas.PPMacro
import MirVerif.Lemmas.PPMacroFuel
import MirVerif.Lemmas.PPNumber
/-!
# Property C09 — c2mir's preprocessor expands macros and evaluates `#if` as C11 requires

## `#if` evaluation
Full statement (C11 6.10.1p4), theorem `eval_meets_c11`:

    `∀ e, LitsOk e → c11Eval e ≠ .undef → c2mEval e = c11Eval e`

where `c2mEval = c2mEvalG appliedFixes` (`appliedFixes = allFixes`) is the literal model of
`eval`/`eval_binop_operands`/`eval_expr` of the checked tree and `LitsOk e` says that every integer
constant of `e` has a C11 type (6.4.4p2 constraint; a program violating it has no meaning).  The
result covers the value, its type and the division-by-zero diagnostic.  The correspondence of the
model with the real evaluator is tested on every generated expression by `checks/c09.py`.

The evaluator before /repo deaac458 is kept as the explicitly named old variant `c2mEvalOld`
(`c2mEvalG noFixes`): it got the signedness of six operator/constant classes wrong
(`eval_old_wrong_*`), and `eval_meets_c11_partial` gives, for every partial repair set, the side
condition under which that variant is still right.

## macro replacement
The expander `expandList` is the executable C11 specification (not a model of c2mir's push-back
engine, which is compared with it on generated inputs only).  Proved about the specification:
it is total (the definition is accepted by well-founded recursion on
`(enabledCount defs dis, 2·|ts| + pending)` using `enabledCount_lt`, `collectArgs_len`);
painted tokens are never replaced (`painted_never_expanded`); a macro name met while the macro is
being replaced is painted (`disabled_name_painted`); arguments: `arg_preexpanded_once`;
the code's `stringify`/`destringify` pair: `stringify_roundtrip` (full statement).
-/
namespace MirVerif.PP

/-! ### `#if` -/

/-- for every repair set and every expression without an unrepaired operator class -/
theorem eval_meets_c11_partial (fx : Fixes) (e : Expr)
    (hclean : Clean fx e = true) (hdef : c11Eval e ≠ .undef) : c2mEvalG fx e = c11Eval e :=
  eval_partial fx e hclean hdef

/-- **FULL statement for the checked tree** -/
theorem eval_meets_c11 (e : Expr) (hl : LitsOk e = true) (hdef : c11Eval e ≠ .undef) :
    c2mEval e = c11Eval e :=
  eval_partial allFixes e (clean_allFixes e hl) hdef

/-- type soundness of the C11 evaluator: the flag of a computed value is the static type -/
theorem c11Eval_type_sound (e : Expr) (v : Val) (h : c11Eval e = .val v) : v.uns = isUns e :=
  c11Eval_uns e v h

/-- `pre_expr_uns_p` (`c2mir.c:3479`, model `c2mStaticUns`: the structural static typing `eval` applies to
the NOT-selected arm of `?:`) computes the C11 type of the expression: per operator — operand type for
unary `+ - ~`, left operand for shifts, `int` for `!`, comparisons, `&&`, `||`, either operand for the
other binary operators and for the two arms of `?:`.  Together with `c11Eval_type_sound` this is the type
of every value C11 computes.  Model-vs-code on this function: exhaustive `cond_arm_family` in
`checks/c09.py`. -/
theorem staticUns_is_c11_type (e : Expr) (hl : LitsOk e = true) : c2mStaticUns appliedFixes e = isUns e :=
  c2mStaticUns_eq allFixes e (clean_allFixes e hl)

private def iLit (n : Nat) : Expr := .lit (.int .dec n .none)
private def uLit (n : Nat) : Expr := .lit (.int .dec n .u)
private def neg1 : Expr := .un .neg (iLit 1)

/-- `-1 < !0u` -/
def wNot : Expr := .bin .lt neg1 (.un .lnot (uLit 0))
/-- `(0u == 0u) - 2 < 0` -/
def wCmp : Expr := .bin .lt (.bin .sub (.bin .eq (uLit 0) (uLit 0)) (iLit 2)) (iLit 0)
/-- `(-1 >> 1u) < 0` -/
def wShift : Expr := .bin .lt (.bin .shr neg1 (uLit 1)) (iLit 0)
/-- `(1 ? -1 : 0u) < 0` -/
def wCond : Expr := .bin .lt (.cond (iLit 1) neg1 (uLit 0)) (iLit 0)
/-- `0x80000000 - 0x80000001 < 0` -/
def wLit : Expr :=
  .bin .lt (.bin .sub (.lit (.int .hex 0x80000000 .none)) (.lit (.int .hex 0x80000001 .none))) (iLit 0)
/-- `L'\xffffffff' < 0` -/
def wWchar : Expr := .bin .lt (.lit (.chr .wide 0xffffffff)) (iLit 0)

theorem eval_old_wrong_not : c11Eval wNot = .val ⟨false, 1#64⟩ ∧ c2mEvalOld wNot = .val ⟨true, 0#64⟩ := by decide
theorem eval_old_wrong_compare : c11Eval wCmp = .val ⟨false, 1#64⟩ ∧ c2mEvalOld wCmp = .val ⟨true, 0#64⟩ := by decide
theorem eval_old_wrong_shift : c11Eval wShift = .val ⟨false, 1#64⟩ ∧ c2mEvalOld wShift = .val ⟨true, 0#64⟩ := by decide
theorem eval_old_wrong_cond : c11Eval wCond = .val ⟨false, 0#64⟩ ∧ c2mEvalOld wCond = .val ⟨false, 1#64⟩ := by decide
theorem eval_old_wrong_literal : c11Eval wLit = .val ⟨false, 1#64⟩ ∧ c2mEvalOld wLit = .val ⟨true, 0#64⟩ := by decide
theorem eval_old_wrong_wchar : c11Eval wWchar = .val ⟨false, 1#64⟩ ∧ c2mEvalOld wWchar = .val ⟨true, 0#64⟩ := by decide

/-- the full statement fails for the old variant -/
theorem eval_meets_c11_false_old :
    ¬ ∀ e, LitsOk e = true → c11Eval e ≠ .undef → c2mEvalOld e = c11Eval e := by
  intro h
  have := h wCond (by decide) (by decide)
  revert this
  decide

/-- the old witnesses evaluate correctly in the checked tree -/
theorem eval_witnesses_repaired :
    c2mEval wNot = c11Eval wNot ∧ c2mEval wCmp = c11Eval wCmp ∧
    c2mEval wShift = c11Eval wShift ∧ c2mEval wCond = c11Eval wCond ∧
    c2mEval wLit = c11Eval wLit ∧ c2mEval wWchar = c11Eval wWchar := by decide

-- non-vacuity: expressions with every operator class that satisfy the hypotheses of `eval_meets_c11`
-- and have a non-trivial value
example :
    let e : Expr := .cond (.bin .land (.un .lnot (iLit 0)) (.bin .le (iLit 3) (.bin .shl (iLit 1) (iLit 4))))
                      (.bin .add (uLit 7) (.bin .mul neg1 (iLit 2))) (uLit 9)
    LitsOk e = true ∧ c11Eval e = .val ⟨true, 5#64⟩ ∧ c2mEval e = c11Eval e := by decide
example : LitsOk wCond = true ∧ LitsOk wLit = true ∧ LitsOk wWchar = true ∧ c11Eval wCond ≠ .undef := by decide
-- the type of a shift follows its left operand only: `(1 ? -1 : (0 << 1u)) > 0` is false
example : c2mStaticUns appliedFixes (.bin .shl (iLit 0) (uLit 1)) = false ∧
    c2mStaticUns appliedFixes (.bin .shr (uLit 8) (iLit 1)) = true ∧
    c2mEval (.bin .gt (.cond (iLit 1) neg1 (.bin .shl (iLit 0) (uLit 1))) (iLit 0)) = .val ⟨false, 0#64⟩ := by
  decide
-- non-vacuity of the diagnostic case: division by zero is reported by both, not in a skipped operand
example : c11Eval (.bin .div (iLit 1) (iLit 0)) = .divZero ∧ c2mEval (.bin .div (iLit 1) (iLit 0)) = .divZero ∧
    c11Eval (.bin .land (iLit 0) (.bin .div (iLit 1) (iLit 0))) = .val ⟨false, 0#64⟩ := by decide

/-! ### macro replacement (specification) -/

/-- 6.10.3.4p2: a painted token is copied, whatever the macro table says -/
theorem painted_never_expanded (defs : Defs) (dis : List String) (t : Tok) (rest : List Tok)
    (h : t.painted = true) :
    expandList defs dis none (t :: rest) = (expandList defs dis none rest).cons t :=
  expand_painted defs dis t rest h

/-- 6.10.3.4p2: the name of a macro that is being replaced is not replaced and becomes painted -/
theorem disabled_name_painted (defs : Defs) (dis : List String) (t : Tok) (rest : List Tok) (m : Macro)
    (hi : isIdent t.sp = true) (hp : t.painted = false)
    (hl : lookup defs t.sp = some m) (hd : dis.contains t.sp = true) :
    expandList defs dis none (t :: rest) = (expandList defs dis none rest).cons (paint t) :=
  expand_disabled defs dis t rest m hi hp hl hd

/-- identifiers that are not macro names and non-identifiers pass through -/
theorem nonmacro_copied (defs : Defs) (dis : List String) (t : Tok) (rest : List Tok)
    (h : lookup defs t.sp = none) :
    expandList defs dis none (t :: rest) = (expandList defs dis none rest).cons t :=
  expand_nonmacro defs dis t rest h

-- non-vacuity of the two theorems above
example : let t : Tok := { sp := "F" }
    let m : Macro := ⟨"F", some ["a"], false, [.param 0 .none]⟩
    isIdent t.sp = true ∧ t.painted = false ∧ lookup [m] t.sp = some m ∧ ["G", "F"].contains t.sp = true := by
  decide

/-- 6.10.3.1: in the replacement list a parameter that is not an operand of `#`/`##` is replaced by
the argument's *completely macro-replaced* tokens (`exp`, computed once per invocation by
`expandList … none arg` before the macro is disabled), an operand of `#` by the spelling of the
argument as written, an operand of `##` by the argument as written. -/
theorem arg_preexpanded_once (raw exp : List (List Tok)) (i : Nat) (w : Ws) :
    substItems raw exp false [.param i w] = insertArg w (exp.getD i []) ∧
    substItems raw exp false [.str i w] = [.tok (stringifyArg w (raw.getD i []))] ∧
    substItems raw exp false [.param i w, .paste, .tok ⟨"x", .none, false⟩] =
      (if (raw.getD i []).isEmpty then [PItem.placemarker w] else insertArg w (raw.getD i [])) ++
        [.pasteOp, .tok ⟨"x", .none, false⟩] :=
  subst_param_cases raw exp i w

/-! `stringify` (`c2mir.c:1782`) / `destringify` (`c2mir.c:1793`; used for the operand of `_Pragma`). -/

/-- **FULL statement**: `destringify` inverts `stringify` on every string -/
theorem stringify_roundtrip (s : List Char) : destringifyC (stringify s) = s := by
  unfold destringifyC; rw [stripQuotes_stringify, destrLoop_escape]

/-- old variant (before /repo f779af05): only for strings in which no backslash is directly followed
by `\` or `"` -/
theorem stringify_roundtrip_old_partial (s : List Char) (h : noEscPair s = true) :
    destringifyOld (stringify s) = s := by
  unfold destringifyOld; rw [stripQuotes_stringify, destrLoopOld_escape s h]

/-- old variant: after dropping an escaping backslash the loop re-examined the escaped character, so
`\\\\` (two escaped backslashes) collapsed to one -/
theorem stringify_roundtrip_false_old :
    destringifyOld (stringify ['a', '\\', '\\', 'b']) = ['a', '\\', 'b'] ∧
    destringifyOld (stringify ['\\', '"']) = ['"'] := by decide

example : stringify "a\"b\\c".toList = "\"a\\\"b\\\\c\"".toList := by decide
example : noEscPair "C:\\dir \"x\" \\n".toList = true := by decide

/-- **termination of rescanning** (6.10.3.4), for every macro table — including self-referential and
mutually recursive definitions — and every token list: the interpreter `expandFuel`, which follows
the recursion equations of the expander literally but gives up (`none`) beyond recursion depth `n`,
succeeds for every sufficiently large `n` and always with the same result, the value of the total
function `expandList`. -/
theorem expand_terminates (defs : Defs) (dis : List String) (pend : Option Tok) (ts : List Tok) :
    ∃ n, ∀ m, n ≤ m → expandFuel defs m dis pend ts = some (expandList defs dis pend ts) :=
  expandFuel_terminates defs dis pend ts

/-- the measure that makes `expandList` a total function strictly decreases when a macro is entered -/
theorem expand_terminates_measure {defs : Defs} {dis : List String} {n : String} {m : Macro}
    (h : lookup defs n = some m) (hd : dis.contains n = false) :
    enabledCount defs (n :: dis) < enabledCount defs dis :=
  enabledCount_lt h hd

/-! ### the specification reproduces the C11 examples (evaluated by the kernel) -/

private def tk (s : String) : Tok := { sp := s }
private def tw (s : String) : Tok := { sp := s, ws := .space }
private def mk (name : String) (ps : Option (List String)) (toks : List Tok) : Macro :=
  ⟨name, ps, false, (mkRepl ps false toks).getD []⟩
private def spellings (defs : Defs) (ts : List Tok) : Option (List String) :=
  (expandFuel defs 60 [] none ts).map (fun o => (o.toks ++ o.pending.toList).map (·.sp))

/-- `expandList` computed through the bounded interpreter -/
theorem expandAll_of_fuel (defs : Defs) (ts : List Tok) (out : List String)
    (h : spellings defs ts = some out) : (expandAll defs ts).1.map (·.sp) = out := by
  unfold spellings at h
  cases hf : expandFuel defs 60 [] none ts with
  | none => simp [hf] at h
  | some o =>
    have := expandList_of_fuel defs 60 [] none ts o hf
    simp [hf] at h
    simp [expandAll, this, h]

/-- DR 268 / 6.10.3.4: `#define f(a) a*g`, `#define g(a) f(a)`, `f(2)(9)` → `2*9*g` -/
theorem spec_example_f2_9 :
    (expandAll [mk "f" (some ["a"]) [tk "a", tk "*", tk "g"], mk "g" (some ["a"]) [tk "f", tk "(", tk "a", tk ")"]]
      [tk "f", tk "(", tk "2", tk ")", tk "(", tk "9", tk ")"]).1.map (·.sp) = ["2", "*", "9", "*", "g"] :=
  expandAll_of_fuel _ _ _ (by decide +kernel)

/-- mutual recursion stops by painting: `#define AA BB`, `#define BB AA`, `AA BB` → `AA BB` -/
theorem spec_example_mutual :
    (expandAll [mk "AA" none [tk "BB"], mk "BB" none [tk "AA"]] [tk "AA", tw "BB"]).1.map (·.sp) = ["AA", "BB"] :=
  expandAll_of_fuel _ _ _ (by decide +kernel)

/-- 6.10.3.5 EXAMPLE 5 (placemarkers): `#define t(x,y,z) x ## y ## z`, `t(10,,)` → `10`, `t(,,)` → nothing -/
theorem spec_example_placemarkers :
    (expandAll [mk "t" (some ["x", "y", "z"]) [tk "x", tw "##", tw "y", tw "##", tw "z"]]
      [tk "t", tk "(", tk "10", tk ",", tk ",", tk ")", tw "t", tk "(", tk ",", tk ",", tk ")", tk ";"]).1.map (·.sp)
      = ["10", ";"] :=
  expandAll_of_fuel _ _ _ (by decide +kernel)

/-- 6.10.3.3 EXAMPLE (`hash_hash`): `join(x, y)` → `"x ## y"` -/
theorem spec_example_hash_hash :
    (expandAll [mk "hash_hash" none [tk "#", tw "##", tw "#"], mk "mkstr" (some ["a"]) [tk "#", tw "a"],
                mk "in_between" (some ["a"]) [tk "mkstr", tk "(", tk "a", tk ")"],
                mk "join" (some ["c", "d"]) [tk "in_between", tk "(", tk "c", tw "hash_hash", tw "d", tk ")"]]
      [tk "join", tk "(", tk "x", tk ",", tw "y", tk ")"]).1.map (·.sp) = ["\"x ## y\""] :=
  expandAll_of_fuel _ _ _ (by decide +kernel)

/-! ### pp-number (6.4.8): what the lexer has to take as one token -/

/-- the recogniser used by the specification decides the grammar of 6.4.8 -/
theorem ppnumber_recogniser_is_grammar (w : List Char) : isPPNumberL w = true ↔ PPNum w :=
  isPPNumberL_iff w

/-- maximal munch: the prefixes of `cs` that are pp-numbers are exactly those of length
`ppNumberMin cs .. ppNumberLen cs`; the lexer takes `ppNumberLen cs` characters -/
theorem ppnumber_maximal_munch (cs : List Char) (n : Nat) (hn : n ≤ cs.length) :
    PPNum (cs.take n) ↔ (ppNumberMin cs ≤ n ∧ n ≤ ppNumberLen cs) := by
  rw [← isPPNumberL_iff]; exact ppNumberLen_spec cs n hn

/-- `0xe+x` is one preprocessing token: `e` followed by a sign continues a pp-number also after `0x` -/
example : PPNum "0xe+x".toList ∧ ppNumberLen "0xe+x;".toList = 5 ∧ ppNumberLen "0xf+x;".toList = 3 := by
  refine ⟨(isPPNumberL_iff _).mp (by decide), by decide, by decide⟩

end MirVerif.PP
