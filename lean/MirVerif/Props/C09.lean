/-! Property theorems for C09 (none yet). -/
