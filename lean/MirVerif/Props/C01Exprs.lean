import MirVerif.Gen.C01_Exprs
/-! # C01 — decision expressions of the optimizer, translated from mir-gen.c on every run
(`translate/c01_exprs.py`): dead-store elimination / memory availability rely on them. -/
namespace MirVerif

/-- **`alloca_mem_intersect_p`**: for accesses of positive sizes at constant displacements from the
same alloca, the code's overlap test is true exactly when the two byte ranges share a byte.
(If this fails, DSE deletes a store that a later load still reads.) -/
theorem intersect_spec (d1 d2 s1 s2 : Int) (h1 : 0 < s1) (h2 : 0 < s2) :
    Gen.C01.intersectExpr d1 d2 s1 s2 = true ↔
      ∃ b : Int, (d1 ≤ b ∧ b < d1 + s1) ∧ (d2 ≤ b ∧ b < d2 + s2) := by
  unfold Gen.C01.intersectExpr
  simp only [Bool.or_eq_true, Bool.and_eq_true, decide_eq_true_eq]
  constructor
  · rintro (⟨ha, hb⟩ | ⟨ha, hb⟩)
    · exact ⟨d1, ⟨by omega, by omega⟩, ⟨by omega, by omega⟩⟩
    · exact ⟨d2, ⟨by omega, by omega⟩, ⟨by omega, by omega⟩⟩
  · rintro ⟨b, ⟨h3, h4⟩, ⟨h5, h6⟩⟩
    by_cases h : d2 ≤ d1
    · exact Or.inl ⟨h, by omega⟩
    · exact Or.inr ⟨by omega, by omega⟩

/-- the test is symmetric in the two accesses -/
theorem intersect_symm (d1 d2 s1 s2 : Int) :
    Gen.C01.intersectExpr d1 d2 s1 s2 = Gen.C01.intersectExpr d2 d1 s2 s1 := by
  unfold Gen.C01.intersectExpr
  rw [Bool.or_comm]

/-- **`may_alias_p`**: alias class 0 may alias everything, equal classes alias, different non-zero
classes do not; a common non-zero nonalias class excludes aliasing; the relation is symmetric. -/
theorem may_alias_spec (a1 a2 n1 n2 : Nat) :
    Gen.C01.mayAlias a1 a2 n1 n2 = true ↔
      (a1 = 0 ∨ a2 = 0 ∨ a1 = a2) ∧ ¬ (n1 ≠ 0 ∧ n2 ≠ 0 ∧ n1 = n2) := by
  unfold Gen.C01.mayAlias
  simp only [Bool.or_eq_true, Bool.and_eq_true, decide_eq_true_eq]
  constructor
  · rintro ⟨ha, hn⟩
    exact ⟨by omega, by omega⟩
  · rintro ⟨ha, hn⟩
    exact ⟨by omega, by omega⟩

theorem may_alias_symm (a1 a2 n1 n2 : Nat) :
    Gen.C01.mayAlias a1 a2 n1 n2 = Gen.C01.mayAlias a2 a1 n2 n1 := by
  have h1 := may_alias_spec a1 a2 n1 n2
  have h2 := may_alias_spec a2 a1 n2 n1
  rw [Bool.eq_iff_iff, h1, h2]
  constructor <;> rintro ⟨ha, hn⟩ <;> exact ⟨by omega, by omega⟩

/-- non-vacuity -/
example : Gen.C01.intersectExpr 4 0 1 8 = true ∧ Gen.C01.intersectExpr 8 0 1 8 = false := by decide
example : Gen.C01.mayAlias 0 5 0 0 = true ∧ Gen.C01.mayAlias 3 5 0 0 = false ∧ Gen.C01.mayAlias 3 3 7 7 = false := by decide

end MirVerif
