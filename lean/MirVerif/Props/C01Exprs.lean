import MirVerif.Gen.C01_Exprs
/-! # C01 — decision expressions of the optimizer, translated from mir-gen.c on every run
(`translate/c01_exprs.py`): dead-store elimination / memory availability rely on them. -/
namespace MirVerif

/-- **`alloca_mem_intersect_p`**: for accesses of positive sizes at constant displacements from the
same alloca, the code's overlap test is true exactly when the two byte ranges share a byte.
(If this fails, DSE deletes a store that a later load still reads.) -/
theorem intersect_spec (d1 d2 s1 s2 : Int) (h1 : 0 < s1) (h2 : 0 < s2) :
    Gen.C01.intersectExpr d1 d2 s1 s2 = true ↔
      ∃ b : Int, (d1 ≤ b ∧ b < d1 + s1) ∧ (d2 ≤ b ∧ b < d2 + s2) := by
  unfold Gen.C01.intersectExpr
  simp only [Bool.or_eq_true, Bool.and_eq_true, decide_eq_true_eq]
  constructor
  · rintro (⟨ha, hb⟩ | ⟨ha, hb⟩)
    · exact ⟨d1, ⟨by omega, by omega⟩, ⟨by omega, by omega⟩⟩
    · exact ⟨d2, ⟨by omega, by omega⟩, ⟨by omega, by omega⟩⟩
  · rintro ⟨b, ⟨h3, h4⟩, ⟨h5, h6⟩⟩
    by_cases h : d2 ≤ d1
    · exact Or.inl ⟨h, by omega⟩
    · exact Or.inr ⟨by omega, by omega⟩

/-- the test is symmetric in the two accesses -/
theorem intersect_symm (d1 d2 s1 s2 : Int) :
    Gen.C01.intersectExpr d1 d2 s1 s2 = Gen.C01.intersectExpr d2 d1 s2 s1 := by
  unfold Gen.C01.intersectExpr
  rw [Bool.or_comm]

/-- **`may_alias_p`**: alias class 0 may alias everything, equal classes alias, different non-zero
classes do not; a common non-zero nonalias class excludes aliasing; the relation is symmetric. -/
theorem may_alias_spec (a1 a2 n1 n2 : Nat) :
    Gen.C01.mayAlias a1 a2 n1 n2 = true ↔
      (a1 = 0 ∨ a2 = 0 ∨ a1 = a2) ∧ ¬ (n1 ≠ 0 ∧ n2 ≠ 0 ∧ n1 = n2) := by
  unfold Gen.C01.mayAlias
  simp only [Bool.or_eq_true, Bool.and_eq_true, decide_eq_true_eq]
  constructor
  · rintro ⟨ha, hn⟩
    exact ⟨by omega, by omega⟩
  · rintro ⟨ha, hn⟩
    exact ⟨by omega, by omega⟩

theorem may_alias_symm (a1 a2 n1 n2 : Nat) :
    Gen.C01.mayAlias a1 a2 n1 n2 = Gen.C01.mayAlias a2 a1 n2 n1 := by
  have h1 := may_alias_spec a1 a2 n1 n2
  have h2 := may_alias_spec a2 a1 n2 n1
  rw [Bool.eq_iff_iff, h1, h2]
  constructor <;> rintro ⟨ha, hn⟩ <;> exact ⟨by omega, by omega⟩

/-- non-vacuity -/
example : Gen.C01.intersectExpr 4 0 1 8 = true ∧ Gen.C01.intersectExpr 8 0 1 8 = false := by decide
example : Gen.C01.mayAlias 0 5 0 0 = true ∧ Gen.C01.mayAlias 3 5 0 0 = false ∧ Gen.C01.mayAlias 3 3 7 7 = false := by decide

end MirVerif

namespace MirVerif
open MirVerif.Gen

/-! ## Immediate-range predicates of the x86-64 back end

An instruction pattern with an `imm8`/`imm16`/`imm32` field may be chosen only for a constant the field
can carry: the CPU sign-extends (zero-extends for the `u` forms) the field back to 64 bits.  Only this
direction is a property of C01; a predicate that accepts fewer values merely loses an encoding. -/

/-- **a constant accepted for a signed N-bit immediate field is reproduced by sign extension** -/
theorem imm_signed_sound (v : BitVec 64) :
    (C01.int8_p v.toInt = true → (v.truncate 8).signExtend 64 = v) ∧
    (C01.int16_p v.toInt = true → (v.truncate 16).signExtend 64 = v) ∧
    (C01.int32_p v.toInt = true → (v.truncate 32).signExtend 64 = v) := by
  refine ⟨?_, ?_, ?_⟩ <;> intro h <;>
    (simp only [C01.int8_p, C01.int16_p, C01.int32_p, Bool.and_eq_true, decide_eq_true_eq] at h
     apply BitVec.eq_of_toInt_eq
     rw [BitVec.toInt_signExtend_of_le (by decide)]
     simp only [BitVec.truncate_eq_setWidth, BitVec.toInt_setWidth, Int.bmod_def]
     have hc := BitVec.toInt_eq_toNat_cond v
     have hv := v.isLt
     split at hc <;> omega)

/-- **a constant accepted for an unsigned N-bit immediate field is reproduced by zero extension** -/
theorem imm_unsigned_sound (v : BitVec 64) :
    (C01.uint8_p v.toInt = true → (v.truncate 8).zeroExtend 64 = v) ∧
    (C01.uint16_p v.toInt = true → (v.truncate 16).zeroExtend 64 = v) ∧
    (C01.uint32_p v.toInt = true → (v.truncate 32).zeroExtend 64 = v) := by
  refine ⟨?_, ?_, ?_⟩ <;> intro h <;>
    (simp only [C01.uint8_p, C01.uint16_p, C01.uint32_p, Bool.and_eq_true, decide_eq_true_eq] at h
     apply BitVec.eq_of_toNat_eq
     have := BitVec.toInt_eq_toNat_cond v
     simp only [BitVec.truncate_eq_setWidth, BitVec.toNat_setWidth]
     have hv := v.isLt
     split at this <;> omega)

/-- non-vacuity: 127 and -128 are accepted for imm8, 128 is not -/
example : C01.int8_p 127 = true ∧ C01.int8_p (-128) = true ∧ C01.int8_p 128 = false ∧ C01.uint8_p 255 = true := by decide

end MirVerif
