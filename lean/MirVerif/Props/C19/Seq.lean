import MirVerif.Lemmas.Varr
import MirVerif.Lemmas.DlistOps
/-!
# C19, sequence part: `mir-varr.h` and `mir-dlist.h` preserve contents and order

* `varr_seq`: for every history of VARR calls the live elements and every returned value are those
  of the obvious `List` operations; a call is rejected (`VARR_ASSERT`) exactly when the list operation
  is undefined (pop/last of empty, index out of range, trunc beyond the length).
* `dlist_seq`: for every history of list calls that respects the documented usage (an inserted
  element is not already linked, anchors / removed elements are in the list) the linked structure
  represents the list obtained by the obvious `List` operations — forward traversal, backward
  traversal, `DLIST_LENGTH`, `DLIST_EL` all agree with it — and the structural invariants hold
  (`head->prev = NULL`, `tail->next = NULL`, `prev`/`next` inverse of each other).

Not proved: allocation failure paths of VARR; behaviour of DLIST calls that violate the usage rules
(the header does not detect them; they are outside the specification).
-/
namespace MirVerif.C19
open MirVerif

/-! ## VARR -/

/-- one call refines one list step; the representation invariant `els_num ≤ size` is kept -/
theorem varr_step {α : Type} (v : Varr.Varr α) (h : Varr.WF v) (op : Varr.Op α) :
    (Varr.step v op).map (fun r => (Varr.abs r.1, r.2)) = Varr.specStep (Varr.abs v) op ∧
    ∀ v' o, Varr.step v op = some (v', o) → Varr.WF v' :=
  Varr.step_refines v h op

/-- **varr_seq**: every history from `VARR_CREATE` -/
theorem varr_seq {α : Type} (size : Nat) (ops : List (Varr.Op α)) :
    (Varr.run (Varr.create size : Varr.Varr α) ops).map (fun r => (Varr.abs r.1, r.2)) =
      Varr.specRun [] ops := by
  have := Varr.run_refines ops (Varr.create size : Varr.Varr α) (Varr.create_abs size).2
  rwa [(Varr.create_abs size).1] at this

/-- non-vacuity: growth past the initial capacity, pop, trunc, tailor, set -/
example : (Varr.run (Varr.create 1 : Varr.Varr Nat)
    [.push 7, .push 8, .push 9, .pop, .set 0 5, .get 0, .trunc 1, .tailor 3, .length]).map
      (fun r => (Varr.abs r.1, r.2)) =
    some ([some 5, none, none], [.unit, .unit, .unit, .val (some 9), .unit, .val (some 5), .unit, .unit, .nat 3]) := by
  decide

/-- a rejected call: `VARR_POP` of an empty array -/
example : Varr.run (Varr.create 4 : Varr.Varr Nat) [.push 1, .pop, .pop] = none := by decide

/-! ## DLIST -/

/-- one call on a state representing `l`, allowed by the usage rules, succeeds (no
`DLIST_ASSERT` fires) and yields a state representing the updated list -/
theorem dlist_step (s : Dlist.St) (l l' : List Nat) (op : Dlist.Op) (hr : Dlist.Rep s l)
    (hs : Dlist.specStep s.next.length l op = some l') :
    ∃ s', Dlist.step s op = some s' ∧ Dlist.Rep s' l' ∧ s'.next.length = s.next.length := by
  cases op with
  | prepend e =>
    simp only [Dlist.specStep] at hs
    split at hs
    · rename_i h; cases hs
      exact Dlist.prepend_rep s l e hr h.1 h.2
    · cases hs
  | append e =>
    simp only [Dlist.specStep] at hs
    split at hs
    · rename_i h; cases hs
      exact Dlist.append_rep s l e hr h.1 h.2
    · cases hs
  | insertBefore b e =>
    simp only [Dlist.specStep] at hs
    split at hs
    · rename_i h; cases hs
      obtain ⟨l1, l2, rfl⟩ := List.append_of_mem h.2.2
      have hb : b ∉ l1 := fun c => (List.nodup_append.1 hr.nodup).2.2 b c b (by simp) rfl
      rw [Dlist.insBefore_split l1 l2 b e hb]
      exact Dlist.insertBefore_rep s l1 l2 b e hr h.1 h.2.1
    · cases hs
  | insertAfter a e =>
    simp only [Dlist.specStep] at hs
    split at hs
    · rename_i h; cases hs
      obtain ⟨l1, l2, rfl⟩ := List.append_of_mem h.2.2
      have ha : a ∉ l1 := fun c => (List.nodup_append.1 hr.nodup).2.2 a c a (by simp) rfl
      rw [Dlist.insAfter_split l1 l2 a e ha]
      exact Dlist.insertAfter_rep s l1 l2 a e hr h.1 h.2.1
    · cases hs
  | remove e =>
    simp only [Dlist.specStep] at hs
    split at hs
    · rename_i h; cases hs
      obtain ⟨l1, l2, rfl⟩ := List.append_of_mem h
      have he : e ∉ l1 := fun c => (List.nodup_append.1 hr.nodup).2.2 e c e (by simp) rfl
      rw [Dlist.erase_split l1 l2 e he]
      obtain ⟨s', h1, h2, h3, _⟩ := Dlist.remove_rep s l1 l2 e hr
      exact ⟨s', h1, h2, h3⟩
    · cases hs

theorem dlist_run : ∀ (ops : List Dlist.Op) (s : Dlist.St) (l l' : List Nat), Dlist.Rep s l →
    Dlist.specRun s.next.length l ops = some l' →
    ∃ s', Dlist.run s ops = some s' ∧ Dlist.Rep s' l'
  | [], s, l, l', hr, hs => by
    simp only [Dlist.specRun] at hs; cases hs
    exact ⟨s, rfl, hr⟩
  | op :: ops, s, l, l', hr, hs => by
    simp only [Dlist.specRun] at hs
    cases h1 : Dlist.specStep s.next.length l op with
    | none => rw [h1] at hs; cases hs
    | some l1 =>
      rw [h1] at hs
      obtain ⟨s1, e1, r1, n1⟩ := dlist_step s l l1 op hr h1
      rw [← n1] at hs
      obtain ⟨s', e2, r2⟩ := dlist_run ops s1 l1 l' r1 hs
      exact ⟨s', by simp only [Dlist.run, e1]; exact e2, r2⟩

/-- what `Rep` means observably -/
theorem dlist_observe (s : Dlist.St) (l : List Nat) (hr : Dlist.Rep s l) :
    Dlist.toList s = l ∧ Dlist.toListRev s = l.reverse ∧ Dlist.length s = l.length ∧
    s.head = l.head? ∧ s.tail = l.getLast? ∧
    (∀ n : Int, Dlist.el s n = if n ≥ 0 then l[n.toNat]? else l.reverse[(-n - 1).toNat]?) := by
  refine ⟨Dlist.toList_rep s l hr, Dlist.toListRev_rep s l hr, ?_, hr.head, ?_, Dlist.el_rep s l hr⟩
  · rw [Dlist.length, Dlist.toList_rep s l hr]
  · rw [hr.tail, List.head?_reverse]

/-- **dlist_seq**: every history (from `DLIST_INIT` over `n` nodes) allowed by the usage rules -/
theorem dlist_seq (n : Nat) (ops : List Dlist.Op) (l : List Nat)
    (hs : Dlist.specRun n [] ops = some l) :
    ∃ s, Dlist.run (Dlist.init n) ops = some s ∧ Dlist.Rep s l ∧
      Dlist.toList s = l ∧ Dlist.toListRev s = l.reverse ∧ Dlist.length s = l.length := by
  have hn : (Dlist.init n).next.length = n := by simp [Dlist.init]
  obtain ⟨s, h1, h2⟩ := dlist_run ops (Dlist.init n) [] l (Dlist.init_rep n) (by rw [hn]; exact hs)
  obtain ⟨a, b, c, _⟩ := dlist_observe s l h2
  exact ⟨s, h1, h2, a, b, c⟩

/-- **dlist invariants**: `head->prev = NULL`, `tail->next = NULL`, and `prev`/`next` are inverse
on the elements of the list -/
theorem dlist_invariants (s : Dlist.St) (l : List Nat) (hr : Dlist.Rep s l) :
    (∀ h, s.head = some h → Dlist.prv s h = none) ∧
    (∀ t, s.tail = some t → Dlist.nxt s t = none) ∧
    (∀ x y, x ∈ l → Dlist.nxt s x = some y → y ∈ l ∧ Dlist.prv s y = some x) ∧
    (∀ x y, x ∈ l → Dlist.prv s x = some y → y ∈ l ∧ Dlist.nxt s y = some x) := by
  have key : ∀ (F G : Nat → Option Nat) (m : List Nat), m.Nodup → Dlist.Chain F m none →
      Dlist.Chain G m.reverse none → ∀ x y, x ∈ m → F x = some y → y ∈ m ∧ G y = some x := by
    intro F G m hnd hF hG x y hx hxy
    obtain ⟨m1, m2, rfl⟩ := List.append_of_mem hx
    have h1 := Dlist.chain_at _ _ _ _ _ hF
    rw [hxy, Dlist.hdOr_none] at h1
    cases m2 with
    | nil => simp at h1
    | cons z m3 =>
      have : y = z := by simpa using h1
      subst this
      refine ⟨by simp, ?_⟩
      have hrev : (m1 ++ x :: y :: m3).reverse = m3.reverse ++ y :: (x :: m1.reverse) := by simp
      rw [hrev] at hG
      have := Dlist.chain_at _ _ _ _ _ hG
      simpa using this
  refine ⟨?_, ?_, key _ _ l hr.nodup hr.cx hr.cp, ?_⟩
  · intro h hh
    cases l with
    | nil => rw [hr.head] at hh; cases hh
    | cons a t =>
      have : h = a := by rw [hr.head] at hh; simpa using hh.symm
      subst this
      exact Dlist.rep_head_prev s h t hr
  · intro t ht
    rcases List.eq_nil_or_concat l with rfl | ⟨r, tl, rfl⟩
    · rw [hr.tail] at ht; cases ht
    · rw [List.concat_eq_append] at *
      have : t = tl := by rw [hr.tail] at ht; simpa using ht.symm
      subst this
      exact Dlist.rep_tail_next s r t hr
  · intro x y hx hxy
    have := key (Dlist.prv s) (Dlist.nxt s) l.reverse (Dlist.nodup_reverse _ hr.nodup) hr.cp
      (by rw [List.reverse_reverse]; exact hr.cx) x y (List.mem_reverse.2 hx) hxy
    exact ⟨List.mem_reverse.1 this.1, this.2⟩

/-- non-vacuity: a history with every operation kind on 4 nodes -/
example : Dlist.specRun 4 [] [.append 1, .prepend 0, .insertAfter 1 3, .insertBefore 3 2, .remove 0]
    = some [1, 2, 3] := by decide

example : (Dlist.run (Dlist.init 4) [.append 1, .prepend 0, .insertAfter 1 3, .insertBefore 3 2,
    .remove 0]).map (fun s => (Dlist.toList s, Dlist.toListRev s, s.head, s.tail)) =
    some ([1, 2, 3], [3, 2, 1], some 1, some 3) := by decide

end MirVerif.C19
