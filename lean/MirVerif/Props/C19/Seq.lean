/-! C19 property theorems about VARR and DLIST (none yet). -/
