/-! C19 property theorems about bitmaps (none yet). -/
