import MirVerif.Lemmas.BitmapRange
import MirVerif.Lemmas.BitmapRel
import MirVerif.Lemmas.BitmapCount
import MirVerif.Lemmas.BitmapIter
import MirVerif.Lemmas.BitmapOp
/-!
# C19, bitmap part: `mir-bitmap.h` behaves as the finite set it denotes

Model: `MirVerif.Bitmap` (`Model/Bitmap.lean`).  `mem bm i` is the abstraction ("bit `i` is in the
set"), `members bm` the increasing list of members.  `opH` is the in-place loop of
`bitmap_op2`/`bitmap_op3` on heap objects, so `d`, `a`, `b`, `c` below may be *any* ids, equal or not:
the aliased cases are instances of the same theorems.

## The change flag (`bitmap_op_changed`)

The full statement

    (opH flagFix f h d srcs).2 = true ↔ ∃ i, mem (dst after) i ≠ mem (dst before) i

is **false for the code as it is** (`flagFix = false`): `bitmap_op_changed_counterexample` below.
Proved instead:
* `bitmap_op_changed_partial` — the statement with the explicit extra hypothesis "`dst` has no
  non-zero word beyond the longest source" (in particular whenever `dst` is itself a source:
  `bitmap_op_changed_alias`), and `bitmap_op_changed_sound` (a reported change is always real);
* `bitmap_op_changed_fixed` — the full statement for the model of the patched header
  (`fixes/C19-bitmap-flag.patch`, `opH true`).

SWITCH after the fix is committed to /repo: set `flagFix := true` in `Model/Bitmap.lean`, delete
`bitmap_op_changed_counterexample_current` (it stops type-checking: its `decide` is about `flagFix`),
and un-comment `bitmap_op_changed` at the end of this file (it is then the full theorem about the
code that exists; `bitmap_op_changed_partial` keeps compiling, its hypothesis being `Or.inl rfl`).
-/
namespace MirVerif.C19
open MirVerif.Bitmap

/-! ## single bits, ranges -/

/-- `bitmap_bit_p` is membership -/
theorem bitmap_bit_p (bm : Bm) (nb : Nat) : bitP bm nb = mem bm nb := bitP_eq bm nb

/-- `bitmap_set_bit_p`: adds exactly `nb`; returns whether it was absent -/
theorem bitmap_set_bit (bm : Bm) (nb : Nat) :
    (∀ i, mem (setBit bm nb).1 i = (mem bm i || i == nb)) ∧ (setBit bm nb).2 = !mem bm nb :=
  ⟨setBit_mem bm nb, setBit_flag bm nb⟩

/-- `bitmap_clear_bit_p`: removes exactly `nb`; returns whether it was present -/
theorem bitmap_clear_bit (bm : Bm) (nb : Nat) :
    (∀ i, mem (clearBit bm nb).1 i = (mem bm i && i != nb)) ∧ (clearBit bm nb).2 = mem bm nb :=
  ⟨clearBit_mem bm nb, clearBit_flag bm nb⟩

/-- `bitmap_set_bit_range_p` / `bitmap_clear_bit_range_p` (`setP` = true / false): exactly the bits
`nb … nb+len-1` get the value `setP`; the flag says whether one of them had the other value,
i.e. whether the set changed -/
theorem bitmap_range (setP : Bool) (bm : Bm) (nb len : Nat) :
    (∀ i, mem (rangeOp setP bm nb len).1 i = if nb ≤ i ∧ i < nb + len then setP else mem bm i) ∧
    ((rangeOp setP bm nb len).2 = true ↔ ∃ i, mem (rangeOp setP bm nb len).1 i ≠ mem bm i) := by
  refine ⟨rangeOp_mem setP bm nb len, ?_⟩
  rw [rangeOp_flag]
  constructor
  · rintro ⟨i, h1, h2, h3⟩
    refine ⟨i, ?_⟩
    rw [rangeOp_mem, if_pos ⟨h1, h2⟩]
    exact fun h => h3 h.symm
  · rintro ⟨i, hi⟩
    rw [rangeOp_mem] at hi
    by_cases hc : nb ≤ i ∧ i < nb + len
    · rw [if_pos hc] at hi
      exact ⟨i, hc.1, hc.2, fun h => hi h.symm⟩
    · rw [if_neg hc] at hi; exact absurd rfl hi

example : (rangeOp true [0#64] 62 4).1 = [0xC000000000000000#64, 3#64] ∧ (rangeOp true [0#64] 62 4).2 = true := by
  decide

/-- `bitmap_clear` -/
theorem bitmap_clear (bm : Bm) (i : Nat) : mem (clear bm) i = false := mem_clear bm i

/-! ## copy, comparison -/

/-- `bitmap_copy` makes `dst` word-for-word equal to `src` -/
theorem bitmap_copy (dst src : Bm) : copy dst src = src := copy_eq dst src

/-- `bitmap_equal_p` is set equality (lengths may differ by zero words) -/
theorem bitmap_equal_p (a b : Bm) : equalP a b = true ↔ ∀ i, mem a i = mem b i := equalP_iff a b

example : equalP [5#64] [5#64, 0#64, 0#64] = true ∧ equalP [5#64, 0#64, 1#64] [5#64] = false := by decide

/-- `bitmap_intersect_p` -/
theorem bitmap_intersect_p (a b : Bm) :
    intersectP a b = true ↔ ∃ i, mem a i = true ∧ mem b i = true := intersectP_iff a b

/-- `bitmap_empty_p` -/
theorem bitmap_empty_p (bm : Bm) : emptyP bm = true ↔ ∀ i, mem bm i = false := emptyP_iff bm

/-! ## count, min, max -/

/-- `i ∈ members bm ↔ mem bm i`, and `members` is strictly increasing -/
theorem bitmap_members (bm : Bm) :
    (∀ i, i ∈ members bm ↔ mem bm i = true) ∧ (members bm).Pairwise (· < ·) :=
  ⟨mem_members bm, members_sorted bm⟩

/-- `bitmap_bit_count` is the cardinality -/
theorem bitmap_bit_count (bm : Bm) : bitCount bm = (members bm).length := bitCount_eq bm

/-- `bitmap_bit_min` / `bitmap_bit_max`: 0 on the empty set, otherwise the least / greatest member -/
theorem bitmap_bit_min_max (bm : Bm) :
    ((∀ i, mem bm i = false) → bitMin bm = 0 ∧ bitMax bm = 0) ∧
    (∀ i, mem bm i = true →
      mem bm (bitMin bm) = true ∧ mem bm (bitMax bm) = true ∧ bitMin bm ≤ i ∧ i ≤ bitMax bm) := by
  rw [bitMin_eq, bitMax_eq]
  constructor
  · intro h
    have : members bm = [] := by
      rw [List.eq_nil_iff_forall_not_mem]
      intro a ha
      rw [mem_members, h a] at ha
      exact Bool.false_ne_true ha
    simp [this]
  · intro i hi
    have hin := (mem_members bm i).2 hi
    have hne : members bm ≠ [] := List.ne_nil_of_mem hin
    exact ⟨(mem_members bm _).1 (head?_mem_getD _ hne), (mem_members bm _).1 (getLast?_mem_getD _ hne),
      head_le_of_sorted _ _ (members_sorted bm) hin, le_last_of_sorted _ _ (members_sorted bm) hin⟩

example : bitCount [0#64, 5#64] = 2 ∧ bitMin [0#64, 5#64] = 64 ∧ bitMax [0#64, 5#64] = 66 := by decide

/-! ## iterator -/

/-- `FOREACH_BITMAP_BIT` yields exactly the members, each once, in increasing order -/
theorem bitmap_iter (bm : Bm) :
    iterAll bm = (List.range (64 * bm.length)).filter (mem bm) ∧
    (iterAll bm).Pairwise (· < ·) ∧ (∀ i, i ∈ iterAll bm ↔ mem bm i = true) := by
  rw [iterAll_eq]
  exact ⟨rfl, members_sorted bm, mem_members bm⟩

example : iterAll [0x8000000000000001#64, 0#64, 4#64] = [0, 63, 130] := by decide

/-! ## op2 / op3: set algebra, also for aliased operands -/

theorem bitwise_and : Bitwise fAnd (fun | [x, y] => x && y | _ => false) where
  bit ws j := by rcases ws with _ | ⟨a, _ | ⟨b, _ | ⟨c, r⟩⟩⟩ <;> simp [fAnd]
  zero n := by rcases n with _ | _ | _ | n <;> simp [List.replicate]

theorem bitwise_and_compl : Bitwise fAndCompl (fun | [x, y] => x && !y | _ => false) where
  bit ws j := by
    rcases ws with _ | ⟨a, _ | ⟨b, _ | ⟨c, r⟩⟩⟩ <;> simp [fAndCompl]
    by_cases hj : j < 64
    · simp [hj]
    · simp [BitVec.getLsbD_of_ge a j (by omega)]
  zero n := by rcases n with _ | _ | _ | n <;> simp [List.replicate]

theorem bitwise_ior : Bitwise fIor (fun | [x, y] => x || y | _ => false) where
  bit ws j := by rcases ws with _ | ⟨a, _ | ⟨b, _ | ⟨c, r⟩⟩⟩ <;> simp [fIor]
  zero n := by rcases n with _ | _ | _ | n <;> simp [List.replicate]

theorem bitwise_ior_and : Bitwise fIorAnd (fun | [x, y, z] => x || (y && z) | _ => false) where
  bit ws j := by rcases ws with _ | ⟨a, _ | ⟨b, _ | ⟨c, _ | ⟨e, r⟩⟩⟩⟩ <;> simp [fIorAnd]
  zero n := by rcases n with _ | _ | _ | _ | n <;> simp [List.replicate]

theorem bitwise_ior_and_compl :
    Bitwise fIorAndCompl (fun | [x, y, z] => x || (y && !z) | _ => false) where
  bit ws j := by
    rcases ws with _ | ⟨a, _ | ⟨b, _ | ⟨c, _ | ⟨e, r⟩⟩⟩⟩ <;> simp [fIorAndCompl]
    by_cases hj : j < 64
    · simp [hj]
    · simp [BitVec.getLsbD_of_ge b j (by omega)]
  zero n := by rcases n with _ | _ | _ | _ | n <;> simp [List.replicate]

/-- **bitmap_op_set** (generic): after `bitmap_op2/op3 (dst, srcs…, f)` the destination denotes the
pointwise `fb` of the sets the sources denoted *before the call*, and no other object changed.
Holds for every choice of ids — `d ∈ srcs` and repeated sources are allowed — and for both flag
variants. -/
theorem bitmap_op_set (fix : Bool) (f : List Word → Word) (fb : List Bool → Bool) (hf : Bitwise f fb)
    (h : Heap) (d : Nat) (hd : d < h.length) (srcs : List Nat) :
    (∀ i, mem (hget (opH fix f h d srcs).1 d) i = fb (srcs.map (fun s => mem (hget h s) i))) ∧
    (∀ x, x ≠ d → hget (opH fix f h d srcs).1 x = hget h x) ∧
    (opH fix f h d srcs).1.length = h.length := by
  rw [opH_eq fix f h d hd srcs]
  refine ⟨?_, ?_, by simp⟩
  · intro i
    rw [hget_set, if_pos ⟨rfl, hd⟩, opV_mem fix f fb hf, List.map_map]
    rfl
  · intro x hx
    rw [hget_set, if_neg (fun c => hx c.1)]

/-- non-vacuity of `bitmap_op_set`: three distinct objects, destination longer than the sources -/
example : (opH false fIorAndCompl [[1#64, 0#64, 8#64], [6#64], [3#64, 1#64], [2#64]] 0 [1, 2, 3]).1 =
    [[7#64, 1#64], [6#64], [3#64, 1#64], [2#64]] := by decide

/-- `bitmap_and (d, a, b)`, any aliasing -/
theorem bitmap_and_set (h : Heap) (d a b : Nat) (hd : d < h.length) (i : Nat) :
    mem (hget (bAnd h d a b).1 d) i = (mem (hget h a) i && mem (hget h b) i) :=
  (bitmap_op_set flagFix fAnd _ bitwise_and h d hd [a, b]).1 i

/-- `bitmap_and_compl (d, a, b)`, any aliasing -/
theorem bitmap_and_compl_set (h : Heap) (d a b : Nat) (hd : d < h.length) (i : Nat) :
    mem (hget (bAndCompl h d a b).1 d) i = (mem (hget h a) i && !mem (hget h b) i) :=
  (bitmap_op_set flagFix fAndCompl _ bitwise_and_compl h d hd [a, b]).1 i

/-- `bitmap_ior (d, a, b)`, any aliasing -/
theorem bitmap_ior_set (h : Heap) (d a b : Nat) (hd : d < h.length) (i : Nat) :
    mem (hget (bIor h d a b).1 d) i = (mem (hget h a) i || mem (hget h b) i) :=
  (bitmap_op_set flagFix fIor _ bitwise_ior h d hd [a, b]).1 i

/-- `bitmap_ior_and (d, a, b, c)`: `a ∪ (b ∩ c)`, any aliasing -/
theorem bitmap_ior_and_set (h : Heap) (d a b c : Nat) (hd : d < h.length) (i : Nat) :
    mem (hget (bIorAnd h d a b c).1 d) i =
      (mem (hget h a) i || (mem (hget h b) i && mem (hget h c) i)) :=
  (bitmap_op_set flagFix fIorAnd _ bitwise_ior_and h d hd [a, b, c]).1 i

/-- `bitmap_ior_and_compl (d, a, b, c)`: `a ∪ (b \ c)`, any aliasing -/
theorem bitmap_ior_and_compl_set (h : Heap) (d a b c : Nat) (hd : d < h.length) (i : Nat) :
    mem (hget (bIorAndCompl h d a b c).1 d) i =
      (mem (hget h a) i || (mem (hget h b) i && !mem (hget h c) i)) :=
  (bitmap_op_set flagFix fIorAndCompl _ bitwise_ior_and_compl h d hd [a, b, c]).1 i

/-- aliased instance actually used by the dataflow solver: `bitmap_and_compl (x, x, y)` with the
destination being the first source, and `bitmap_ior_and_compl (out, out, in, out)` -/
example (h : Heap) (x y : Nat) (hx : x < h.length) (i : Nat) :
    mem (hget (bAndCompl h x x y).1 x) i = (mem (hget h x) i && !mem (hget h y) i) :=
  bitmap_and_compl_set h x x y hx i

example : (bAndCompl [[7#64, 0#64, 4#64], [5#64]] 0 0 1).1 = [[2#64, 0#64, 4#64], [5#64]] := by decide
example : (bAndCompl [[7#64, 0#64, 4#64], [5#64]] 1 0 1).1 = [[7#64, 0#64, 4#64], [2#64, 0#64, 4#64]] := by decide

/-! ## the change flag -/

/-- set-level "dst changed" -/
def Changed (h h' : Heap) (d : Nat) : Prop := ∃ i, mem (hget h' d) i ≠ mem (hget h d) i

/-- **bitmap_op_changed for the patched header** (`fixes/C19-bitmap-flag.patch`): the flag is
exact, for all operands, aliased or not -/
theorem bitmap_op_changed_fixed (f : List Word → Word) (h : Heap) (d : Nat) (hd : d < h.length)
    (srcs : List Nat) :
    (opH true f h d srcs).2 = true ↔ Changed h (opH true f h d srcs).1 d := by
  unfold Changed
  rw [opH_eq true f h d hd srcs]
  simp only
  rw [hget_set, if_pos ⟨rfl, hd⟩]
  exact opV_flag_fixed f (hget h d) (srcs.map (hget h))

/-- non-vacuity: on the patched model the witness of the defect reports the change -/
example : (opH true fAnd [[0#64, 0#64, 4#64], [], []] 0 [1, 2]) = ([[], [], []], true) := by decide

/-- the full statement is FALSE for the header as it is: `dst = {130}`, `bitmap_and (dst, ∅, ∅)`
empties `dst` and returns 0 (the three words of `dst` are beyond `max (src lens) = 0`, so the loop
compares nothing and `VARR_TRUNC` silently drops them) -/
theorem bitmap_op_changed_counterexample :
    ¬ ∀ (h : Heap) (d : Nat) (srcs : List Nat), d < h.length →
        ((opH false fAnd h d srcs).2 = true ↔ Changed h (opH false fAnd h d srcs).1 d) := by
  intro hall
  have h1 := hall [[0#64, 0#64, 4#64], [], []] 0 [1, 2] (by decide)
  have h2 : Changed [[0#64, 0#64, 4#64], [], []] (opH false fAnd [[0#64, 0#64, 4#64], [], []] 0 [1, 2]).1 0 :=
    ⟨130, by decide⟩
  have h3 := h1.2 h2
  revert h3
  decide

/- (the witness on the pre-fix model `bitmap_op_changed_counterexample_current` was removed when /repo commit
   fde4fbaa repaired the flag; `bitmap_op_changed_counterexample` above keeps the pre-fix fact) -/

/-- **bitmap_op_changed, partial form for the current header**: exact when `dst` has no non-zero
word at or beyond the length of the longest source (e.g. `dst` not longer than a source).
Stated about `opH flagFix`, the model of the code that exists; once `flagFix = true` the
hypothesis is discharged by `Or.inl rfl`. -/
theorem bitmap_op_changed_partial (f : List Word → Word) (h : Heap) (d : Nat) (hd : d < h.length)
    (srcs : List Nat)
    (hz : flagFix = true ∨ ∀ k, maxLen (srcs.map (hget h)) ≤ k → wget (hget h d) k = 0#64) :
    (opH flagFix f h d srcs).2 = true ↔ Changed h (opH flagFix f h d srcs).1 d := by
  generalize flagFix = fx at *
  cases fx with
  | true => exact bitmap_op_changed_fixed f h d hd srcs
  | false =>
    have hz' := hz.resolve_left (by decide)
    unfold Changed
    rw [opH_eq false f h d hd srcs]
    simp only
    rw [hget_set, if_pos ⟨rfl, hd⟩]
    exact opV_flag_current f (hget h d) (srcs.map (hget h)) hz'

/-- whenever the destination is also one of the sources (the way the generator's dataflow uses
these functions) the flag is exact already on the current header -/
theorem bitmap_op_changed_alias (f : List Word → Word) (h : Heap) (d : Nat) (hd : d < h.length)
    (srcs : List Nat) (hal : d ∈ srcs) :
    (opH flagFix f h d srcs).2 = true ↔ Changed h (opH flagFix f h d srcs).1 d := by
  apply bitmap_op_changed_partial f h d hd srcs
  right
  intro k hk
  apply wget_of_ge
  have := le_maxLen (srcs.map (hget h)) (hget h d) (List.mem_map.2 ⟨d, hal, rfl⟩)
  omega

/-- on the current header the flag never claims a change that did not happen -/
theorem bitmap_op_changed_sound (f : List Word → Word) (h : Heap) (d : Nat) (hd : d < h.length)
    (srcs : List Nat) (hflag : (opH flagFix f h d srcs).2 = true) :
    Changed h (opH flagFix f h d srcs).1 d := by
  generalize flagFix = fx at *
  cases fx with
  | true => exact (bitmap_op_changed_fixed f h d hd srcs).1 hflag
  | false =>
    unfold Changed
    rw [opH_eq false f h d hd srcs] at hflag ⊢
    simp only at hflag ⊢
    rw [hget_set, if_pos ⟨rfl, hd⟩]
    exact opV_flag_current_sound f (hget h d) (srcs.map (hget h)) hflag

/-- non-vacuity of the partial form: a state satisfying its hypothesis in which the flag is 1 -/
example : (bIor [[1#64], [0#64, 2#64]] 0 0 1).2 = true ∧
    (∀ k, maxLen ([0, 1].map (hget [[1#64], [0#64, 2#64]])) ≤ k → wget (hget [[1#64], [0#64, 2#64]] 0) k = 0#64) := by
  refine ⟨by decide, ?_⟩
  intro k hk
  apply wget_of_ge
  have : maxLen ([0, 1].map (hget [[1#64], [0#64, 2#64]])) = 2 := by decide
  rw [this] at hk
  simp [hget]; omega

/-- **bitmap_op_changed (full statement)** about the code that exists (after fix fde4fbaa): the flag is
true exactly when the destination's contents changed, for every operation function, heap and aliasing. -/
theorem bitmap_op_changed (f : List Word → Word) (h : Heap) (d : Nat) (hd : d < h.length)
    (srcs : List Nat) :
    (opH flagFix f h d srcs).2 = true ↔ Changed h (opH flagFix f h d srcs).1 d :=
  bitmap_op_changed_partial f h d hd srcs (Or.inl rfl)

end MirVerif.C19
