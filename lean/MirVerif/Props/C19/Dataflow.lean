import MirVerif.Lemmas.Dataflow
import MirVerif.Props.C19.Bitmap
/-!
# C19 — consequence of the exact change flags: `solve_dataflow` stops only at a solution

Anchor: `mir-gen.c` `solve_dataflow` ("dataflow solver relying on change flags").  Model:
`Model/Dataflow.lean` (tied to the C text on every run by `checks/c19_dataflow.py`, which compiles the
function extracted from /repo/mir-gen.c against the real container headers and compares final
in/out sets and the visiting trace with `mirdrv_c19d`).

* `solve_fixpoint` (full, partial correctness): for every CFG, every confluence/transfer function and
  every sort order, if the flags never under-report (`Exact`, which for the generator's bitmap
  confluence/transfer functions is `bitmap_op_changed` of `Props/C19/Bitmap.lean`), then whenever the
  worklist becomes empty every block satisfies `in = con (out of predecessors)` and `out = f (in)`.
* `solve_needs_exact_flags`: with a flag that under-reports one change (the shape of the defect
  repaired by fde4fbaa) the solver stops at a state that violates an equation.
* `bitmap_flag_never_under_reports` / `bitmap_flag_never_over_reports`: the flag returned by the bitmap model's
  op2/op3 (any operation function, heap and aliasing) is the exact set-level flag, i.e. the generator's
  bitmap callbacks meet `Exact`.
* `pending_nodup`: the array built for the next pass holds no block twice (the `bb_to_consider` test).
* `solve_fuel_irrelevant`: the result does not depend on the fuel.
* Not proved: termination (needs monotonicity and finite height of the caller's lattice); the
  theorem is stated for any fuel that suffices.
A backward problem is the same function with `preds`/`succs` exchanged (the C code exchanges the edge
lists), so the theorem covers both directions.
-/
namespace MirVerif.Dataflow

theorem solve_fixpoint {V : Type} (P : Problem V) (hx : Exact P)
    (hbd : ∀ a b, b ∈ P.succs a → b < P.n)
    (sort : List Nat → List Nat) (hsort : ∀ l x, x ∈ sort l ↔ x ∈ l)
    (fuel : Nat) (σ0 σ' : St V) (h : solve P sort fuel σ0 = some σ') :
    ∀ c, c < P.n → σ'.inn c = conVal P σ' c ∧ σ'.outt c = P.f c (σ'.inn c) := by
  refine loop_fixpoint P hx hbd sort hsort fuel true σ0 (List.range P.n) σ' ?_ ?_ h
  · intro x hxm; exact List.mem_range.mp hxm
  · intro c hc
    have hm : c ∈ List.range P.n := List.mem_range.mpr hc
    exact ⟨Or.inr ⟨rfl, hm⟩, Or.inr (Or.inl ⟨rfl, hm⟩)⟩

/-- the answer does not depend on the fuel: any larger fuel gives the same final state (so the model's
    fuel is only a device for totality; the C loop has none) -/
theorem loop_fuel_mono {V : Type} (P : Problem V) (sort : List Nat → List Nat) :
    ∀ (k : Nat) (first : Bool) (σ : St V) (w : List Nat) (σ' : St V),
      loop P sort k first σ w = some σ' → loop P sort (k + 1) first σ w = some σ' := by
  intro k
  induction k with
  | zero => intro first σ w σ' h; simp [loop] at h
  | succ k ih =>
    intro first σ w σ' h
    rw [loop] at h ⊢
    by_cases hw : w = []
    · rw [if_pos hw] at h ⊢; exact h
    · rw [if_neg hw] at h ⊢; exact ih _ _ _ _ h

theorem solve_fuel_irrelevant {V : Type} (P : Problem V) (sort : List Nat → List Nat) (k m : Nat)
    (σ0 σ' : St V) (h : solve P sort k σ0 = some σ') : solve P sort (k + m) σ0 = some σ' := by
  induction m with
  | zero => exact h
  | succ m ih => exact loop_fuel_mono P sort (k + m) true σ0 _ σ' ih

/-- `bb_to_consider` does its job: the array handed to the next pass never holds a block twice (so, its
    elements being block indexes below `n`, the worklist never outgrows the CFG) -/
theorem pending_nodup {V : Type} (P : Problem V) (first : Bool) (σ : St V) (w : List Nat) :
    (pass P first σ w).2.Nodup :=
  fold_nodup P first w σ [] List.nodup_nil

/-! Non-vacuity: reaching-definitions style problem over bit masks on the CFG
    0 → 1 → 2 → 1 (loop), 2 → 3: the solver needs three passes and returns the least solution. -/
def exPreds : Nat → List Nat | 1 => [0, 2] | 2 => [1] | 3 => [2] | _ => []
def exSuccs : Nat → List Nat | 0 => [1] | 1 => [2] | 2 => [1, 3] | _ => []
def exGen : Nat → Nat | 0 => 1 | 1 => 2 | 2 => 4 | _ => 8
def exKill : Nat → Nat | 2 => 1 | _ => 0
def exP (tflag : Nat → Nat → Bool) : Problem Nat where
  n := 4
  preds := exPreds
  succs := exSuccs
  init := fun _ => 0
  join := fun l => l.foldl (· ||| ·) 0
  f := fun b v => exGen b ||| (v &&& (15 ^^^ exKill b))
  cflag := fun o n => o != n
  tflag := tflag
def exS0 : St Nat := ⟨fun _ => 0, fun _ => 0⟩

theorem exP_exact : Exact (exP (fun o n => o != n)) where
  edge := by
    intro a b h
    match b, h with
    | 1, h => simp [exP, exPreds] at h; rcases h with rfl | rfl <;> simp [exP, exSuccs]
    | 2, h => simp [exP, exPreds] at h; subst h; simp [exP, exSuccs]
    | 3, h => simp [exP, exPreds] at h; subst h; simp [exP, exSuccs]
    | 0, h => simp [exP, exPreds] at h
    | n + 4, h => simp [exP, exPreds] at h
  cflag := by intro o n h; simp [exP]; exact fun e => h e.symm
  tflag := by intro o n h; simp [exP]; exact fun e => h e.symm

example : (solve (exP (fun o n => o != n)) id 10 exS0).map
    (fun s => ((List.range 4).map s.inn, (List.range 4).map s.outt)) =
    some ([0, 7, 7, 6], [1, 7, 6, 14]) := by decide +kernel
example : (solve (exP (fun o n => o != n)) id 2 exS0).isNone = true := by decide +kernel

/-- a flag that does not report one particular change of `out` (here: of block 1, 6 → 7, the
    change that has to travel round the loop; blocks visited in descending order) lets the solver stop at a non-solution. -/
theorem solve_needs_exact_flags :
    ∃ (tflag : Nat → Nat → Bool) (σ' : St Nat),
      (∀ o n, tflag o n = true → o ≠ n) ∧            -- the flag never over-reports …
      solve (exP tflag) List.reverse 10 exS0 = some σ' ∧ -- … the solver terminates …
      σ'.inn 2 ≠ conVal (exP tflag) σ' 2 := by         -- … at a state violating block 2's equation
  refine ⟨fun o n => o != n && !(o == 6 && n == 7), ?_⟩
  have hs : (solve (exP (fun o n => o != n && !(o == 6 && n == 7))) List.reverse 10 exS0).isSome = true := by
    decide +kernel
  obtain ⟨σ', hσ⟩ := Option.isSome_iff_exists.mp hs
  refine ⟨σ', ?_, hσ, ?_⟩
  · intro o n h; simp at h; exact h.1
  · have h1 : (solve (exP (fun o n => o != n && !(o == 6 && n == 7))) List.reverse 10 exS0).map
        (fun s => decide (s.inn 2 = conVal (exP (fun o n => o != n && !(o == 6 && n == 7))) s 2)) =
        some false := by decide +kernel
    rw [hσ] at h1
    simpa using h1

/-! ## the generator's flags meet `Exact`

The confluence and transfer functions of the generator's bitmap problems (liveness, availability,
dominators) are single `bitmap_ior`/`bitmap_and`/`bitmap_ior_and`/`bitmap_ior_and_compl` calls whose
return value is handed to `solve_dataflow`.  At the level of sets (`V := Nat → Bool`, the denotation
`mem` of a bitmap) the flag such a call returns is *the* exact flag `new ≠ old`, for every operation
function, every heap of bitmaps and every aliasing of the operands — this is `bitmap_op_changed`
re-read as the hypothesis of `solve_fixpoint`. -/
open MirVerif.Bitmap in
theorem bitmap_flag_never_under_reports (f : List Word → Word) (h : Heap) (d : Nat) (hd : d < h.length)
    (srcs : List Nat)
    (hne : (fun i => mem (hget (opH flagFix f h d srcs).1 d) i) ≠ (fun i => mem (hget h d) i)) :
    (opH flagFix f h d srcs).2 = true := by
  apply (MirVerif.C19.bitmap_op_changed f h d hd srcs).mpr
  apply Classical.byContradiction
  intro hc
  apply hne
  funext i
  apply Classical.byContradiction
  intro hi
  exact hc ⟨i, hi⟩

open MirVerif.Bitmap in
/-- and never over-reports (not needed for `solve_fixpoint`; it bounds the work) -/
theorem bitmap_flag_never_over_reports (f : List Word → Word) (h : Heap) (d : Nat) (hd : d < h.length)
    (srcs : List Nat) (hfl : (opH flagFix f h d srcs).2 = true) :
    (fun i => mem (hget (opH flagFix f h d srcs).1 d) i) ≠ (fun i => mem (hget h d) i) := by
  obtain ⟨i, hi⟩ := (MirVerif.C19.bitmap_op_changed f h d hd srcs).mp hfl
  intro heq
  exact hi (congrFun heq i)

end MirVerif.Dataflow
