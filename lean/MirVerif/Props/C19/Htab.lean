import MirVerif.Lemmas.HtabRefine
import MirVerif.Lemmas.HtabConserve
import MirVerif.Lemmas.HtabArr
import MirVerif.Lemmas.Lcg
/-!
# C19, HTAB part — property theorems

Model: `MirVerif.Model.Htab` (a statement-by-statement model of `mir-htab.h`, tied to the header by
the correspondence check `checks/c19_htab.py`).  Abstract map: `MirVerif.Model.HtabSpec`.

All theorems are universally quantified over the element type, the hash function `hf`, the equality
`eq` (subject to `Laws`: `eq` symmetric + transitive, equal elements hash equally), the `min_size`
argument of `HTAB_CREATE` and **all operation histories**.

What is *not* covered by these theorems (checked only by the correspondence runs, or assumed):
* that the C header behaves like the model (the tie; see `checks/c19_htab.py`);
* memory management of the two `VARR`s (ASan/UBSan/LSan runs of the harness);
* `htab_size_t` overflow: tables with 2^31 or more entries, `min_size > 2^31` (the size loop of
  `HTAB_CREATE` would not terminate in C; the model stops after 30 doublings);
* a NULL `free_func` (then simply no call is made) and `HTAB_DESTROY` (= `clear` + freeing memory).
-/
namespace MirVerif.Props.C19

open MirVerif.Htab

variable {α : Type}

/-- The probe sequence of `mir-htab.h` after `peterb` has been shifted out,
`ind ↦ (5·ind + 1) & (2^k − 1)`, reaches every slot from every start within `2^k` probes. -/
theorem probe_full_period (k x t : Nat) (hx : x < 2 ^ k) (ht : t < 2 ^ k) :
    ∃ n, n < 2 ^ k ∧ lcgIter (2 ^ k) n x = t :=
  MirVerif.Lcg.full_period k x t hx ht

/-- The first `size + 3` probes of any 32-bit hash visit every slot of a table with `size = 2^k`
entries (the first three probes still mix in `peterb`; then the generator has full period). -/
theorem probe_path_covers (k h p : Nat) (hh : h < 2 ^ 32) (hp : p < 2 ^ k) : p ∈ path (2 ^ k) h :=
  path_covers MirVerif.Lcg.full_period k h p hh hp

/-- **Termination is proved, not assumed**: in a well-formed table the probing loop of `HTAB_DO`
ends (finds the element or reaches an empty slot) within the `size + 3` probes the model allows;
the out-of-fuel result of the model is unreachable. -/
theorem scan_fuel_enough (hf : α → Nat) (eq : α → α → Bool) (t : Tab α) (hwf : WF hf eq t) (x : α) :
    scan eq t (hashOf hf x) x (fuelFor t) (hashOf hf x &&& (t.entries.length - 1)) (hashOf hf x)
      none 0 ≠ .noFuel :=
  lookup_ne_noFuel MirVerif.Lcg.full_period hwf x

/-- The invariant `WF` (indices valid and injective; every live element referenced by a slot that
lies on its probe path with no empty slot before it — tombstones never cut a chain —; stored hashes
correct; live elements pairwise different; `els_num` exact; at least half of the entries empty;
sizes are powers of two with `entries = 2·els`) holds after `HTAB_CREATE` … -/
theorem htab_wf_create (hf : α → Nat) (eq : α → α → Bool) (minSize : Nat) :
    WF hf eq (create minSize : Tab α) :=
  (create_spec minSize).1

/-- … and is preserved by every operation: `HTAB_DO` with any of the four actions (including the
rebuild of a full table, which re-inserts every live element) and `HTAB_CLEAR`. -/
theorem htab_wf_step (hf : α → Nat) (eq : α → α → Bool) (laws : Laws hf eq) (t : Tab α)
    (hwf : WF hf eq t) (o : Op α) : WF hf eq (step hf eq t o).1 :=
  (step_spec MirVerif.Lcg.full_period laws hwf o).1

/-- In a well-formed table at least half of the entries are empty (`#non-empty ≤ els_bound ≤
els_size = size / 2`), so probe chains stay short and an empty slot always exists. -/
theorem htab_half_empty (hf : α → Nat) (eq : α → α → Bool) (t : Tab α) (hwf : WF hf eq t) :
    t.entries.length ≤ 2 * t.entries.count .empty := by
  have h1 := hwf.empties
  have h2 := hwf.els_le
  have h3 := hwf.ent_len
  omega

/-- One `HTAB_DO` on any well-formed table returns the flag and the element the abstract map returns,
calls `free_func` on exactly the element the map drops, and leaves the table representing the map's
new content (same elements, same order). -/
theorem htab_do_refines (hf : α → Nat) (eq : α → α → Bool) (laws : Laws hf eq) (t : Tab α)
    (hwf : WF hf eq t) (x : α) (a : Action) :
    (doOp hf eq t x a).2 = (Spec.doOp eq (contents t) x a).2 ∧
    contents (doOp hf eq t x a).1 = (Spec.doOp eq (contents t) x a).1 :=
  let h := doOp_spec MirVerif.Lcg.full_period laws hwf x a
  ⟨h.2.2, h.2.1⟩

/-- **Refinement.**  For every `min_size` and every sequence of operations
(`HTAB_DO` find/insert/replace/delete, `HTAB_CLEAR`) on a freshly created table, the list of
observations — returned flag, element written to `*res`, arguments of the `free_func` calls,
`HTAB_ELS_NUM` and the `HTAB_FOREACH_ELEM` sequence after each operation — equals the list of
observations of the abstract map started empty; the final table represents the final map and is
well formed (so the statement extends to any continuation). -/
theorem htab_refines_map (hf : α → Nat) (eq : α → α → Bool) (laws : Laws hf eq) (minSize : Nat)
    (ops : List (Op α)) :
    (run hf eq (create minSize) ops).2 = (Spec.run eq [] ops).2 ∧
    contents (run hf eq (create minSize) ops).1 = (Spec.run eq [] ops).1 ∧
    WF hf eq (run hf eq (create minSize) ops).1 :=
  let h := run_spec MirVerif.Lcg.full_period laws ops (create minSize) (create_spec minSize).1
  ⟨h.2.2, h.2.1, h.1⟩

/-- **`free_func` is called exactly once per dropped element.**  Over any history the multiset of
elements that were stored into the table (INSERT of an absent element, every REPLACE) equals the
multiset of elements still in the table plus the multiset of all `free_func` arguments. -/
theorem htab_free_once (hf : α → Nat) (eq : α → α → Bool) (laws : Laws hf eq) (minSize : Nat)
    (ops : List (Op α)) :
    (storedBy (run hf eq (create minSize) ops).2 ops).Perm
      (contents (run hf eq (create minSize) ops).1 ++ freedBy (run hf eq (create minSize) ops).2) := by
  obtain ⟨h1, h2, -⟩ := htab_refines_map hf eq laws minSize ops
  rw [h1, h2]
  simpa using spec_conservation eq ops []

/-- The executable that the correspondence check runs against the real header (`mirdrv_c19`, which
keeps the two arrays in `Array`s: `runA`/`createA` of `Model/HtabArr.lean`) produces, for every
history, exactly the observations of the abstract map; its final state is a well-formed table
representing the final map.  (So the tie compares the real header with something that provably
behaves like the map.) -/
theorem htab_driver_refines_map (hf : α → Nat) (eq : α → α → Bool) (laws : Laws hf eq) (minSize : Nat)
    (ops : List (Op α)) :
    (runA hf eq (createA minSize) ops).2 = (Spec.run eq [] ops).2 ∧
    contentsA (runA hf eq (createA minSize) ops).1 = (Spec.run eq [] ops).1 ∧
    WF hf eq (runA hf eq (createA minSize) ops).1.toTab := by
  have h := htab_refines_map hf eq laws minSize ops
  rw [createA_eq, runA_toTab] at h
  exact h

/-! ### non-vacuity: the hypotheses are satisfiable by concrete, non-trivial instances -/

section Examples

/-- elements `(key, payload)`; equality on the key; a hash that collides a lot -/
def exEq (a b : Nat × Nat) : Bool := a.1 == b.1
def exHf (a : Nat × Nat) : Nat := a.1 % 2

theorem exLaws : Laws exHf exEq := by
  constructor
  · intro a b h; simp [exEq] at *; omega
  · intro a b c h1 h2; simp [exEq] at *; omega
  · intro a b h; simp [exEq] at h; unfold hashOf exHf; rw [h]

/-- a history with collisions, a tombstone, re-insertion, replacement and two rebuilds -/
def exOps : List (Op (Nat × Nat)) :=
  [.act .insert (1, 10), .act .insert (3, 20), .act .insert (5, 30), .act .delete (3, 0),
   .act .insert (7, 40), .act .replace (5, 50), .act .insert (3, 60), .act .insert (9, 70),
   .act .find (7, 0)]

/-- the table reached is non-trivial … -/
example : contents (run exHf exEq (create 2) exOps).1 = [(1, 10), (5, 50), (7, 40), (3, 60), (9, 70)] := by
  decide

/-- … it grew twice, still holds a tombstone-free layout after the last rebuild … -/
example : (run exHf exEq (create 2) exOps).1.cap = 8 := by decide

/-- … and satisfies the invariant, so `htab_wf_step`, `htab_do_refines`, `scan_fuel_enough` apply -/
example : WF exHf exEq (run exHf exEq (create 2) exOps).1 :=
  (htab_refines_map exHf exEq exLaws 2 exOps).2.2

/-- a well-formed table *with* a tombstone on a probe chain (before any rebuild) -/
example : WF exHf exEq (run exHf exEq (create 8) (exOps.take 4)).1 ∧
    (run exHf exEq (create 8) (exOps.take 4)).1.entries.count .deleted = 1 :=
  ⟨(htab_refines_map exHf exEq exLaws 8 (exOps.take 4)).2.2, by decide⟩

/-- the observations of the example history, as the abstract map gives them -/
example : ((run exHf exEq (create 2) exOps).2.map (fun o => (o.out.found, o.out.res, o.out.freed))) =
    [(false, some (1, 10), []), (false, some (3, 20), []), (false, some (5, 30), []),
     (true, none, [(3, 20)]), (false, some (7, 40), []), (true, some (5, 50), [(5, 30)]),
     (false, some (3, 60), []), (false, some (9, 70), []), (true, some (7, 40), [])] := by
  decide

end Examples

end MirVerif.Props.C19
