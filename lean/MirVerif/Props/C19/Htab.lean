/-! C19 property theorems about HTAB (none yet). -/
