import MirVerif.Lemmas.ReduceRoundtrip
import MirVerif.Lemmas.ReduceFast
/-!
# Property C12 — the binary-MIR compression layer is lossless and never trusts a damaged stream

All theorems are about `Model/Reduce.lean` (the code of `mir-reduce.h` after fix f40fd264), for an
arbitrary configuration `c` with `0 < bufLen < 2^28`, an arbitrary check hash `c.H` and an arbitrary
dictionary hash; `mirCfg` (the real constants and `mir_hash_strict`) is an instance
(`mirCfg_ok`).  What is *not* proved here and is decided by the correspondence check instead:
that the compiled C functions compute the same as the model (byte-identical encoder output, same
`(ok, bytes)` of the decoder on arbitrary streams), and nothing is claimed about collisions of the
64-bit hash (`accepted_hash` says exactly what an accepted stream must satisfy).
-/
namespace MirVerif.Reduce

theorem mirCfg_ok : mirCfg.Ok := ⟨by decide, by decide⟩

/-- `_reduce_uint_write` / `_reduce_uint_read` round trip, for every value the format can carry -/
theorem uint_roundtrip (u : Nat) (tl : List UInt8) (h : u < 2 ^ 28) :
    uintRead (uintWrite u ++ tl) = some (u, tl) :=
  uintRead_uintWrite u tl h

example : uintRead (uintWrite 70000 ++ [1, 2]) = some (70000, [1, 2]) := by decide

/-- `decode_of_valid_parse`: *any* valid parse of a buffer `d` (not only the one the encoder
chooses), serialised and followed by the trailer, decodes to `d` -/
theorem decode_of_valid_parse (c : Cfg) (hc : c.Ok) (es : List El) (d : List UInt8)
    (hv : ValidParse c es d) (hlen : d.length ≤ c.bufLen) :
    decode c (dataPrefix ++ (serEls es ++ 0 :: leBytes 8 (chainHash c checkHashSeed d).toNat))
      = .ok d := by
  have hdrop : (dataPrefix ++ (serEls es ++ 0 :: leBytes 8 (chainHash c checkHashSeed d).toNat)).drop 3
      = serEls es ++ 0 :: leBytes 8 (chainHash c checkHashSeed d).toNat := rfl
  have htake : (dataPrefix ++ (serEls es ++ 0 :: leBytes 8 (chainHash c checkHashSeed d).toNat)).take 3
      = dataPrefix := rfl
  have hp := hc.pos
  have ⟨h1, h2⟩ := decChunks_of_valid_parse c hc es d hv hlen checkHashSeed []
    (0 :: leBytes 8 (chainHash c checkHashSeed d).toNat)
  unfold decode
  rw [hdrop, htake]
  by_cases hfull : d.length = c.bufLen
  · have hd0 : d.length ≠ 0 := by omega
    rw [h1 hfull, decChunks_trailer, chainHash_short c hc _ d hlen, if_pos hd0]
    simp [DSt.init, leVal_leBytes_u64]
  · rw [h2 (by omega)]
    simp

/-- `encode_valid`: the elements the modelled `_reduce_encode_buf` writes for a buffer are a valid
parse of that buffer — for every buffer content, whatever the dictionary walk visits (the proof
uses only that every allocated dictionary element holds a pair the decoder can resolve and that
chain links lead to allocated elements; it does not depend on hash values, fuel or chain order) -/
theorem encode_valid (c : Cfg) (buf : Array UInt8) (hsz : buf.size ≤ c.bufLen) :
    ValidParse c (encodeBufEls c buf) buf.toList :=
  encodeBuf_validParse c buf hsz

/-- a valid parse containing a back-reference (non-vacuity of `ValidParse`) -/
theorem validParse_witness : ValidParse mirCfg [⟨[1, 2, 3, 4], some (4, 4)⟩] [1, 2, 3, 4, 1, 2, 3, 4] := by
  refine ⟨by decide, ?_⟩
  intro e he
  simp only [List.mem_singleton] at he
  subst he
  exact ⟨by decide, Or.inr (by simp), fun len off h => by
    simp only [Option.some.injEq, Prod.mk.injEq] at h
    obtain ⟨rfl, rfl⟩ := h
    decide⟩

/-- `decode_of_valid_parse` applied to the witness: a hand-written stream with a back-reference -/
example : decode mirCfg (dataPrefix ++ (serEls [⟨[1, 2, 3, 4], some (4, 4)⟩] ++
      0 :: leBytes 8 (chainHash mirCfg checkHashSeed [1, 2, 3, 4, 1, 2, 3, 4]).toNat))
    = .ok [1, 2, 3, 4, 1, 2, 3, 4] :=
  decode_of_valid_parse mirCfg mirCfg_ok _ _ validParse_witness (by decide)

/-- **Round trip**: decoding the encoder's output returns exactly the input, for every byte
string of every length (any number of buffers) -/
theorem roundtrip (c : Cfg) (hc : c.Ok) (d : List UInt8) : decode c (encode c d) = .ok d := by
  unfold decode encode
  have hdrop : (dataPrefix ++ encChunks c checkHashSeed d).drop 3 = encChunks c checkHashSeed d := rfl
  have htake : (dataPrefix ++ encChunks c checkHashSeed d).take 3 = dataPrefix := rfl
  rw [hdrop, htake, decChunks_encChunks c hc d.length d (Nat.le_refl _)]
  simp

/-- the instance for the real header -/
theorem roundtrip_mir (d : List UInt8) : decode mirCfg (encode mirCfg d) = .ok d :=
  roundtrip mirCfg mirCfg_ok d

/-- **Prefix-freeness**: no accepted stream is a proper prefix of another accepted stream, so every
truncation and every extension of an accepted stream (in particular of an encoder output) is
rejected -/
theorem prefix_free (c : Cfg) (s t d d' : List UInt8) (h1 : decode c s = .ok d)
    (h2 : decode c (s ++ t) = .ok d') : t = [] := by
  unfold decode at h1 h2
  split at h1
  · cases h1
  · rename_i d0 hd0
    split at h1
    · rename_i hpre
      split at h2
      · cases h2
      · rename_i d1 hd1
        have h3 : 3 ≤ s.length := by
          have := congrArg List.length hpre
          simp only [List.length_take, dataPrefix, List.length_cons, List.length_nil] at this
          omega
        rw [List.drop_append_of_le_length h3] at hd1
        exact decChunks_prefix_free c _ _ (Nat.le_refl _) _ _ _ t d0 d1 hd0 hd1
    · cases h1

/-- every proper extension of an encoder output is rejected -/
theorem extension_rejected (c : Cfg) (hc : c.Ok) (d t d' : List UInt8) (ht : t ≠ []) :
    decode c (encode c d ++ t) ≠ .ok d' :=
  fun h => ht (prefix_free c _ t d d' (roundtrip c hc d) h)

/-- every proper truncation of an encoder output is rejected -/
theorem truncation_rejected (c : Cfg) (hc : c.Ok) (d s t d' : List UInt8) (hs : encode c d = s ++ t)
    (ht : t ≠ []) : decode c s ≠ .ok d' := by
  intro h
  have h2 : decode c (s ++ t) = .ok d := by rw [← hs]; exact roundtrip c hc d
  exact ht (prefix_free c s t d' d h h2)

example : decode mirCfg (encode mirCfg [7, 7, 7, 7, 7, 7, 7, 7, 7] ++ [0]) ≠ .ok [7, 7, 7, 7, 7, 7, 7, 7, 7] :=
  extension_rejected mirCfg mirCfg_ok _ _ _ (by simp)

/-- **Hash binding**: an accepted stream starts with "MIR" and ends with tag 0 followed by the
little-endian check hash of the *decoded* bytes (chained over the buffers exactly as the encoder
does).  Hence a stream that decodes to data different from what was encoded can only be accepted if
the 64-bit hash chain collides. -/
theorem accepted_hash (c : Cfg) (hc : c.Ok) (s d : List UInt8) (h : decode c s = .ok d) :
    ∃ body, s = dataPrefix ++ (body ++ 0 :: leBytes 8 (chainHash c checkHashSeed d).toNat) := by
  unfold decode at h
  split at h
  · cases h
  · rename_i d0 hd0
    split at h
    · rename_i hpre
      cases h
      obtain ⟨tail, body, h1, _, h3⟩ := decChunks_hash c hc _ _ (Nat.le_refl _) _ _ _ _
        (DInv.init c) (by simpa [DSt.init] using hc.pos) hd0
      simp only [List.nil_append] at h1
      subst h1
      refine ⟨body, ?_⟩
      rw [← h3, ← hpre, List.take_append_drop]
    · cases h

/-- an altered stream that still carries the trailer of `encode c d` and is accepted decodes to data
with the same hash chain as `d`: identical data, or a collision of the 64-bit hash -/
theorem altered_accepted_only_on_hash_match (c : Cfg) (hc : c.Ok) (s d d' : List UInt8)
    (h : decode c s = .ok d')
    (hs : ∃ body, s = dataPrefix ++ (body ++ 0 :: leBytes 8 (chainHash c checkHashSeed d).toNat)) :
    chainHash c checkHashSeed d' = chainHash c checkHashSeed d := by
  obtain ⟨b1, h1⟩ := accepted_hash c hc s d' h
  obtain ⟨b2, h2⟩ := hs
  have e : (dataPrefix ++ b1 ++ [0]) ++ leBytes 8 (chainHash c checkHashSeed d').toNat
      = (dataPrefix ++ b2 ++ [0]) ++ leBytes 8 (chainHash c checkHashSeed d).toNat := by
    have := h1.symm.trans h2
    simpa [List.append_assoc] using this
  have e2 := List.append_inj_right' e (by simp)
  have e3 := congrArg leVal e2
  rw [leVal_leBytes_u64, leVal_leBytes_u64] at e3
  exact UInt64.toNat_inj.mp e3

/-- **Memory safety of the decoder model**: on *every* input — malformed, truncated, hostile — no
bounds-checked accessor of the model fails: every byte written lies inside `buf[0..bufLen)`, every
`ind2pos` entry written lies inside `ind2pos[0..bufLen)`, every `ind2pos` entry read was written
while filling the current buffer, and every copied source range lies inside the bytes already
decoded in the current buffer (so it is initialised and does not overlap the destination). -/
theorem no_oob (c : Cfg) (s : List UInt8) : decode c s ≠ .error .oob := by
  intro h
  unfold decode at h
  split at h
  · rename_i e he
    cases h
    exact decChunks_no_oob c _ _ (Nat.le_refl _) _ _ _ (DInv.init c) he
  · split at h <;> cases h

/-- the Array-based decoder the driver runs (`Model/ReduceFast.lean`) is the decoder of the theorems -/
theorem decode_fast_eq (c : Cfg) (s : List UInt8) : decodeF c s = decode c s := decodeF_eq c s

/-! Non-vacuity: the hypotheses of the theorems above are satisfiable by non-trivial data. -/

example : ∃ s d, d ≠ [] ∧ decode mirCfg s = .ok d :=
  ⟨encode mirCfg [1, 2, 3, 4, 1, 2, 3, 4], [1, 2, 3, 4, 1, 2, 3, 4], by simp, roundtrip_mir _⟩

example : ∃ buf : Array UInt8, buf.size ≠ 0 ∧ buf.size ≤ mirCfg.bufLen :=
  ⟨#[1, 2, 3, 4, 1, 2, 3, 4], by decide, by decide⟩

end MirVerif.Reduce
