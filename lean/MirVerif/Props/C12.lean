/-! Property theorems for C12 (none yet). -/
