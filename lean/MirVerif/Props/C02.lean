/-! Property theorems for C02 (none yet). -/
