import MirVerif.Lemmas.Sem
import MirVerif.Lemmas.SemExt
import MirVerif.Lemmas.SemOv
import MirVerif.Lemmas.BridgeC02
import MirVerif.Lemmas.SemMem
/-! # C02 — every (integer) instruction computes its documented result. Property theorems only. -/
namespace MirVerif

/-- For every integer arithmetic/logic/shift/compare instruction `(a, short)` and ALL 64-bit
register contents, the macro row the interpreter dispatches to is defined exactly where MIR.md
defines the instruction and produces the documented bits. -/
theorem interp_meets_doc (a : AOp) (short : Bool) (x y : W64) :
    optRel (agree a short) (macroSem (canonKind a short) x y) (docSem a short x y) := by
  cases a <;> cases short <;>
    simp only [canonKind, macroSem, docSem, if_true, if_false, Bool.false_eq_true,
      cS_doc (n := 64) (by decide), cS_doc (n := 32) (by decide), cU_div_doc, cU_mod_doc, cU_rsh_doc,
      cCmpS_doc, cmpS_short, cmpU_lt, cmpU_le, cmpU_gt, cmpU_ge,
      cmpU_lt_short, cmpU_le_short, cmpU_gt_short, cmpU_ge_short] <;>
    first
      | exact optRel_agree_refl _ _ _
      | exact optRel_zext_sext _ (by decide) _

/-- `EXT8/16/32`, `UEXT8/16/32`: the interpreter's `EXT(tp)` macro yields the documented extension
of the low bits, for every 64-bit input. -/
theorem ext_meets_doc (k : Nat) (hk : k = 8 ∨ k = 16 ∨ k = 32) (signed : Bool) (x : W64) :
    macroExt k signed x = docExt k signed x := by
  rcases hk with rfl | rfl | rfl <;> cases signed
  · exact uext8 x
  · exact ext8 x
  · exact uext16 x
  · exact ext16 x
  · exact uext32 x
  · exact ext32 x

/-- `NEG`/`NEGS` -/
theorem neg_meets_doc (short : Bool) (x : W64) : macroNeg short x = docNeg short x := by
  cases short <;> simp [macroNeg, docNeg, neg_doc]

/-- Overflow instructions: the flag formulas written in `mir-interp.c` are true exactly when the
mathematical result does not fit (signed resp. unsigned), and the stored result is the wrapped
mathematical result — 64-bit forms. -/
theorem addo_meets_doc (x y : W64) : interpAddO x y = docAddO x y := addo64_flags x y
theorem subo_meets_doc (x y : W64) : interpSubO x y = docSubO x y := subo64_flags x y
theorem mulo_meets_doc (x y : W64) : interpMulO x y = docMulO x y := mulo64_flags x y
theorem umulo_meets_doc (x y : W64) : interpUMulO x y = docUMulO x y := umulo64_flags x y
/-- 32-bit forms (`ADDOS` … operate on the low halves `(int32_t) op`) -/
theorem addos_meets_doc (x y : W64) : interpAddO (lo32 x) (lo32 y) = docAddO (lo32 x) (lo32 y) :=
  addo32_flags _ _
theorem subos_meets_doc (x y : W64) : interpSubO (lo32 x) (lo32 y) = docSubO (lo32 x) (lo32 y) :=
  subo32_flags _ _
theorem mulos_meets_doc (x y : W64) : interpMulO (lo32 x) (lo32 y) = docMulO (lo32 x) (lo32 y) :=
  mulo32_flags _ _
theorem umulos_meets_doc (x y : W64) : interpUMulO (lo32 x) (lo32 y) = docUMulO (lo32 x) (lo32 y) :=
  umulo32_flags _ _

/-- Compare-and-branch: `BICMP/BICMPS/BUCMP/BUCMPS` take the branch exactly when the documented
comparison result is non-zero. -/
theorem branch_meets_doc (a : AOp) (h : a.isCmp = true) (short : Bool) (x y : W64) :
    macroBranch (canonKind a short) x y = docBranch a short x y := by
  have key := interp_meets_doc a short x y
  cases a <;> simp [AOp.isCmp] at h <;> cases short <;>
    simp only [canonKind, macroBranch, docBranch, docSem, docBin, if_true, if_false,
      Bool.false_eq_true, Option.map_some, b2w_ne_zero, sext32_b2w_ne_zero,
      cCmpS, cCmpU, BitVec.slt_eq_decide, BitVec.sle_eq_decide, BitVec.ult_eq_decide,
      BitVec.ule_eq_decide, gt_iff_lt, ge_iff_le] <;>
    first | rfl | simp [BitVec.toInt_inj, Bool.beq_eq_decide_eq, bne]
/-- **BT / BF / BTS / BFS**: the interpreter takes the branch exactly when the documentation says so, for
every register content (the short forms ignore the upper half) -/
theorem bt_meets_doc (short neg : Bool) (x : W64) : interpBT short neg x = docBT short neg x := by
  have h64 : ∀ v : W64, v.toInt = 0 ↔ v = 0 := by
    intro v; constructor
    · intro h; exact BitVec.eq_of_toInt_eq (by simpa using h)
    · intro h; simp [h]
  have h32 : ∀ v : BitVec 32, v.toInt = 0 ↔ v = 0 := by
    intro v; constructor
    · intro h; exact BitVec.eq_of_toInt_eq (by simpa using h)
    · intro h; simp [h]
  cases short <;> cases neg <;> simp [interpBT, docBT, h64, h32]


theorem nodup_keys_unique {α β} [DecidableEq α] : ∀ (l : List (α × β)) (k : α) (v v' : β),
    (l.map (·.1)).Nodup → (k, v) ∈ l → (k, v') ∈ l → v = v'
  | [], _, _, _, _, h, _ => by cases h
  | (k0, v0) :: tl, k, v, v', hn, h, h' => by
    simp only [List.map_cons, List.nodup_cons] at hn
    simp only [List.mem_cons, Prod.mk.injEq] at h h'
    rcases h with ⟨rfl, rfl⟩ | h <;> rcases h' with ⟨h1, rfl⟩ | h'
    · rfl
    · exact absurd (List.mem_map_of_mem (f := (·.1)) h') hn.1
    · subst h1; exact absurd (List.mem_map_of_mem (f := (·.1)) h) hn.1
    · exact nodup_keys_unique tl k v v' hn.2 h h'

/-- **The dispatch table of the current `mir-interp.c`** (regenerated on every run): every integer
arithmetic/logic/shift/compare opcode has exactly one row, and the macro of that row computes the
documented result for all register contents. -/
theorem interp_table_meets_doc (a : AOp) (short : Bool) :
    ∃ k, (opName a short, k) ∈ Gen.C02.intRows ∧
      (∀ k', (opName a short, k') ∈ Gen.C02.intRows → k' = k) ∧
      ∀ x y, optRel (agree a short) (macroSem k x y) (docSem a short x y) := by
  have hc := canon_int_complete
  rw [List.all_eq_true] at hc
  have h1 := hc a (AOp.mem_all a)
  rw [List.all_eq_true] at h1
  have h2 := h1 short (by cases short <;> simp)
  have hm : (opName a short, canonKind a short) ∈ Gen.C02.intRows := by
    rw [gen_intRows]; simpa using h2
  refine ⟨canonKind a short, hm, ?_, interp_meets_doc a short⟩
  intro k' hk'
  exact nodup_keys_unique _ _ _ _ (by rw [gen_intRows]; exact canon_int_functional) hk' hm

/-- compare-and-branch rows of the current table -/
theorem branch_table_meets_doc (a : AOp) (ha : a ∈ AOp.cmps) (short : Bool) :
    ∃ k, (brName a short, k) ∈ Gen.C02.brRows ∧
      (∀ k', (brName a short, k') ∈ Gen.C02.brRows → k' = k) ∧
      ∀ x y, macroBranch k x y = docBranch a short x y := by
  have hc := canon_br_complete
  rw [List.all_eq_true] at hc
  have h1 := hc a ha
  rw [List.all_eq_true] at h1
  have h2 := h1 short (by cases short <;> simp)
  have hm : (brName a short, canonKind a short) ∈ Gen.C02.brRows := by
    rw [gen_brRows]; simpa using h2
  have hcmp : a.isCmp = true := by
    simp only [AOp.cmps, List.mem_cons, List.not_mem_nil, or_false] at ha
    rcases ha with rfl | rfl | rfl | rfl | rfl | rfl | rfl | rfl | rfl | rfl <;> rfl
  refine ⟨canonKind a short, hm, ?_, branch_meets_doc a hcmp short⟩
  intro k' hk'
  exact nodup_keys_unique _ _ _ _ (by rw [gen_brRows]; exact canon_br_functional) hk' hm

/-- extension rows of the current table -/
theorem ext_table_meets_doc (k : Nat) (hk : k = 8 ∨ k = 16 ∨ k = 32) (signed : Bool) :
    (extName k signed, k, signed) ∈ Gen.C02.extRows ∧ ∀ x, macroExt k signed x = docExt k signed x := by
  refine ⟨?_, ext_meets_doc k hk signed⟩
  rw [gen_extRows]
  rcases hk with rfl | rfl | rfl <;> cases signed <;> decide +kernel

/-- the source text of every macro body, operand getter and overflow/branch case whose meaning
`macroSem`, `macroExt`, `macroNeg`, `interp*O` transcribe is the reviewed one -/
theorem pinned_texts_unchanged : Gen.C02.pinned = Canon.C02.pinned := gen_pinned

/-- Narrow memory types: a load of type `T` after a store of type `T` to the same address yields the
documented extension of the stored value's low bits, and the store leaves the bytes above the
stored width unchanged — for every previous memory content and every stored value. -/
theorem narrow_ls (k : Nat) (hk : k = 8 ∨ k = 16 ∨ k = 32 ∨ k = 64) (signed : Bool) (old v : W64) :
    loadExt k signed (storeTrunc k old v) = (if k = 64 then v else docExt k signed v) ∧
    (storeTrunc k old v).toNat / 2 ^ k = (if k = 64 then 0 else old.toNat / 2 ^ k) := by
  rcases hk with rfl | rfl | rfl | rfl
  · simpa using narrow8 signed old v
  · simpa using narrow16 signed old v
  · simpa using narrow32 signed old v
  · have := v.isLt
    simp only [loadExt, storeTrunc, if_true]
    exact ⟨trivial, Nat.div_eq_of_lt this⟩

/-- non-vacuity: a concrete instruction instance where the result is defined and non-trivial -/
example : docSem .div true 0xFFFFFFFF_80000000 0x1_00000002 = some 0xFFFFFFFF_C0000000 := by decide
example : macroSem (canonKind .ursh true) 0xFFFFFFFF_80000000 0x1F = some 1 := by decide

end MirVerif
