import MirVerif.Model.Effects
import MirVerif.Gen.C01_Effects
/-! # C01 — the optimizer's "do not move / do not delete" opcode lists (regenerated from
mir-gen.c and mir.h by translate/c01_effects.py) respect the effects of MIR.md -/
namespace MirVerif.Effects
open MirVerif.Gen

/-- the specification classifies every opcode of the current mir.h, and names no opcode that does not exist -/
theorem effect_vocabulary :
    (trapCodes ++ flagCodes ++ callCodes ++ stackCodes ++ vaCodes ++ controlCodes).all (· ∈ C01Effects.codes) = true
    ∧ (specialCodes.filter (· ∈ C01Effects.codes)) = ["UNSPEC", "PRSET", "PRBEQ", "PRBNE", "USE", "INVALID_INSN", "INSN_BOUND"] := by
  decide +kernel

/-- **LICM hoists only pure instructions**: every opcode `loop_invariant_p` can accept is a pure value
computation (or outside the ordinary vocabulary: unspec/prset/use, which well-defined programs of the
property do not contain).  In particular no trapping division, no overflow-flag setter, no call, stack or
va_list instruction and no control transfer is ever moved out of a loop. -/
theorem licm_hoists_only_pure :
    ∀ c ∈ C01Effects.codes, c ∉ C01Effects.licmExcluded → (effect c).movable = true ∨ effect c = .special := by
  decide +kernel

/-- the converse direction is not required (refusing a pure opcode is only a missed optimization), but the
list is tight: everything it refuses is non-pure -/
theorem licm_excludes_only_effects :
    ∀ c ∈ C01Effects.licmExcluded, effect c ≠ .pure := by
  decide +kernel

/-- **SSA dead-code elimination never deletes an effect**: every opcode that has a result operand and an
effect of class call / stack / va is on the `ssa_dead_insn_p` keep list (BEND, VA_BLOCK_ARG, VA_END and all
control instructions have no result operand and are never candidates), and overflow setters are kept while
a branch can read their flag -/
theorem ssa_dce_keeps_effects :
    (∀ c ∈ C01Effects.codes, effect c = .call ∨ c ∈ ["ALLOCA", "BSTART", "VA_ARG", "VA_START"] → c ∈ C01Effects.ssaDeadKept)
    ∧ C01Effects.ssaDeadOverflowGuard = true := by
  decide +kernel

/-- **post-RA dead-code elimination never deletes an effect** -/
theorem dce_keeps_effects :
    (∀ c ∈ C01Effects.codes, (effect c = .call ∨ effect c = .stack ∨ effect c = .va ∨ c = "RET" ∨ c = "JRET")
        → c ∈ C01Effects.dceKept ∨ c = "VA_BLOCK_ARG")
    ∧ C01Effects.dceOverflowGuard = true := by
  decide +kernel

/-- everything the two eliminators may delete is deletable in the sense of the specification, given the
overflow guard (`flagLive = false` is what `reachable_bo_exists_p` establishes) -/
theorem deleted_is_deletable :
    ∀ c ∈ C01Effects.codes, c ∉ C01Effects.dceKept → effect c ≠ .control → effect c ≠ .special → c ≠ "VA_BLOCK_ARG" →
      (effect c).deletable false = true := by
  decide +kernel

/-- the predicates of mir.h the lists are built from mean what the specification says -/
theorem predicates_meet_spec :
    (∀ c ∈ C01Effects.anyBranch, effect c = .control)
    ∧ C01Effects.callCodes = callCodes ∧ C01Effects.overflowCodes = flagCodes := by
  decide +kernel

/-- **the `trap` class is exactly the integer operations that can raise an exception**: for div/mod the
documented result is undefined for a zero divisor … -/
theorem trap_ops_partial (a : AOp) (s : Bool) (h : effect (opName a s) = .trap) :
    ∃ x y, docSem a s x y = none := by
  refine ⟨0, 0, ?_⟩
  cases a <;> cases s <;> first | (exfalso; revert h; decide) | decide

/-- … and every integer operation classified `pure` other than the shifts has a documented result for all
operands (a shift by an out-of-range count yields an unspecified value but never an exception) -/
theorem pure_ops_total (a : AOp) (s : Bool) (h : effect (opName a s) = .pure)
    (hs : a ≠ .lsh ∧ a ≠ .rsh ∧ a ≠ .ursh) (x y : W64) : (docSem a s x y).isSome = true := by
  obtain ⟨h1, h2, h3⟩ := hs
  cases a <;> cases s <;> first
    | (exfalso; revert h; decide)
    | contradiction
    | simp [docSem, docBin]

/-- non-vacuity: ADD is pure and movable, DIV is not movable, ADDO is deletable only without a flag reader -/
example : (effect "ADD").movable = true ∧ (effect "DIV").movable = false ∧
    (effect "ADDO").deletable true = false ∧ (effect "ADDO").deletable false = true ∧
    "DIV" ∈ C01Effects.licmExcluded ∧ "ADD" ∉ C01Effects.licmExcluded := by decide +kernel

end MirVerif.Effects
