/-! Property theorems for C06 (none yet). -/
