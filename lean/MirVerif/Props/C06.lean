import MirVerif.Model.AbiCallee
import MirVerif.Lemmas.AbiCallee
import MirVerif.Gen.C06_Regs
/-!
# C06 — MIR functions are correct C-ABI callees and preserve the caller's machine state
(x86-64 System V)

Property theorems only.  Models: `MirVerif/Model/AbiCallee.lean`; they are tied to /repo on every
run by `translate/c06_extract.py` (register tables, constants) and by the correspondence checks of
`checks/c06.py` (sentinel probes through an assembly trampoline, gcc-compiled callers, direct calls
of the va_arg builtins, decoded prologues).

Statements that are FALSE for the code as it is are kept visible: each has a `…_counterexample`
(a concrete witness, checked by `decide`) and a `…_partial` theorem with the explicit extra
hypothesis; the correspondence check replays every witness on the real generated code.  Today no
such statement is left: the long-double, `va_block_arg` and `va_start` defects were repaired in
/repo (6f58eeff, a84677ea, de2f5d8a), the theorems are full and the former witnesses are regression
`example`s here and pinned replays in corpus/C06.
-/
namespace MirVerif.C06
open MirVerif.AbiCallee

/-! ## 1. Incoming arguments of generated code (`target_machinize`) -/

/-- For every parameter list (any length, any mix, blocks of every case) every eightbyte of every
parameter is read from exactly the register or the absolute stack address the psABI assigns to it,
given `rbp = S - 8` after the prologue (`S` = `rsp` at entry).
(Was `callee_meets_sysv_partial` with the hypothesis "no long double needs padding" until fix
6f58eeff rounded `mem_size` up to 16 before a `long double`; defect #11, callee side.) -/
theorem callee_meets_sysv (ps : List PTy) (hwf : allWf ps = true) (S : Int) :
    (calleePlace ps).map (·.map (MPiece.resolve (S - 8)))
      = (sysvIncoming ps).map (·.map (Piece.resolve S)) :=
  (machWalk_sysv S ps .init .init ⟨rfl, rfl, rfl⟩ hwf).1

example : allWf [.int, .dbl, .blk 1 12, .flt, .int, .int, .int, .int, .int, .blk 3 16, .blk 0 24, .ld, .int, .dbl] = true := by
  decide

/-- regression for the former witness of #11: seven integers, then a long double -/
example : (calleePlace [.int, .int, .int, .int, .int, .int, .int, .ld]).map (·.map MPiece.toPiece)
    = sysvIncoming [.int, .int, .int, .int, .int, .int, .int, .ld] := by decide

/-! ## 2. The interpreter shim (`_MIR_get_interp_shim` + `interp` + `va_block_arg_builtin`) -/

/-- For every parameter list the values the interpreter receives are read from the psABI locations
(`long double`: the C compiler's `va_arg` aligns it; blocks: `va_block_arg_builtin`), and the
`va_list` handed to `va_start` afterwards is in the psABI state.
(Was `_partial` — no mixed-class block, SSE blocks must fit — until fix a84677ea.) -/
theorem shim_meets_sysv (ps : List PTy) (hwf : allWf ps = true) :
    shimPlace ps = sysvIncoming ps ∧ VaRel (vaStartShim ps) (sysvWalk .init ps).2 :=
  shimWalk_sysv ps .shimInit .init ⟨rfl, rfl, rfl, by decide, by decide⟩ hwf

example : allWf [.int, .ld, .blk 2 16, .int, .blk 3 16, .int, .int, .int, .int, .ld, .blk 1 9, .blk 4 12, .blk 0 40] = true := by
  decide

/-- regressions for the former witnesses (mixed-class block; SSE block without registers left) -/
example : shimPlace [.int, .blk 3 16, .dbl] = sysvIncoming [.int, .blk 3 16, .dbl] := by decide
example : shimPlace [.dbl, .dbl, .dbl, .dbl, .dbl, .dbl, .dbl, .dbl, .blk 2 16]
    = sysvIncoming [.dbl, .dbl, .dbl, .dbl, .dbl, .dbl, .dbl, .dbl, .blk 2 16] := by decide

/-! ## 3. `va_start` in generated code -/

/-- For every well-formed named-parameter list the three fields the expansion stores
(gp_offset, fp_offset, overflow area offset) are exactly the psABI's.
(Was `_partial` — fewer than six integer, at most eight SSE named parameters, plain memory blocks —
until fix de2f5d8a took the counters of the argument loop; defect #12 and relatives.) -/
theorem va_start_meets_sysv (ps : List PTy) (hwf : allWf ps = true) :
    vaStartGen ps = sysvVaStart ps := by
  obtain ⟨h1, h2, h3⟩ := (machWalk_sysv 0 ps .init .init ⟨rfl, rfl, rfl⟩ hwf).2
  simp only [vaStartGen, sysvVaStart, h1, h2, h3, Nat.mul_comm]

example : allWf [.int, .int, .int, .int, .int, .int, .blk 1 16, .dbl, .blk 0 20, .ld] = true := by decide

/-- regressions for the four former witnesses: six named integers, nine named doubles, a block passed
in registers, a memory block of a size that is not a multiple of 8 -/
example : vaStartGen [.int, .int, .int, .int, .int, .int] = sysvVaStart [.int, .int, .int, .int, .int, .int] := by
  decide
example : vaStartGen [.dbl, .dbl, .dbl, .dbl, .dbl, .dbl, .dbl, .dbl, .dbl]
    = sysvVaStart [.dbl, .dbl, .dbl, .dbl, .dbl, .dbl, .dbl, .dbl, .dbl] := by decide
example : vaStartGen [.int, .blk 1 16] = sysvVaStart [.int, .blk 1 16] := by decide
example : vaStartGen [.int, .blk 0 20] = sysvVaStart [.int, .blk 0 20] := by decide

/-! ## 4. Fetching variadic arguments (`va_arg_builtin`, `va_block_arg_builtin`) -/

/-- Starting from a `va_list` in the psABI state for what the named parameters consumed, iterating
`va_arg` / `va_block_arg` over a variadic tail of any length and any mix fetches every eightbyte from
exactly the location where the psABI makes the caller put it (register-save-area slot of the right
register, or the right — for `long double` 16-byte aligned — stack offset).
(Was `_partial` until fixes 6f58eeff (long double) and a84677ea (mixed-class and SSE blocks).) -/
theorem va_arg_walk (v : VaList) (s : SysV) (tail : List PTy) (hR : VaRel v s)
    (hwf : allWf tail = true) :
    (vaArgWalk v tail).1.map (·.map Src.toPiece) = (sysvWalk s tail).1 :=
  (vaArgWalk_sysv tail v s hR hwf).1

/-- regressions for the three former witnesses -/
example : ((vaArgWalk (sysvVaStart [.int]) [.blk 3 16, .dbl]).1.map (·.map Src.toPiece))
    = (sysvWalk (sysvWalk .init [.int]).2 [.blk 3 16, .dbl]).1 := by decide
example : ((vaArgWalk (sysvVaStart [.int]) [.dbl, .dbl, .dbl, .dbl, .dbl, .dbl, .dbl, .dbl, .blk 2 16]).1.map
      (·.map Src.toPiece))
    = (sysvWalk (sysvWalk .init [.int]).2 [.dbl, .dbl, .dbl, .dbl, .dbl, .dbl, .dbl, .dbl, .blk 2 16]).1 := by
  decide
example : ((vaArgWalk (sysvVaStart [.int]) [.int, .int, .int, .int, .int, .int, .ld]).1.map (·.map Src.toPiece))
    = (sysvWalk (sysvWalk .init [.int]).2 [.int, .int, .int, .int, .int, .int, .ld]).1 := by decide

/-- generated code end to end, every signature: `va_start` after `named`, then the walk -/
theorem vararg_gen (named tail : List PTy) (hn : allWf named = true) (hwf : allWf tail = true) :
    (vaArgWalk (vaStartGen named) tail).1.map (·.map Src.toPiece)
      = (sysvWalk (sysvWalk .init named).2 tail).1 := by
  rw [va_start_meets_sysv named hn]
  have hb := sysvWalk_bounds named .init hn (by decide) (by decide)
  exact va_arg_walk _ _ tail ⟨rfl, rfl, rfl, hb.1, hb.2⟩ hwf

/-- interpreter end to end, every signature -/
theorem vararg_shim (named tail : List PTy) (hn : allWf named = true) (hwf : allWf tail = true) :
    (vaArgWalk (vaStartShim named) tail).1.map (·.map Src.toPiece)
      = (sysvWalk (sysvWalk .init named).2 tail).1 :=
  va_arg_walk _ _ tail (shim_meets_sysv named hn).2 hwf

example : allWf [.int, .int, .int, .int, .int, .int, .int, .dbl, .blk 1 16] = true
    ∧ allWf [.int, .dbl, .blk 1 16, .int, .blk 3 16, .int, .int, .blk 2 8, .ld, .int, .blk 0 24, .blk 4 12] = true := by
  decide

/-! ## 4b. Result registers -/

/-- For every result list the specification defines (any order and mix of at most two INTEGER, two
SSE and two X87 results) generated code (`MIR_RET` lowering) and the interpreter shim both put the
n-th result of each class into the register the specification names: rax, rdx / xmm0, xmm1 / st0, st1. -/
theorem ret_meets_spec (rs : List RTy) (locs : List RetLoc)
    (h : retWalk retSpecStep ⟨0, 0, 0⟩ rs = some locs) :
    retWalk retGenStep ⟨0, 0, 0⟩ rs = some locs ∧ retWalk retShimStep ⟨0, 0, 0⟩ rs = some locs :=
  retWalk_of_spec rs ⟨0, 0, 0⟩ locs h

example : retWalk retSpecStep ⟨0, 0, 0⟩ [.sse, .sse, .int, .x87, .int, .x87]
    = some [.xmm0, .xmm1, .rax, .st0, .rdx, .st1] := by decide

/-! ## 5. Frame (`target_make_prolog_epilog`) -/

/-- entry `rsp ≡ 8 (mod 16)` ⇒ `rsp ≡ 0 (mod 16)` after the prologue, in both frame shapes, with and
without the vararg register save area, for any number of slots and saved registers -/
theorem frame_aligned (f : FrameIn) (S : Int) (hS : S % 16 = 8) (hj : f.jret = false) :
    f.spAfter S % 16 = 0 := by
  unfold FrameIn.spAfter FrameIn.spSub FrameIn.blockSize FrameIn.serviceArea roundUp16 regSaveAreaSize
  rw [hj]
  cases f.vararg <;> simp <;> omega

/-- the save slots of two different callee-saved registers do not overlap -/
theorem frame_saved_pairwise (f : FrameIn) (S : Int) (i j : Nat) (hij : i ≠ j) :
    f.saveAddr S i + 8 ≤ f.saveAddr S j ∨ f.saveAddr S j + 8 ≤ f.saveAddr S i := by
  unfold FrameIn.saveAddr
  cases f.keepFp <;> simp <;> omega

/-- every save slot lies inside the frame: at or above the new `rsp`, below the saved frame pointer /
padding word under the return address, and (vararg) below the register save area -/
theorem frame_saved_inside (f : FrameIn) (S : Int) (i : Nat) (hi : i < f.saved.length) (hj : f.jret = false) :
    f.spAfter S ≤ f.saveAddr S i
    ∧ f.saveAddr S i + 8 ≤ S - 8 - (if f.vararg then (regSaveAreaSize : Int) else 0) := by
  unfold FrameIn.saveAddr FrameIn.spAfter FrameIn.spSub FrameIn.bpSavedRegOffset FrameIn.blockSize
    FrameIn.serviceArea FrameIn.slotsSize FrameIn.savedSize roundUp16 regSaveAreaSize
  rw [hj]
  cases f.keepFp <;> cases f.vararg <;> simp <;> omega

/-- save slots and pseudo-register stack slots are disjoint -/
theorem frame_saved_vs_slots (f : FrameIn) (S : Int) (i k : Nat) (hi : i < f.saved.length)
    (hk : k < f.nslots) (hj : f.jret = false) :
    f.saveAddr S i + 8 ≤ f.slotAddr S k ∨ f.slotAddr S k + 8 ≤ f.saveAddr S i := by
  unfold FrameIn.saveAddr FrameIn.slotAddr FrameIn.spSub FrameIn.bpSavedRegOffset FrameIn.blockSize
    FrameIn.serviceArea FrameIn.slotsSize FrameIn.savedSize roundUp16 regSaveAreaSize
  rw [hj]
  cases f.keepFp <;> cases f.vararg <;> simp <;> omega

/-- every stack slot lies inside the frame too -/
theorem frame_slots_inside (f : FrameIn) (S : Int) (k : Nat) (hk : k < f.nslots) (hj : f.jret = false) :
    f.spAfter S ≤ f.slotAddr S k
    ∧ f.slotAddr S k + 8 ≤ S - 8 - (if f.vararg then (regSaveAreaSize : Int) else 0) := by
  unfold FrameIn.slotAddr FrameIn.spAfter FrameIn.spSub FrameIn.blockSize
    FrameIn.serviceArea FrameIn.slotsSize FrameIn.savedSize roundUp16 regSaveAreaSize
  rw [hj]
  cases f.keepFp <;> cases f.vararg <;> simp <;> omega

/-- `prologue_saves_used`: the epilogue reloads every saved register from the slot the prologue stored it to -/
theorem restore_eq_save (f : FrameIn) (S : Int) (i : Nat) : f.restoreAddr S i = f.saveAddr S i := rfl

/-- vararg prologue: the n-th integer argument register is stored at `reg_save_area + 8 n`, the low
half of `xmm j` at `reg_save_area + 48 + 16 j`, where `reg_save_area = rbp - 176` is what `va_start`
stores — the layout `rsaPiece` assumes -/
theorem reg_save_area_layout (f : FrameIn) (S : Int) (hv : f.vararg = true) (hj : f.jret = false)
    (n : Nat) :
    f.regSaveGprAddr S n = FrameIn.regSaveAreaAddr S + 8 * n
    ∧ f.regSaveXmmAddr S n = FrameIn.regSaveAreaAddr S + 48 + 16 * n := by
  unfold FrameIn.regSaveGprAddr FrameIn.regSaveXmmAddr FrameIn.regSaveAreaAddr FrameIn.spAfter
    FrameIn.spSub FrameIn.serviceArea regSaveAreaSize
  rw [hv, hj]
  simp
  omega

example : ∃ f : FrameIn, f.jret = false ∧ f.vararg = true ∧ 2 < f.saved.length ∧ 3 < f.nslots :=
  ⟨⟨true, true, false, 7, [3, 12, 13, 14, 15]⟩, by decide⟩

/-! ## 6. alloca -/

/-- the rounded size covers the request, is a multiple of 16, wastes less than 16 bytes, and keeps a
16-byte aligned stack pointer aligned -/
theorem alloca_aligned (n : Nat) (sp : Int) (hsp : sp % 16 = 0) :
    n ≤ allocaRound n ∧ allocaRound n % 16 = 0 ∧ allocaRound n < n + 16
    ∧ (sp - allocaRound n) % 16 = 0 := by
  unfold allocaRound
  omega

example : (4096 : Int) % 16 = 0 := by decide

/-! ## 7. Callee-saved registers (generated table) -/

/-- among the sixteen general registers `target_call_used_hard_reg_p` (as extracted from the source
on this run) spares exactly rbx and r12–r15; together with the frame lemmas (rbp reloaded from its
slot, rsp = entry rsp at `ret`) this is the psABI set {rbx, rbp, rsp, r12–r15} -/
theorem callee_saved_set :
    ((List.range 16).filter fun hr => !Gen.C06.callUsedP hr).map (Gen.C06.hardRegNames.getD · "?")
      = ["BX", "R12", "R13", "R14", "R15"] := by decide

/-- no SSE or x87 register is treated as callee-saved (none is, in the psABI) -/
theorem no_vector_callee_saved :
    ((List.range Gen.C06.hardRegNames.length).filter fun hr => decide (16 ≤ hr) && !Gen.C06.callUsedP hr) = [] := by
  decide

/-! ## 8. Bridges: extracted constants and tables equal the model's -/

theorem gen_regSaveAreaSize : Gen.C06.regSaveAreaSize = regSaveAreaSize := by decide
theorem gen_startSpFromBp : Gen.C06.startSpFromBp = startSpFromBp := by decide

/-- `get_int_arg_reg` yields rdi, rsi, rdx, rcx, r8, r9 (in this order) and nothing else;
`get_fp_arg_reg` yields xmm0–xmm7 -/
theorem gen_arg_regs :
    Gen.C06.intArgRegs.map (Gen.C06.hardRegNames.getD · "?") = ["DI", "SI", "DX", "CX", "R8", "R9"]
    ∧ Gen.C06.fpArgRegs.map (Gen.C06.hardRegNames.getD · "?")
        = ["XMM0", "XMM1", "XMM2", "XMM3", "XMM4", "XMM5", "XMM6", "XMM7"] := by decide

theorem gen_arg_reg_counts (n : Nat) :
    intArgRegP n = decide (n < Gen.C06.intArgRegs.length)
    ∧ fpArgRegP n = decide (n < Gen.C06.fpArgRegs.length) := by
  simp [intArgRegP, fpArgRegP, Gen.C06.intArgRegs, Gen.C06.fpArgRegs]

/-- the vararg prologue stores the n-th integer argument register at offset 8 n and xmm j at 48 + 16 j -/
theorem gen_reg_save_order :
    Gen.C06.regSaveOrder
      = (List.range 6).map (fun n => (8 * n, Gen.C06.intArgRegs.getD n 99, false))
        ++ (List.range 8).map (fun j => (48 + 16 * j, Gen.C06.fpArgRegs.getD j 99, true)) := by decide

end MirVerif.C06
