import MirVerif.Model.Patterns
import MirVerif.Gen.C01_Patterns
/-! # C01 — the x86-64 pattern table (regenerated from mir-gen-x86_64.c on every run):
every encoding field can carry what the operand constraint of its row admits -/
namespace MirVerif.Patterns
open MirVerif.Gen

/-- **field widths match operand constraints in every row**: an operand placed into an 8-bit immediate field
is constrained by `i0` (or is a small literal / scale / zero), one placed into a 32-bit field by `i0..i2`; an
8-bit branch displacement is used only for an operand matched as a near label; register and memory fields
receive operands matched as registers resp. memory (a digit refers to an earlier operand of that kind) -/
theorem pattern_fields_carry_operands : ∀ r ∈ C01Patterns.rows, rowOk r = true := by
  decide +kernel

/-- what `i0`, `i1`, `i2` mean when an operand is matched: the range predicates proved sound in
`imm_signed_sound` (Props/C01Exprs.lean); `i3` admits every 64-bit value -/
theorem imm_match_pinned :
    C01Patterns.immMatch = "(ch == '0' && !int8_p (n)) || (ch == '1' && !int16_p (n)) || (ch == '2' && !int32_p (n))" := by
  decide

/-- the table is not trivially satisfied: there are rows with each kind of field -/
example : (C01Patterns.rows.filter fun r => r.repl.any fun t => match t with | .imm 8 _ => true | _ => false).length ≥ 20 ∧
    (C01Patterns.rows.filter fun r => r.repl.any fun t => match t with | .lab 8 _ => true | _ => false).length ≥ 20 := by
  decide +kernel

/-- the checker rejects a row that puts a 32-bit-constrained operand into a byte field -/
example : rowOk ⟨"ADD", [.reg, .same 0, .imm 2], [.regf 0, .imm 8 2]⟩ = false := by decide

end MirVerif.Patterns
