import MirVerif.Lemmas.DupRestoreMain
import MirVerif.Lemmas.DupRestoreWfCheck
/-!
# C16 — code generation leaves the MIR program intact and can be repeated

Model: `MirVerif/Model/DupRestore.lean` (`_MIR_duplicate_func_insns`, `_MIR_restore_func_insns`,
`new_func_reg`, `_MIR_new_temp_reg`, entry/exit protocol of `generate_func_code`).

Proved, for every well-formed function (`WF`, i.e. what MIR_finish_func/MIR_load_module establish
and the `mir_assert`s of duplicate state) and every sequence of generator edits confined to the
working copy (`Edit.legal`):

* `dup_closed`       after duplicate every label operand and every lref of the working copy points
                     into the working copy, whose instructions are all freshly allocated;
* `dup_frame`        duplicate leaves every previously allocated instruction unchanged;
* `dup_iso`          the working copy prints like the original;
* `restore_identity` duplicate; any legal edits; restore gives back the same instruction list, the
                     same instructions, lrefs, vars and register tables, hence the same print;
* `restore_wf`       … and the function is again well-formed (a later duplicate is again covered);
* `wf_of_check`      the executable well-formedness test run on every real function implies `WF`;
* `gen_idempotent_addr`, `gen_history`  `MIR_gen` on a function whose `machine_code` is set returns
                     `item->addr`, publishes no code and does not touch the function; any history of
                     `MIR_gen` calls returns the same address every time, publishes code once and
                     leaves the print unchanged.

Not proved here (checked by the correspondence in checks/c16.py): that the optimizer's real edits
are legal in the sense of `Edit.legal` and that the model functions agree with the C functions.
-/
namespace MirVerif.DupRestore

/-! ### duplicate -/

/-- **dup_frame**: `_MIR_duplicate_func_insns` does not change any instruction that existed
before the call (in particular the pristine list and every other function's instructions). -/
theorem dup_frame (s : State) (hwf : WF s) :
    ∀ i, i < s.next → (duplicate s).heap i = s.heap i :=
  (dup_spec s hwf).2.2.1

/-- **dup_closed**: after `_MIR_duplicate_func_insns` the working copy consists of freshly
allocated instructions only, every label operand of the working copy points to a label of the
working copy, and so does every lref of the function; `original_insns` is the old list. -/
theorem dup_closed (s : State) (hwf : WF s) :
    (duplicate s).func.originalInsns = s.func.insns ∧
    (∀ i ∈ (duplicate s).func.insns, s.next ≤ i) ∧
    (∀ i ∈ (duplicate s).func.insns, ∀ insn, (duplicate s).heap i = some insn →
      ∀ (n : Nat) (p : Option Nat), insn.ops[n]? = some (Op.lab p) →
        PtrOK (duplicate s).heap (duplicate s).func.insns p) ∧
    (∀ r ∈ (duplicate s).func.lrefs,
      PtrOK (duplicate s).heap (duplicate s).func.insns r.label ∧
      (r.label2 = none ∨ PtrOK (duplicate s).heap (duplicate s).func.insns r.label2)) := by
  obtain ⟨_, hfunc, _, hcopy⟩ := dup_spec s hwf
  have hins : (duplicate s).func.insns = List.range' s.next s.func.insns.length := by
    rw [hfunc]
  -- a remapped pointer to a label of the old list is a label of the new list
  have hptr : ∀ p, PtrOK s.heap s.func.insns p →
      PtrOK (duplicate s).heap (duplicate s).func.insns (remapPtr s.func.insns s.next p) := by
    rintro p ⟨t, rfl, ht, insnT, hT, hkind⟩
    refine ⟨s.next + s.func.insns.idxOf t, rfl, ?_, ?_⟩
    · rw [hins]
      exact List.mem_range'.mpr ⟨_, List.idxOf_lt_length_of_mem ht, by simp⟩
    · exact ⟨_, hcopy _ t insnT (getElem?_idxOf_of_mem ht) hT, hkind⟩
  refine ⟨by rw [hfunc], ?_, ?_, ?_⟩
  · intro i hi
    rw [hins] at hi
    obtain ⟨k, _, rfl⟩ := List.mem_range'.mp hi
    omega
  · intro i hi insn hinsn n p hop
    rw [hins] at hi
    obtain ⟨k, hk, rfl⟩ := List.mem_range'.mp hi
    simp only [Nat.one_mul] at hinsn
    have hko : s.func.insns[k]? = some s.func.insns[k] := List.getElem?_eq_getElem hk
    have hmem : s.func.insns[k] ∈ s.func.insns := List.getElem_mem hk
    obtain ⟨insn0, h0⟩ := Option.isSome_iff_exists.mp (hwf.alloc _ hmem).2
    rw [hcopy k _ insn0 hko h0] at hinsn
    cases hinsn
    simp only [List.getElem?_map] at hop
    cases hop0 : insn0.ops[n]? with
    | none => rw [hop0] at hop; cases hop
    | some op0 =>
      rw [hop0] at hop
      simp only [Option.map_some, Option.some.injEq] at hop
      cases op0 with
      | lab p0 =>
        simp only [remapOp, Op.lab.injEq] at hop
        subst hop
        exact hptr p0 (hwf.ops _ hmem insn0 h0 n p0 hop0).2
      | reg _ => cases hop
      | mem _ _ _ _ => cases hop
      | other _ => cases hop
  · intro r hr
    rw [hfunc] at hr
    obtain ⟨r0, hr0, rfl⟩ := List.mem_map.mp hr
    obtain ⟨h1, h2, _, _⟩ := hwf.lrefs r0 hr0
    refine ⟨hptr _ h1, ?_⟩
    rcases h2 with h2 | h2
    · left; simp [remapLref, remapPtr, h2]
    · right; exact hptr _ h2

/-- **dup_iso**: the working copy prints like the original (instructions, vars, lref items). -/
theorem dup_iso (s : State) (hwf : WF s) : print (duplicate s) = print s := by
  obtain ⟨_, hfunc, _, hcopy⟩ := dup_spec s hwf
  obtain ⟨tv, td, tn, tr, _⟩ := dup_tables s hwf
  obtain ⟨hln, hlr⟩ := lookups_of_tables td tn tr
  have hins : (duplicate s).func.insns = List.range' s.next s.func.insns.length := by rw [hfunc]
  have hlrefs : (duplicate s).func.lrefs = s.func.lrefs.map (remapLref s.func.insns s.next) := by
    rw [hfunc]
  simp only [print, Printed.mk.injEq]
  refine ⟨?_, ?_, ?_⟩
  · rw [tv]
    apply List.map_congr_left
    intro v _
    simp [printVar, hln]
  · rw [hins]
    apply List.ext_getElem?
    intro k
    simp only [List.getElem?_map]
    by_cases hk : k < s.func.insns.length
    · rw [List.getElem?_range' hk, List.getElem?_eq_getElem hk]
      simp only [Option.map_some, Nat.one_mul]
      have hmem : s.func.insns[k] ∈ s.func.insns := List.getElem_mem hk
      obtain ⟨insn0, h0⟩ := Option.isSome_iff_exists.mp (hwf.alloc _ hmem).2
      rw [hcopy k _ insn0 (List.getElem?_eq_getElem hk) h0, h0]
      simp only
      congr 1
      unfold printInsn
      simp only
      by_cases hl : insn0.kind = .label
      · rw [if_pos hl, if_pos hl]
        have hno : ∀ (n : Nat) (p : Option Nat), insn0.ops[n]? ≠ some (Op.lab p) :=
          no_lab_of_not_branchLike (hwf.ops _ hmem insn0 h0)
            (by rw [branchLike_label_false hl]; simp)
        simp [labelNum, map_remapOp_nolab hno]
      · rw [if_neg hl, if_neg hl]
        congr 1
        apply List.ext_getElem?
        intro n
        simp only [List.getElem?_map]
        cases hop : insn0.ops[n]? with
        | none => rfl
        | some op =>
          simp only [Option.map_some]
          congr 1
          cases op with
          | lab p =>
            simp only [remapOp, printOp]
            exact printLabelRef_remap s hwf p (hwf.ops _ hmem insn0 h0 n p hop).2
          | reg r => simp [remapOp, printOp, regName, hlr]
          | mem ty b i rest => simp [remapOp, printOp, regName, hlr]
          | other t => rfl
    · have hk' : s.func.insns.length ≤ k := Nat.le_of_not_lt hk
      rw [List.getElem?_eq_none (by simpa using hk'), List.getElem?_eq_none hk']
      rfl
  · rw [hlrefs]
    simp only [List.map_map]
    apply List.map_congr_left
    intro r hr
    obtain ⟨h1, h2, _, _⟩ := hwf.lrefs r hr
    simp only [Function.comp, remapLref]
    rw [printLabelRef_remap s hwf _ h1]
    rcases h2 with h2 | h2
    · simp [h2, remapPtr]
    · rw [printLabelRef_remap s hwf _ h2]
      obtain ⟨t, ht, _⟩ := h2
      simp [ht, remapPtr]

/-! ### duplicate ; edits ; restore -/

/-- **restore_identity**: for every well-formed function and every sequence of generator edits
confined to the working copy, `_MIR_restore_func_insns` after `_MIR_duplicate_func_insns` gives
back the same instruction list (same pointers, same contents), the same lrefs, the same `vars`
and register tables — so `MIR_output_item` prints the same text and `MIR_reg`/`MIR_reg_name`
answer as before. -/
theorem restore_identity (s : State) (es : List Edit) (hwf : WF s)
    (hleg : ∀ e ∈ es, e.legal s.next) :
    let s3 := restore (mutateCopy (duplicate s) es)
    print s3 = print s ∧
    s3.func.insns = s.func.insns ∧ s3.func.originalInsns = [] ∧
    s3.func.lrefs = s.func.lrefs ∧ s3.func.vars = s.func.vars ∧
    s3.func.name2rdn = s.func.name2rdn ∧ s3.func.reg2rdn = s.func.reg2rdn ∧
    (∀ n, lookupName s3.func n = lookupName s.func n) ∧
    (∀ r, lookupReg s3.func r = lookupReg s.func r) ∧
    (∀ i, i < s.next → s3.heap i = s.heap i) := by
  intro s3
  obtain ⟨hheap, _, extra, ltn, hfunc⟩ := restore_core s es hwf hleg
  have hf : s3.func = { s.func with originalVarsNum := s.func.vars.length,
                                    regDescs := s.func.regDescs ++ extra, lastTempNum := ltn } :=
    hfunc
  have hag := lookup_agree (b := s.func) (g := s3.func) (extra := extra)
    (by rw [hf]) (by rw [hf]) (by rw [hf]) hwf.tabs
  have horig : s3.func.originalInsns = [] := by rw [hf]; exact hwf.orig
  refine ⟨?_, by rw [hf], horig, by rw [hf], by rw [hf], by rw [hf], by rw [hf],
    hag.2.2.1, hag.2.2.2, hheap⟩
  -- the print
  have hlt : ∀ t ∈ s.func.insns, s3.heap t = s.heap t :=
    fun t ht => hheap t (hwf.alloc t ht).1
  simp only [print, Printed.mk.injEq]
  refine ⟨?_, ?_, ?_⟩
  · rw [show s3.func.vars = s.func.vars by rw [hf]]
    apply List.map_congr_left
    intro v _
    simp [printVar, hag.2.2.1]
  · rw [show s3.func.insns = s.func.insns by rw [hf]]
    apply List.map_congr_left
    intro i hi
    rw [hlt i hi]
    cases h0 : s.heap i with
    | none => rfl
    | some insn =>
      simp only
      unfold printInsn
      split
      · rfl
      · congr 1
        apply List.map_congr_left
        intro op hop
        apply printOp_agree op _ hag.2.2.2
        intro t ht
        subst ht
        obtain ⟨n, hn⟩ := List.mem_iff_getElem?.mp hop
        obtain ⟨_, t', ht', hmem, _⟩ := hwf.ops i hi insn h0 n (some t) hn
        cases ht'
        exact hlt t hmem
  · rw [show s3.func.lrefs = s.func.lrefs by rw [hf]]
    apply List.map_congr_left
    intro r hr
    obtain ⟨⟨t, ht, hmem, _⟩, h2, _, _⟩ := hwf.lrefs r hr
    rw [printLabelRef_agree r.label (fun t' ht' => hlt t' (by
      have e := ht.symm.trans ht'; cases e; exact hmem))]
    rcases h2 with h2 | ⟨t2, ht2, hmem2, _⟩
    · simp [h2]
    · rw [printLabelRef_agree r.label2 (fun t' ht' => hlt t' (by
        have e := ht2.symm.trans ht'; cases e; exact hmem2))]

/-- **restore_wf**: after duplicate; legal edits; restore the function is well-formed again, so a
further duplicate/restore cycle is covered by the same theorems. -/
theorem restore_wf (s : State) (es : List Edit) (hwf : WF s)
    (hleg : ∀ e ∈ es, e.legal s.next) : WF (restore (mutateCopy (duplicate s) es)) := by
  obtain ⟨hheap, hnext, extra, ltn, hfunc⟩ := restore_core s es hwf hleg
  have hins : (restore (mutateCopy (duplicate s) es)).func.insns = s.func.insns := by rw [hfunc]
  have hlt : ∀ t ∈ s.func.insns, (restore (mutateCopy (duplicate s) es)).heap t = s.heap t :=
    fun t ht => hheap t (hwf.alloc t ht).1
  have hlab : ∀ t ∈ s.func.insns, isLabelAt s.heap t →
      isLabelAt (restore (mutateCopy (duplicate s) es)).heap t := by
    intro t ht ⟨insn, h1, h2⟩
    exact ⟨insn, by rw [hlt t ht]; exact h1, h2⟩
  have hptr : ∀ p, PtrOK s.heap s.func.insns p →
      PtrOK (restore (mutateCopy (duplicate s) es)).heap
        (restore (mutateCopy (duplicate s) es)).func.insns p := by
    rintro p ⟨t, rfl, ht, hl⟩
    exact ⟨t, rfl, by rw [hins]; exact ht, hlab t ht hl⟩
  have hget : ∀ r, r < s.func.regDescs.length →
      (s.func.regDescs ++ extra)[r]? = s.func.regDescs[r]? :=
    fun r hr => List.getElem?_append_left hr
  constructor
  · rw [hins]; exact hwf.nodup
  · intro i hi
    rw [hins] at hi
    have := hwf.alloc i hi
    rw [hlt i hi]
    exact ⟨by omega, this.2⟩
  · intro i hi insn h0 hk
    rw [hins] at hi
    rw [hlt i hi] at h0
    exact hwf.labData i hi insn h0 hk
  · intro i hi insn h0 n p hop
    rw [hins] at hi
    rw [hlt i hi] at h0
    obtain ⟨h1, h2⟩ := hwf.ops i hi insn h0 n p hop
    exact ⟨h1, hptr p h2⟩
  · intro r hr
    rw [hfunc] at hr
    obtain ⟨h1, h2, h3, h4⟩ := hwf.lrefs r hr
    exact ⟨hptr _ h1, h2.imp id (hptr _), h3, h4⟩
  · rw [hfunc]; exact hwf.orig
  · have hrd : (restore (mutateCopy (duplicate s) es)).func.regDescs = s.func.regDescs ++ extra := by
      rw [hfunc]
    have hn2 : (restore (mutateCopy (duplicate s) es)).func.name2rdn = s.func.name2rdn := by
      rw [hfunc]
    have hr2 : (restore (mutateCopy (duplicate s) es)).func.reg2rdn = s.func.reg2rdn := by
      rw [hfunc]
    constructor
    · intro r hr
      rw [hn2] at hr
      have := hwf.tabs.n2rLt r hr
      rw [hrd, List.length_append]; omega
    · intro r hr
      rw [hr2] at hr
      have := hwf.tabs.r2rLt r hr
      rw [hrd, List.length_append]; omega
    · rw [hn2]
      have : List.map (rdNameAt (restore (mutateCopy (duplicate s) es)).func) s.func.name2rdn =
          List.map (rdNameAt s.func) s.func.name2rdn := by
        apply List.map_congr_left
        intro r hr
        simp only [rdNameAt]
        rw [hrd, hget r (hwf.tabs.n2rLt r hr)]
      rw [this]; exact hwf.tabs.namesNodup
    · rw [hr2]
      have : List.map (rdRegAt (restore (mutateCopy (duplicate s) es)).func) s.func.reg2rdn =
          List.map (rdRegAt s.func) s.func.reg2rdn := by
        apply List.map_congr_left
        intro r hr
        simp only [rdRegAt]
        rw [hrd, hget r (hwf.tabs.r2rLt r hr)]
      rw [this]; exact hwf.tabs.regsNodup
  · intro r hr d hd
    have hrd : (restore (mutateCopy (duplicate s) es)).func.regDescs = s.func.regDescs ++ extra := by
      rw [hfunc]
    have hr2 : (restore (mutateCopy (duplicate s) es)).func.reg2rdn = s.func.reg2rdn := by
      rw [hfunc]
    have hv : (restore (mutateCopy (duplicate s) es)).func.vars = s.func.vars := by rw [hfunc]
    have hg : (restore (mutateCopy (duplicate s) es)).func.nglobals = s.func.nglobals := by
      rw [hfunc]
    rw [hr2] at hr
    rw [hrd, hget r (hwf.tabs.r2rLt r hr)] at hd
    rw [hv, hg]
    exact hwf.regsLe r hr d hd

/-- **wf_of_check**: the executable test `wfCheck`, which the driver evaluates on the description of
every real function taken through the structural tie, implies the hypothesis `WF` of the theorems
above (so the run measures on which real inputs they apply). -/
theorem wf_of_check (s : State) (h : wfCheck s = true) : WF s := wfCheck_sound s h

/-! ### `MIR_gen` called repeatedly -/

/-- **gen_idempotent_addr**: when `func->machine_code != NULL`, `MIR_gen` returns `item->addr`,
does not duplicate/regenerate (the program state, `machine_code`, `call_addr` and the number of
published code blocks are unchanged) and only re-points the thunk at `call_addr`. -/
theorem gen_idempotent_addr (it : Item) (a : Nat) (h : it.machineCode = some a)
    (edits : List Edit) (code : Nat) :
    gen it edits code = ({ it with thunkTarget := it.callAddr }, it.addr) := by
  unfold gen
  rw [h]

/-- **gen_history**: any history of `MIR_gen` calls on one function (whatever the optimizer does to
the working copy, as long as it stays inside it): every call returns the same address
`item->addr`; machine code is published exactly once (by the first call) and `machine_code` keeps
the address published then; the function prints the same as before the first call. -/
theorem gen_history (it : Item) (hwf : WF it.st) (hmc : it.machineCode = none) :
    ∀ (calls : List (List Edit × Nat)), calls ≠ [] →
      (∀ c ∈ calls, ∀ e ∈ c.1, e.legal it.st.next) →
      (∀ r ∈ (genMany it calls).2, r = it.addr) ∧
      (genMany it calls).1.published = it.published + 1 ∧
      (genMany it calls).1.machineCode = calls.head?.map (·.2) ∧
      (genMany it calls).1.addr = it.addr ∧
      print (genMany it calls).1.st = print it.st := by
  -- once generated, further calls change nothing but (idempotently) the thunk
  have hrest : ∀ (calls : List (List Edit × Nat)) (j : Item), j.machineCode.isSome →
      (∀ r ∈ (genMany j calls).2, r = j.addr) ∧
      (genMany j calls).1.published = j.published ∧
      (genMany j calls).1.machineCode = j.machineCode ∧
      (genMany j calls).1.addr = j.addr ∧ (genMany j calls).1.st = j.st := by
    intro calls
    induction calls with
    | nil => intro j _; simp [genMany]
    | cons c rest ih =>
      intro j hj
      obtain ⟨a, ha⟩ := Option.isSome_iff_exists.mp hj
      obtain ⟨es, code⟩ := c
      simp only [genMany]
      rw [gen_idempotent_addr j a ha]
      obtain ⟨i1, i2, i3, i4, i5⟩ := ih { j with thunkTarget := j.callAddr } hj
      exact ⟨by
        intro r hr
        rcases List.mem_cons.mp hr with rfl | hr
        · rfl
        · exact i1 r hr, i2, i3, i4, i5⟩
  intro calls hne hleg
  cases calls with
  | nil => exact absurd rfl hne
  | cons c rest =>
    obtain ⟨es, code⟩ := c
    simp only [genMany]
    have hfirst : gen it es code =
        ({ st := restore (mutateCopy (duplicate it.st) es), addr := it.addr,
           machineCode := some code, callAddr := some code, thunkTarget := some code,
           published := it.published + 1 }, it.addr) := by
      unfold gen; rw [hmc]
    rw [hfirst]
    obtain ⟨i1, i2, i3, i4, i5⟩ := hrest rest
      { st := restore (mutateCopy (duplicate it.st) es), addr := it.addr,
        machineCode := some code, callAddr := some code, thunkTarget := some code,
        published := it.published + 1 } rfl
    refine ⟨?_, i2, by simpa using i3, i4, ?_⟩
    · intro r hr
      rcases List.mem_cons.mp hr with rfl | hr
      · rfl
      · exact i1 r hr
    · rw [i5]
      exact (restore_identity it.st es hwf (hleg (es, code) (by simp))).1

/-! ### non-vacuity: a concrete function with a loop, a switch and an lref -/

namespace Example

/-- `L1: add r1 ; bt L1, r1 ; switch r1, L1, L2 ; L2: ret` with `a:i64` and one lref to `L2 - L1` -/
def heap0 : Heap := ⟨fun i =>
  match i with
  | 0 => some ⟨.label, "label", [.other "1"], none⟩
  | 1 => some ⟨.other, "add", [.reg 1, .reg 1, .other "1"], none⟩
  | 2 => some ⟨.branch, "bt", [.lab (some 0), .reg 1], none⟩
  | 3 => some ⟨.switch, "switch", [.reg 1, .lab (some 0), .lab (some 4)], none⟩
  | 4 => some ⟨.label, "label", [.other "2"], none⟩
  | 5 => some ⟨.other, "ret", [.reg 1], none⟩
  | _ => none⟩

def func0 : Func :=
  { insns := [0, 1, 2, 3, 4, 5], originalInsns := [], vars := [⟨"i64", "a"⟩], originalVarsNum := 0,
    nglobals := 0, regDescs := [⟨"i64", 0, "", ""⟩, ⟨"i64", 1, "a", ""⟩], name2rdn := [1],
    reg2rdn := [1], lastTempNum := 0, lrefs := [⟨some 4, some 0, none, none⟩] }

def s0 : State := { heap := heap0, next := 6, func := func0 }

/-- what the optimizer might do: a new temp, a new instruction using it, a relinked list without
the old `add`, the copy of `bt` rewritten, a freed instruction -/
def edits0 : List Edit :=
  [.newTemp "i64", .setInsn 12 ⟨.other, "mov", [.reg 2, .reg 1], some 6⟩,
   .setList [6, 12, 8, 9, 10, 11], .setInsn 8 ⟨.branch, "bf", [.lab (some 10), .reg 2], none⟩,
   .free 7, .setLref 0 (some 10) none]

theorem label0 : isLabelAt heap0 0 := ⟨_, rfl, rfl⟩
theorem label4 : isLabelAt heap0 4 := ⟨_, rfl, rfl⟩

theorem wf0 : WF s0 := by
  constructor
  · decide
  · intro i hi
    simp [s0, func0] at hi
    rcases hi with rfl | rfl | rfl | rfl | rfl | rfl <;> simp [s0, heap0]
  · intro i hi insn h0 hk
    simp [s0, func0] at hi
    rcases hi with rfl | rfl | rfl | rfl | rfl | rfl <;> simp [s0, heap0] at h0 <;> subst h0 <;>
      first | rfl | cases hk
  · intro i hi insn h0 n p hop
    simp [s0, func0] at hi
    rcases hi with rfl | rfl | rfl | rfl | rfl | rfl <;> simp [s0, heap0] at h0 <;> subst h0
    all_goals (rcases n with _ | _ | _ | n <;> simp at hop)
    all_goals
      (subst hop
       refine ⟨⟨rfl, by decide, by decide, by decide⟩, _, rfl, by simp [s0, func0], ?_⟩
       first | exact label0 | exact label4)
  · intro r hr
    simp [s0, func0] at hr
    subst hr
    exact ⟨⟨4, rfl, by simp [s0, func0], label4⟩, Or.inr ⟨0, rfl, by simp [s0, func0], label0⟩,
      rfl, rfl⟩
  · rfl
  · constructor
    · intro r hr; simp [s0, func0] at hr; subst hr; simp [s0, func0]
    · intro r hr; simp [s0, func0] at hr; subst hr; simp [s0, func0]
    · simp [s0, func0, rdNameAt]
    · simp [s0, func0, rdRegAt]
  · intro r hr d hd
    simp [s0, func0] at hr
    subst hr
    simp [s0, func0] at hd
    subst hd
    simp [s0, func0]

theorem legal0 : ∀ e ∈ edits0, e.legal s0.next := by
  intro e he
  simp [edits0] at he
  rcases he with rfl | rfl | rfl | rfl | rfl | rfl <;> simp [Edit.legal, s0]

/-- the hypotheses of `dup_closed`, `dup_iso`, `restore_identity`, `restore_wf` are satisfiable -/
example : print (restore (mutateCopy (duplicate s0) edits0)) = print s0 :=
  (restore_identity s0 edits0 wf0 legal0).1

example : print (duplicate s0) = print s0 := dup_iso s0 wf0

example : ∀ i ∈ (duplicate s0).func.insns, 6 ≤ i := (dup_closed s0 wf0).2.1

/-- … and of `gen_history`: three `MIR_gen` calls on the example function -/
def item0 : Item :=
  { st := s0, addr := 1000, machineCode := none, callAddr := none, thunkTarget := none,
    published := 0 }

example : (genMany item0 [(edits0, 5000), ([], 6000), (edits0, 7000)]).1.machineCode = some 5000 :=
  (gen_history item0 wf0 rfl _ (by simp) (by
    intro c hc e he
    simp at hc
    rcases hc with rfl | rfl | rfl
    · exact legal0 e he
    · cases he
    · exact legal0 e he)).2.2.1

example : wfCheck s0 = true := by decide

/-- the edits really change the working copy (the example is not trivially the identity) -/
example : (mutateCopy (duplicate s0) edits0).func.insns = [6, 12, 8, 9, 10, 11] := rfl

end Example

end MirVerif.DupRestore
