/-! Property theorems for C16 (none yet). -/
