/-! Property theorems for C10 (none yet). -/
