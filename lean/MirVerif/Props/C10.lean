import MirVerif.Lemmas.TextIONormPrint
/-!
# Property C10 — textual MIR written by `MIR_output` reads back as the same module

Model: `printText` (transcription of `MIR_output_op/_insn/_item/_module`, mir.c:2899-3185) and
`scanText = finishScan ∘ elabStmts ∘ parseStmts ∘ lexAll` (transcription of `scan_token`,
`scan_number`, `scan_string`, `MIR_scan_string`, mir.c:5944-6800, with the API effects the scanner
triggers).  Both are tied to the C code on every run by `checks/c10.py` (byte-wise agreement of the
writer, verdict-and-rewrite agreement of the scanner, on generated modules, free-form spellings,
mutated texts and the run-time corpus).

Main theorem `text_roundtrip`: for every list of modules satisfying the explicit decidable predicate
`WF`, scanning the written text succeeds, yields the normal form `normText ms`, and that normal form
is written as the very same text.  Every conjunct of `WF` that the proof needed is probed on the real
code at the excluded point by the check (see `wfReport`); those where the real code really fails
are the findings #4, #5, ref-shadowed-by-reg and bss-ge-2^63 (#3, #32, #34, label-before-endfunc and
stale-insn-code were fixed in /repo and the model follows the fixed code).

What is *not* proved: nothing about the C library's `printf`/`strtod` beyond the per-literal
condition `floatRT` inside `WF`; API-level validation (operand modes etc.) is outside the model.
-/
namespace TextIO

/-! ## strings (`MIR_output_str` / `scan_string`) -/

/-- For **every** byte string `s`, the scanner reads the written literal back as one string token
holding `forceNul s`: `s` itself when `s` is empty or ends in NUL, otherwise `s` with a NUL appended
(mir.c:6087-6088).  No condition on what follows the literal. -/
theorem str_roundtrip (s : Str) (hs : ∀ c ∈ s, c.toNat < 256) (rest : List Char) :
    lexOne (printStr s ++ rest) = .ok (.str (forceNul s), rest) :=
  lexOne_printStr s hs rest

/-- the NUL-termination condition is exactly what makes the string survive unchanged -/
theorem str_roundtrip_exact (s : Str) : forceNul s = s ↔ (s = [] ∨ s.getLast? = some nulChar) := by
  unfold forceNul
  constructor
  · intro h
    by_cases hc : s ≠ [] ∧ s.getLast? ≠ some nulChar
    · rw [if_pos hc] at h
      have := congrArg List.length h
      simp at this
    · by_cases he : s = []
      · exact Or.inl he
      · exact Or.inr (by
          by_cases hl : s.getLast? = some nulChar
          · exact hl
          · exact absurd ⟨he, hl⟩ hc)
  · intro h
    rw [if_neg]
    rintro ⟨h1, h2⟩
    rcases h with h | h
    · exact h1 h
    · exact h2 h

/-- finding #5 as a theorem about the model: a string not ending in NUL comes back longer -/
example : forceNul ['a'] = ['a', nulChar] := by decide
example : ∀ c ∈ (['a', 'b', nulChar] : Str), c.toNat < 256 := by decide

/-! ## integers -/

/-- every 64-bit value written with `%PRId64` (including `INT64_MIN`, which goes through the
wrap-around of `strtoul` on a minus sign) is read back as the same 64 bits -/
theorem int_roundtrip (v : BitVec 64) (d : Char) (rest : List Char) (hd : isDelim d = true) :
    lexOne (printI64 v ++ d :: rest) = .ok (.int v, d :: rest) :=
  wordOK_i64 v d rest hd

/-- a `uint` written with `%PRIu64` is read back with the same bits — but as an `int` token -/
theorem uint_roundtrip_bits (v : BitVec 64) (d : Char) (rest : List Char) (hd : isDelim d = true) :
    lexOne (printU64 v ++ d :: rest) = .ok (.int v, d :: rest) :=
  wordOK_u64 v d rest hd

/-- … so the text is stable exactly below 2^63 (finding #4) -/
theorem uint_text_stable_iff (v : BitVec 64) : printI64 v = printU64 v ↔ v.toNat < 2 ^ 63 := by
  unfold printI64 printU64
  constructor
  · intro h
    by_cases hv : v.toNat < 2 ^ 63
    · exact hv
    · rw [if_neg hv] at h
      obtain ⟨c, t, hc, _, hd⟩ := natDec_head v.toNat
      rw [hc] at h
      simp only [List.cons.injEq] at h
      have := isDigit_iff.mp hd
      rw [← h.1] at this
      simp at this
  · intro h; rw [if_pos h]

example : isDelim ',' = true := by decide

/-! ## names -/

theorem name_roundtrip (n : Str) (h : nameOK n = true) (d : Char) (rest : List Char) (hd : isDelim d = true) :
    lexOne (n ++ d :: rest) = .ok (.name n, d :: rest) :=
  wordOK_name h d rest hd

example : nameOK ['.', 'l', 'c', '1'] = true ∧ nameOK ['a', '$', '%'] = true ∧ nameOK ['1', 'a'] = false := by decide

/-! ## operands and instructions (lexer + statement parser) -/

/-- an operand: the written bytes lex to the token image, which parses to the raw operand -/
theorem operand_roundtrip (o : Op) (h : lexOp o = true) (c : Nat) :
    lexAll (flatten (ltOp o ++ [tNl])) = .ok (toks (ltOp o) ++ [.nl]) ∧
    parseOperand (.insn c) (toks (ltOp o) ++ [.nl]) = .ok (some (ropOfOp o), [.nl]) := by
  constructor
  · have hv : AllValid (ltOp o ++ [tNl]) := AllValid.append (allValid_ltOp h) (AllValid.cons valid_tNl AllValid.nil)
    have hok : okLT (ltOp o ++ [tNl]) = true := (OkD.appendC (okD_ltOp o) (by simp [tNl, LT.isDelimStart, isDelim]) (OkC.p _ _)).okLT
    simpa [tNl, LT.toks] using lexAll_flatten _ hv hok
  · exact parseOperand_op (plain_heads.2.2.2.2.2.2.2.2 c) o (Or.inr rfl) []

/-- an instruction line: bytes → tokens → one raw statement -/
theorem insn_roundtrip (c : Nat) (ops : List Op) (hc : codeOK c = true) (hops : ops.all lexOp = true) :
    lexAll (printFItem (.insn c ops)) = .ok (toks (ltFItem (.insn c ops))) ∧
    parseStmts (toks (ltFItem (.insn c ops))) = .ok [⟨[], .insn c, ops.map ropOfOp, false⟩] := by
  have hcc := hc
  simp only [codeOK, Bool.and_eq_true, decide_eq_true_eq] at hcc
  constructor
  · apply lexAll_flatten
    · exact allValid_ltFItem (by simp [lexFItem, hcc.1.1.1.1.1, hcc.2, hops])
    · exact (okC_ltFItem _).okLT
  · have hall : All2 (ParsesTo (.insn c)) (ops.map fun o => toks (ltOp o)) (ops.map ropOfOp) :=
      All2.map _ _ ops (fun o _ t rest ht => parseOperand_op (plain_heads.2.2.2.2.2.2.2.2 c) o ht rest)
    have := line_of (labels := []) true (classify_insn hc 0) hall (Or.inl rfl)
    have h2 := this []
    simpa [bodyLabelToks, ltFItem, ltName, tTab, tNl, LT.toks, toks_ltOps, parseStmts_nil, Except.map] using h2

/-! ## whole texts -/

/-- **C10** — for well-formed modules the scanner accepts the written text, rebuilds the normal form,
and the normal form is written as the same bytes -/
theorem text_roundtrip (ms : List Module) (h : WF ms = true) :
    scanText (printText ms) = .ok (normText ms) ∧ printText (normText ms) = printText ms := by
  have hlp := lex_p_modules ms 0 insnTable.length h
  obtain ⟨st, h1, h2⟩ := elab_text ms h
  constructor
  · simp only [scanText, lexAll_printText ms hlp.1, parseStmts_text ms hlp.2, h1, h2]
  · simp only [printText, normText, ltText_norm ms 0 insnTable.length h]

/-- the statement of the property in the words of `properties.jsonl`: the re-read module prints to
identical text again -/
theorem text_roundtrip_fixpoint (ms : List Module) (h : WF ms = true) :
    ∃ ms', scanText (printText ms) = .ok ms' ∧ printText ms' = printText ms :=
  ⟨normText ms, (text_roundtrip ms h).1, (text_roundtrip ms h).2⟩

/-- the writer model is defined on every item kind, `expr` included (the C writer is too since fix ed61a8c4) -/
theorem writer_total_expr (name : Option Str) (fn : Str) :
    printItem (.expr name fn) = flatten (ltNameColon name) ++ '\t' :: kwExpr ++ '\t' :: fn ++ ['\n'] := by
  simp [printItem, ltItem, flatten, LT.chars, ltName, tTab, tNl]

/-! ## the hypothesis is satisfiable: a module with arguments (one block parameter), locals, a global
tied to a hard register, labels, every operand form, data/bss/ref/lref/proto/import/export items -/

def exFunc : Func :=
  { name := ['f'], res := [.i64], args := [⟨.i64, ['a'], 0⟩, ⟨.blk1, ['b'], 16⟩], vararg := false,
    locals := [(.i64, ['x']), (.d, ['y'])], globals := [(.i64, ['g'], ['r', '1', '2'])],
    body := [.insn 0 [.reg ['x'], .uint 7],
             .label 1,
             .insn 0 [.reg ['x'], .mem ⟨.i32, 8, some ['a'], some ['x'], 4, some ['a', 'l'], none⟩],
             .insn 2 [.reg ['y'], .dbl 0x3FF8000000000000],
             .insn 128 [.label 2, .reg ['x'], .int 0],
             .insn 118 [.label 1],
             .label 2,
             .insn 0 [.reg ['x'], .ref ['d', '1']],
             .insn 0 [.reg ['x'], .str ['h', 'i', Char.ofNat 0]],
             .insn 171 [.reg ['x']]] }

/-- ends in a label and has a block parameter of 2^40 bytes: both were unreadable before the fixes -/
def exFunc2 : Func :=
  { name := ['g'], res := [], args := [⟨.blk0, ['b'], 2 ^ 40⟩], vararg := false, locals := [], globals := [],
    body := [.label 3, .insn 118 [.label 3], .insn 171 [], .label 4] }

/-- ends in `jmp` (no `ret`): a `ref`/`expr` line after it used to be misread (stale `insn_code`) -/
def exFunc4 : Func :=
  { name := ['k'], res := [], args := [], vararg := false, locals := [], globals := [],
    body := [.label 5, .insn 118 [.label 5]] }

def exFunc3 : Func :=
  { name := ['h'], res := [.i64], args := [], vararg := false, locals := [], globals := [],
    body := [.insn 171 [.int 5]] }

def exMod : Module :=
  { name := ['m'],
    items := [.import ['p', 'r'], .bss (some ['d', '1']) 16, .data none .u8 [104, 0], .data (some ['e']) .d [0x3FF8000000000000],
      .data (some ['q']) .p [0x1234, 0],
      .proto ['p'] [.i64] [⟨.p, ['q'], 0⟩] true, .func exFunc, .export ['f'], .ref (some ['r']) ['d', '1'] 8,
      .lref none 1 (some 2) 4, .func exFunc2, .func exFunc3, .func exFunc4, .ref none ['d', '1'] 0, .expr none ['h']] }

set_option maxRecDepth 100000 in
example : WF [exMod] = true := by decide +kernel

set_option maxRecDepth 100000 in
example : ∃ ms', scanText (printText [exMod]) = .ok ms' ∧ printText ms' = printText [exMod] :=
  text_roundtrip_fixpoint [exMod] (by decide +kernel)

/-- the excluded points are really excluded: e.g. a `uint` ≥ 2^63 (finding #4) fails `WF` -/
example : opOK [['x']] [] 0 1 (.uint (BitVec.ofNat 64 (2 ^ 63))) = false := by decide
/-- … and an item reference with the name of a register of the function (finding ref-shadowed-by-reg) -/
example : opOK [['x']] [⟨['x'], .bss, false⟩] 0 1 (.ref ['x']) = false := by decide

end TextIO
