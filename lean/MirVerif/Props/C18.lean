/-! Property theorems for C18 (none yet). -/
