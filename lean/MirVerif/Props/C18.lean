import MirVerif.Lemmas.Footprint
import MirVerif.Model.FootprintAllowed
import MirVerif.Model.FootprintPages
import MirVerif.Model.FootprintHandover
import MirVerif.Gen.C18_Inventory
/-!
# C18 — independent contexts can be used from different threads without interference

Model: `MirVerif/Model/Footprint.lean`.  The tie to the code is the regenerated inventory
`MirVerif.Gen.C18` (every non-const object with static storage duration of the library translation
units with its write sites, from clang's AST) plus its dynamic validation by `harness/c18_threads.c`
under ThreadSanitizer (checks/c18.py).

The *ideal* per-run obligation is `no_shared_writes : MirVerif.Gen.C18.sharedWrites = []`.

It is still FALSE on the current tree: mir2c keeps `curr_func`/`curr_temp` (mir2c/mir2c.c) in
file-scope statics.  (`addr_offset8/16/32`, `patterns[i].max_insn_size` and c2mir's lazily laid out
`VOID_TYPE` were further exceptions until they were repaired in /repo; they are no longer allowed.)
Its negation is not stated
as a theorem because it has to become false again as soon as the objects are repaired; instead
`inventory_sites_allowed` pins the *exact* exception list (`Footprint.knownFindings`, each a known
finding reported by the check on every run while it is present), and the property theorem is proved
in the `_partial` form with the explicit extra hypothesis `AvoidsFindings`.
-/
namespace MirVerif.C18
open MirVerif.Footprint

/-! ## 1. Abstract theorems (all operations, all traces) -/

/-- Two operations with disjoint footprints (no write/write, no read/write overlap) commute: same
final memory in both orders and each returns what it returns when run first. -/
theorem commute (a b : Op) (ha : a.Respects) (hb : b.Respects) (hd : Disjoint a b) (m : Mem) :
    a.run (b.run m) = b.run (a.run m) ∧ a.res (b.run m) = a.res m ∧ b.res (a.run m) = b.res m := by
  have hab : ∀ l, a.reads l = true → b.run m l = m l := by
    intro l hl
    cases hw : b.writes l with
    | false => exact run_frame b m l hw
    | true => have := ((hd l).2 hw).1; simp [hl] at this
  have hba : ∀ l, b.reads l = true → a.run m l = m l := by
    intro l hl
    cases hw : a.writes l with
    | false => exact run_frame a m l hw
    | true => have := ((hd l).1 hw).1; simp [hl] at this
  have ra := ha (b.run m) m hab
  have rb := hb (a.run m) m hba
  refine ⟨?_, ra.1, rb.1⟩
  funext l
  cases hwa : a.writes l with
  | true =>
    have hwb : b.writes l = false := ((hd l).1 hwa).2
    rw [run_written a _ l hwa, run_frame b _ l hwb, run_written a _ l hwa]
    exact ra.2 l hwa
  | false =>
    rw [run_frame a _ l hwa]
    cases hwb : b.writes l with
    | true => rw [run_written b _ l hwb, run_written b _ l hwb]; exact (rb.2 l hwb).symm
    | false => rw [run_frame b _ l hwb, run_frame b _ l hwb, run_frame a _ l hwa]

/-- non-vacuity: two operations of different contexts that both read a shared object -/
def opA : Op := mkOp 1 [.ctx 0 0, .shared 3 0] [.ctx 0 1]
def opB : Op := mkOp 2 [.ctx 1 0, .shared 3 0] [.ctx 1 1]

example : opA.Respects ∧ opB.Respects ∧ Disjoint opA opB ∧ opA.run (fun _ => 1) (.ctx 0 1) ≠ 1 :=
  ⟨mkOp_respects 1 _ _ none, mkOp_respects 2 _ _ none,
   confined_disjoint (i := 0) (j := 1) (by decide) (mkOp_confined 0 1 _ _ none (by decide))
     (mkOp_confined 1 2 _ _ none (by decide)),
   by decide⟩

/-- Swapping two adjacent operations of different threads anywhere in a trace changes neither the
final memory nor what any thread observes (proved with `commute`): every interleaving is equivalent
to every other interleaving of the same per-thread programs. -/
theorem swap_adjacent (pre post : Trace) (i j : Nat) (a b : Op) (hij : i ≠ j)
    (ha : a.Respects ∧ a.Confined i) (hb : b.Respects ∧ b.Confined j) (m : Mem) :
    (exec (pre ++ (i, a) :: (j, b) :: post) m).1 = (exec (pre ++ (j, b) :: (i, a) :: post) m).1 ∧
    ∀ k, resultsOf k (exec (pre ++ (i, a) :: (j, b) :: post) m).2
       = resultsOf k (exec (pre ++ (j, b) :: (i, a) :: post) m).2 := by
  have hc := commute a b ha.1 hb.1 (confined_disjoint hij ha.2 hb.2) (exec pre m).1
  rw [exec_append, exec_append]
  simp only [exec]
  rw [hc.1, hc.2.1, hc.2.2]
  refine ⟨rfl, fun k => ?_⟩
  rw [resultsOf_append, resultsOf_append, resultsOf_swap k i j hij]

/-- **Interleaving irrelevance.**  If every operation respects its footprint and every operation of
thread `i` writes only locations of context `i` and reads only context `i` and shared locations (so
no operation writes a shared location), then for EVERY interleaving `tr` of the threads' programs,
every thread `i` and every initial memory: the final state projected on what `i` can see (its
context and the shared objects) and the sequence of results `i` obtained are those of the run in
which `i`'s operations (`own i tr`, its program) are executed alone. -/
theorem interleaving_irrelevant (tr : Trace) (h : ∀ e ∈ tr, e.2.Respects ∧ e.2.Confined e.1)
    (i : Nat) (m : Mem) :
    AgreeOn i (exec tr m).1 (exec (own i tr) m).1 ∧
    resultsOf i (exec tr m).2 = (exec (own i tr) m).2.map (·.2) := by
  have := exec_sim i tr h m m (agreeOn_refl i m)
  exact ⟨this.1, by rw [this.2, resultsOf_own]⟩

/-- under the same hypotheses the shared objects keep their initial contents -/
theorem shared_never_written (tr : Trace) (h : ∀ e ∈ tr, e.2.Confined e.1) (m : Mem) (o a : Nat) :
    (exec tr m).1 (.shared o a) = m (.shared o a) :=
  exec_shared_unchanged tr h m _ rfl

/-- non-vacuity: a concrete two-thread, four-operation interleaving satisfying the hypotheses in
which both threads really compute (results depend on what they read and wrote) -/
def demoTrace : Trace :=
  [(0, mkOp 1 [.ctx 0 0, .shared 3 0] [.ctx 0 1]), (1, mkOp 2 [.ctx 1 0, .shared 3 0] [.ctx 1 0, .ctx 1 1]),
   (0, mkOp 3 [.ctx 0 1] [.ctx 0 0]), (1, mkOp 4 [.ctx 1 1, .shared 5 2] [.ctx 1 2])]

example : (∀ e ∈ demoTrace, e.2.Respects ∧ e.2.Confined e.1) ∧
    (exec demoTrace (fun _ => 1)).1 (.ctx 1 2) ≠ 1 ∧ own 1 demoTrace ≠ demoTrace := by
  refine ⟨?_, by decide, by simp [demoTrace, own]⟩
  intro e he
  simp only [demoTrace, List.mem_cons, List.mem_nil_iff, or_false] at he
  rcases he with rfl | rfl | rfl | rfl
  · exact ⟨mkOp_respects 1 _ _ none, mkOp_confined 0 1 _ _ none (by decide)⟩
  · exact ⟨mkOp_respects 2 _ _ none, mkOp_confined 1 2 _ _ none (by decide)⟩
  · exact ⟨mkOp_respects 3 _ _ none, mkOp_confined 0 3 _ _ none (by decide)⟩
  · exact ⟨mkOp_respects 4 _ _ none, mkOp_confined 1 4 _ _ none (by decide)⟩

/-- The hypothesis cannot be dropped: one write to a shared location that another thread reads makes
the outcome depend on the interleaving (thread 1 observes a different result when thread 0's
operation is scheduled before it). -/
theorem shared_write_interferes :
    ∃ (tr : Trace) (m : Mem), (∀ e ∈ tr, e.2.Respects) ∧
      resultsOf 1 (exec tr m).2 ≠ (exec (own 1 tr) m).2.map (·.2) := by
  refine ⟨[(0, mkOp 1 [] [.shared 0 0] (some 7)), (1, mkOp 2 [.shared 0 0] [.ctx 1 0])], fun _ => 0,
    ?_, by decide⟩
  intro e he
  simp only [List.mem_cons, List.mem_nil_iff, or_false] at he
  rcases he with rfl | rfl
  · exact mkOp_respects 1 _ _ (some 7)
  · exact mkOp_respects 2 _ _ none

/-! ## 2. The per-run obligation on the regenerated inventory -/

/-- Every write site of every non-const static object found in the CURRENT sources is either on a
listed known finding or is one of the reviewed address escapes.  Regenerated and re-checked on every
run: a new written static (or a new write site on a reviewed object) makes this fail. -/
theorem inventory_sites_allowed : MirVerif.Gen.C18.writeSites.all siteAllowed = true := by decide

/-- key `(file, object)` of the shared object numbered `o` -/
def objKey (o : Nat) : Option (String × String) :=
  (MirVerif.Gen.C18.objects[o]?).map (fun e => (e.1, e.2.1))

/-- the object has a write site that is not a reviewed, read-only address escape -/
def keyMayWrite (k : String × String) : Bool :=
  MirVerif.Gen.C18.writeSites.any (fun s => (s.1, s.2.1) == k && !siteReviewed s)

def objMayWrite (o : Nat) : Bool := match objKey o with | some k => keyMayWrite k | none => false
def objFinding (o : Nat) : Bool :=
  match objKey o with | some k => knownFindings.contains k | none => false

theorem mayWrite_is_finding (o : Nat) (h : objMayWrite o = true) : objFinding o = true := by
  unfold objMayWrite at h
  unfold objFinding
  cases hk : objKey o with
  | none => simp [hk] at h
  | some k =>
    simp only [hk] at h ⊢
    unfold keyMayWrite at h
    rw [List.any_eq_true] at h
    obtain ⟨s, hs, hc⟩ := h
    have hall := inventory_sites_allowed
    rw [List.all_eq_true] at hall
    have hsa := hall s hs
    simp only [Bool.and_eq_true, beq_iff_eq, Bool.not_eq_true'] at hc
    unfold siteAllowed at hsa
    unfold siteReviewed at hc
    rw [hc.2, Bool.or_false] at hsa
    rw [← hc.1]; exact hsa

/-- Soundness assumption on the inventory (validated dynamically under ThreadSanitizer on every
run): a library operation writes a shared location only inside an inventory object that has an
unreviewed write site. -/
def ConformsInventory (op : Op) : Prop :=
  ∀ o a, op.writes (.shared o a) = true → objMayWrite o = true

/-- The explicit extra hypothesis of the partial theorem: the operation does not write the objects
listed as known findings (those calls are serialised by the user, or the objects are repaired). -/
def AvoidsFindings (op : Op) : Prop :=
  ∀ o a, op.writes (.shared o a) = true → objFinding o = false

/-- what the library guarantees by construction for a call on context `i`: outside the shared objects
it writes only context `i`, and it reads only context `i` and shared objects -/
def CtxLocal (i : Nat) (op : Op) : Prop :=
  (∀ l, op.writes l = true → l.isCtx i = true ∨ l.isShared = true) ∧
  (∀ l, op.reads l = true → l.visible i = true)

/-- **C18 on the current code, partial form.**  For library operations that conform to the
regenerated inventory and avoid the listed known findings, every interleaving gives every thread the
state and the results of its own sequential run.  With `knownFindings = []` the hypothesis
`AvoidsFindings` is vacuous and this is the full property. -/
theorem code_interleaving_irrelevant_partial (tr : Trace)
    (h : ∀ e ∈ tr, e.2.Respects ∧ CtxLocal e.1 e.2 ∧ ConformsInventory e.2 ∧ AvoidsFindings e.2)
    (i : Nat) (m : Mem) :
    AgreeOn i (exec tr m).1 (exec (own i tr) m).1 ∧
    resultsOf i (exec tr m).2 = (exec (own i tr) m).2.map (·.2) := by
  apply interleaving_irrelevant
  intro e he
  obtain ⟨hr, hl, hc, ha⟩ := h e he
  refine ⟨hr, ?_, hl.2⟩
  intro l hw
  cases l with
  | ctx c a => simpa [Loc.isShared] using hl.1 _ hw
  | shared o a =>
    have h1 := mayWrite_is_finding o (hc o a hw)
    have h2 := ha o a hw
    simp [h1] at h2

/-- an operation confined to its context satisfies the three code-level hypotheses -/
theorem confined_code_hyps {i : Nat} {op : Op} (h : op.Confined i) :
    CtxLocal i op ∧ ConformsInventory op ∧ AvoidsFindings op := by
  refine ⟨⟨fun l hl => Or.inl (h.1 l hl), h.2⟩, ?_, ?_⟩
  · intro o a hw; have := h.1 _ hw; simp [Loc.isCtx] at this
  · intro o a hw; have := h.1 _ hw; simp [Loc.isCtx] at this

/-- non-vacuity of the code-level hypotheses: an operation that reads a shared inventory object and
works on its own context satisfies all four -/
def opC : Op := mkOp 1 [.ctx 0 0, .shared 0 0] [.ctx 0 1]

example : opC.Respects ∧ CtxLocal 0 opC ∧ ConformsInventory opC ∧ AvoidsFindings opC ∧
    opC.run (fun _ => 1) (.ctx 0 1) ≠ 1 :=
  have hc : opC.Confined 0 := mkOp_confined 0 1 _ _ none (by decide)
  ⟨mkOp_respects 1 _ _ none, (confined_code_hyps hc).1, (confined_code_hyps hc).2.1,
   (confined_code_hyps hc).2.2, by decide⟩

/-! ## 3. Code pages: a context's protection requests stay inside the pages it mapped

Model `Model/FootprintPages.lean`.  Tie: recording `MIR_code_alloc_t` hooks in
`harness/c18_threads.c` (one adjacent bump arena for all contexts), monitored by `mirdrv_c18`. -/

theorem protOp_respects (owner : Nat → Nat) (id lo n v : Nat) : (protOp owner id lo n v).Respects :=
  mkOp_respects id _ _ (some v)

/-- A protection request whose window contains only pages mapped by context `i` is an operation
confined to `i`; by `interleaving_irrelevant` no other thread can observe it. -/
theorem protect_confined (owner : Nat → Nat) (i id lo n v : Nat)
    (h : ∀ p, lo ≤ p → p < lo + n → owner p = i) : (protOp owner id lo n v).Confined i := by
  constructor
  · intro l hl
    have hm : l ∈ (List.range' lo n).map (fun p => Loc.ctx (owner p) p) := by
      simpa [protOp, mkOp] using hl
    obtain ⟨p, hp, rfl⟩ := List.mem_map.mp hm
    have hp' := List.mem_range'_1.mp hp
    simp [Loc.isCtx, h p hp'.1 hp'.2]
  · intro l hl
    simp [protOp, mkOp] at hl

/-- Conversely a window that reaches a page mapped by another context is NOT confined: this is the
interference (the other context's page changes protection under its feet). -/
theorem foreign_page_not_confined (owner : Nat → Nat) (i id lo n v p : Nat)
    (h1 : lo ≤ p) (h2 : p < lo + n) (h3 : owner p ≠ i) : ¬ (protOp owner id lo n v).Confined i := by
  intro hc
  have hw : (protOp owner id lo n v).writes (Loc.ctx (owner p) p) = true := by
    have : Loc.ctx (owner p) p ∈ (List.range' lo n).map (fun q => Loc.ctx (owner q) q) :=
      List.mem_map.mpr ⟨p, List.mem_range'_1.mpr ⟨h1, h2⟩, rfl⟩
    simpa [protOp, mkOp] using this
  have := hc.1 _ hw
  simp [Loc.isCtx] at this
  exact h3 this

/-- The window `_MIR_change_code` / `_MIR_update_code_arr` compute (`start = addr / page * page`,
`len = addr + code_len - start`) covers exactly the pages that contain a patched byte: it starts in
the first such page and ends in the last one. -/
theorem change_window_tight (page addr len : Nat) (hp : 0 < page) (hl : 0 < len) :
    protStart page addr / page = firstPage page addr ∧
    (protStart page addr + protLen page addr len - 1) / page = lastPage page addr len := by
  have hle : addr / page * page ≤ addr := Nat.div_mul_le_self addr page
  constructor
  · simp [protStart, firstPage, Nat.mul_div_cancel _ hp]
  · have : protStart page addr + protLen page addr len - 1 = addr + len - 1 := by
      simp only [protStart, protLen]; omega
    rw [this]; rfl

/-- Boundary case: patched bytes that end exactly on a page end do not make the window reach the
following page (which may belong to another context). -/
theorem boundary_patch_stays (page addr len : Nat) (hp : 0 < page) (hl : 0 < len)
    (hb : (addr + len) % page = 0) :
    (protStart page addr + protLen page addr len - 1) / page + 1 = (addr + len) / page := by
  rw [(change_window_tight page addr len hp hl).2]
  unfold lastPage
  have hd := Nat.div_add_mod (addr + len) page
  rw [hb, Nat.add_zero] at hd
  cases hq : (addr + len) / page with
  | zero => rw [hq] at hd; simp at hd; omega
  | succ q =>
    rw [hq] at hd
    have hm : page * (q + 1) = page * q + page := Nat.mul_succ page q
    have hdiv : (addr + len - 1) / page = q := by
      apply Nat.div_eq_of_lt_le
      · rw [Nat.mul_comm]; omega
      · rw [Nat.mul_comm, hm]; omega
    rw [hdiv]

theorem windowOwned_sound (maps : List Mapping) (lo n : Nat) (h : windowOwned maps lo n = true)
    (p : Nat) (h1 : lo ≤ p) (h2 : p < lo + n) : ownsPage maps p = true := by
  unfold windowOwned at h
  rw [List.all_eq_true] at h
  exact h p (List.mem_range'_1.mpr ⟨h1, h2⟩)

/-- **Code-page non-interference of a patch.**  If every page containing a patched byte was mapped by
context `i`, the protection request issued for the patch is confined to `i`. -/
theorem patch_request_confined (owner : Nat → Nat) (i id page addr len v : Nat) (hp : 0 < page)
    (hl : 0 < len) (hown : ∀ p, firstPage page addr ≤ p → p ≤ lastPage page addr len → owner p = i) :
    let lo := protStart page addr / page
    let hi := (protStart page addr + protLen page addr len - 1) / page
    (protOp owner id lo (hi + 1 - lo) v).Confined i := by
  intro lo hi
  have ht := change_window_tight page addr len hp hl
  apply protect_confined
  intro p h1 h2
  apply hown p
  · rw [← ht.1]; exact h1
  · rw [← ht.2]; show p ≤ hi; omega

/-- non-vacuity: context 1 owns pages 4 and 5, context 2 owns page 6; an 8-byte patch ending exactly
at the end of page 5 is confined to context 1, a window one page longer is not -/
example : let owner := fun p => if p < 6 then 1 else 2
    (∀ p, firstPage 4096 (6 * 4096 - 8) ≤ p → p ≤ lastPage 4096 (6 * 4096 - 8) 8 → owner p = 1) ∧
    (6 * 4096 - 8 + 8) % 4096 = 0 ∧ ¬ (protOp owner 7 5 2 0).Confined 1 := by
  intro owner
  refine ⟨?_, by decide, foreign_page_not_confined owner 1 7 5 2 0 6 (by decide) (by decide) (by decide)⟩
  intro p h1 h2
  have a : firstPage 4096 (6 * 4096 - 8) = 5 := by decide
  have b : lastPage 4096 (6 * 4096 - 8) 8 = 5 := by decide
  rw [a] at h1; rw [b] at h2
  have : p = 5 := by omega
  subst this; decide

/-! ## 4. Module hand-over (`MIR_change_module_ctx`): ownership after the call

Model `Model/FootprintHandover.lean`; tie: ownership monitor + poisoning allocator in
`harness/c18_handover.c`, judged by `mirdrv_c18 ho`. -/

/-- after the hand-over every string the module refers to is owned by the new context -/
theorem handover_owned (new : Nat) (m : Mod) : ∀ r ∈ (changeCtx new m).refs, r.owner = new := by
  intro r hr
  simp only [changeCtx, List.mem_map] at hr
  obtain ⟨r0, _, rfl⟩ := hr
  rfl

/-- … and the old context's item table has no entry of the module left -/
theorem handover_tab_clean (old new : Nat) (m : Mod) (tab : ItemTab) (h : old ≠ new) :
    ∀ e ∈ tabMove old new m tab, ¬ (e.1 = old ∧ e.2.1 = m.id) := by
  intro e he
  simp only [tabMove, List.mem_map] at he
  obtain ⟨e0, _, rfl⟩ := he
  cases hc : (e0.1 == old && e0.2.1 == m.id) with
  | true =>
    simp only [if_true]
    intro hh; exact h hh.1.symm
  | false =>
    simp only [Bool.false_eq_true, if_false]
    intro hh
    have : (e0.1 == old && e0.2.1 == m.id) = true := by simp [hh.1, hh.2]
    rw [hc] at this; cases this

theorem handover_monitor_ok (old new : Nat) (m : Mod) (tab : ItemTab) (h : old ≠ new) :
    handoverOk old new (changeCtx new m) (tabMove old new m tab) = true := by
  simp only [handoverOk, Bool.and_eq_true, List.all_eq_true]
  constructor
  · intro r hr; simp [handover_owned new m r hr]
  · intro e he
    have := handover_tab_clean old new m tab h e he
    cases h1 : (e.1 == old) <;> cases h2 : (e.2.1 == (changeCtx new m).id) <;> simp
    exact this ⟨by simpa using h1, by simpa [changeCtx] using h2⟩

/-- **Independence after a hand-over.**  Using the handed-over module in the new context is an operation
confined to the new context (so `interleaving_irrelevant` applies to both contexts again). -/
theorem use_after_handover_confined (new id : Nat) (m : Mod) :
    (useOp new id (changeCtx new m)).Confined new := by
  constructor
  · intro l hl
    have : l = Loc.ctx new 0 := by simpa [useOp, mkOp] using hl
    subst this; simp [Loc.isCtx]
  · intro l hl
    have hm : l ∈ (changeCtx new m).refs.map (fun r => Loc.ctx r.owner r.str) := by
      simpa [useOp, mkOp] using hl
    obtain ⟨r, hr, rfl⟩ := List.mem_map.mp hm
    simp [Loc.visible, Loc.isCtx, handover_owned new m r hr]

/-- One reference left with another owner couples the two contexts: the use is not confined. -/
theorem stale_ref_not_confined (i id : Nat) (m : Mod) (r : Ref) (hr : r ∈ m.refs) (ho : r.owner ≠ i) :
    ¬ (useOp i id m).Confined i := by
  intro hc
  have hrd : (useOp i id m).reads (Loc.ctx r.owner r.str) = true := by
    have : Loc.ctx r.owner r.str ∈ m.refs.map (fun r => Loc.ctx r.owner r.str) :=
      List.mem_map.mpr ⟨r, hr, rfl⟩
    simpa [useOp, mkOp] using this
  have := hc.2 _ hrd
  simp [Loc.visible, Loc.isCtx, Loc.isShared] at this
  exact ho this

/-- non-vacuity: a module with three references of context 0 and two table entries, handed to context 1 -/
example : let m : Mod := ⟨7, [⟨0, 1⟩, ⟨0, 2⟩, ⟨0, 5⟩]⟩
    let tab : ItemTab := [(0, 7, 1), (0, 8, 1), (0, 7, 2)]
    handoverOk 0 1 m tab = false ∧ handoverOk 0 1 (changeCtx 1 m) (tabMove 0 1 m tab) = true ∧
    ¬ (useOp 1 9 m).Confined 1 := by
  intro m tab
  exact ⟨by decide, by decide, stale_ref_not_confined 1 9 m ⟨0, 1⟩ (by decide) (by decide)⟩

end MirVerif.C18
