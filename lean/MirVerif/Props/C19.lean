/-! Property theorems for C19 (none yet). -/
