import MirVerif.Props.C19.Htab
import MirVerif.Props.C19.Bitmap
import MirVerif.Props.C19.Seq
/-! Property theorems for C19 live in the three files imported above. -/
