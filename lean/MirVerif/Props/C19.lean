import MirVerif.Props.C19.Htab
import MirVerif.Props.C19.Bitmap
import MirVerif.Props.C19.Seq
import MirVerif.Props.C19.Dataflow
/-! Property theorems for C19 live in the four files imported above. -/
