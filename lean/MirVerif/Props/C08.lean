import MirVerif.Model.Layout
import MirVerif.Model.Classify
import MirVerif.Lemmas.Layout
import MirVerif.Lemmas.LayoutBf
import MirVerif.Lemmas.Classify
import MirVerif.Lemmas.ClassifyArgs
/-!
# Property C08 — c2mir lays out and passes C data exactly as the platform ABI does

`c2mLay` / `c2mClassify` / `c2mProto` are literal models of `c2mir/c2mir.c` (`set_type_layout`,
`update_field_layout`, `aux_set_type_align`) and `c2mir/x86_64/cx86_64-ABI-code.c`; `sysvLay` /
`sysvClass` / `sysvProto` are the x86-64 psABI (as implemented by the reference compiler).  Both
sides are compared with the real c2m and gcc on every run by `checks/c08.py`.

Statements that are FALSE for the code as it is are kept (commented, with a machine-checked
counter-example) next to the `…_partial` theorem that does hold.
-/
namespace MirVerif.C08
open MirVerif.Layout MirVerif.Classify

/-! ## Layout -/

/-- the search loop of `update_field_layout` is never run with alignment 0 (its `assert`), so the
well-founded recursion of `ufLoop` is the whole story of its termination -/
theorem align_pos (t : CTy) : 0 < (c2mLay t).align := c2mLay_align_pos t

/-- `layout_wf`, part 1 (all well-formed types, bit-fields included): `sizeof` is positive and a
multiple of `_Alignof`; arrays have no padding between elements; in a struct/union there is one
placement per member, every `decl->offset` is a multiple of the alignment of the member's type and
every member (or bit-field storage unit) lies inside the object; the alignment of every member's
type divides nothing bigger than the aggregate's alignment (`≤`, powers of two in practice). -/
theorem layout_wf (t : CTy) (hw : t.wf = true) :
    0 < (c2mLay t).size ∧ (c2mLay t).align ∣ (c2mLay t).size
    ∧ (∀ n e, t = .arr n e → (c2mLay t).size = n * (c2mLay e).size)
    ∧ (∀ u ms, t = .agg u ms →
        unitsAligned ms (c2mLay t).mems = true ∧ unitsInside (c2mLay t).size ms (c2mLay t).mems = true) := by
  refine ⟨c2mLay_size_pos t hw, c2mLay_size_dvd t, ?_, ?_⟩
  · intro n e h; subst h; exact c2mLay_arr_size n e
  · intro u ms h
    subst h
    simp [CTy.wf] at hw
    obtain ⟨l, h1, h2, h3, _, _⟩ := c2mFold_out u ms {} hw.2
    have hal := c2mLay_align_pos (.agg u ms)
    simp [c2mLay] at hal h1 ⊢
    rw [h1]
    refine ⟨h2, unitsInside_mono ?_ _ _ h3⟩
    rw [roundSize_eq_roundUp hal]
    exact roundUp_ge hal

example : (CTy.agg false (.cons .plain (.sc .char) (.cons (.bf 3 true) (.sc .int) .nil))).wf = true := by decide

/-- `layout_meets_sysv` for every declaration without bit-fields: `sizeof`, `_Alignof` and every
member offset computed by c2mir equal the psABI's. -/
theorem layout_meets_sysv (t : CTy) (hw : t.wf = true) (hn : t.noBf = true) : c2mLay t = sysvLay t :=
  (lay_eq_noBf t hw hn).1

/-- a non-trivial instance: nested struct, anonymous union, array, long double -/
def exNoBf : CTy :=
  .agg false (.cons .plain (.sc .char) (.cons .anon (.agg true (.cons .plain (.sc .int)
    (.cons .plain (.arr 3 (.agg false (.cons .plain (.sc .short) (.cons .plain (.sc .char) .nil)))) .nil)))
    (.cons .plain (.sc .ldouble) .nil)))
example : exNoBf.wf = true ∧ exNoBf.noBf = true := by decide
example : (c2mLay exNoBf).size = 32 ∧ (c2mLay exNoBf).align = 16 := by decide +kernel

/-- `layout_wf`, part 2: the members of a struct are laid out in declaration order, pairwise
disjoint and inside the object — for every declaration that satisfies the side condition of
`layout_meets_sysv_partial` (in particular for every declaration without bit-fields). -/
theorem layout_wf_struct_disjoint (ms : Mems) (hw : (CTy.agg false ms).wf = true)
    (hs : (CTy.agg false ms).bfSimple = true) :
    orderedUpTo 0 (c2mLay (.agg false ms)).mems (8 * (c2mLay (.agg false ms)).size) = true := by
  rw [(lay_eq_simple (.agg false ms) hw hs).1]
  exact sysvLay_struct_ordered ms

example : (CTy.agg false (.cons (.bf 3 true) (.sc .int) (.cons .plain (.sc .char) .nil))).bfSimple = true := by
  decide

/-! ### The full statements are false for bit-fields (DESIGN §6 #22–#24) -/

/-- #22 `struct {int f0:5; char f1:4; long long f2:35;}` -/
def ex22 : CTy :=
  .agg false (.cons (.bf 5 true) (.sc .int) (.cons (.bf 4 true) (.sc .char) (.cons (.bf 35 true) (.sc .llong) .nil)))
/-- #23 `struct {unsigned short a; long :0;}` -/
def ex23 : CTy := .agg false (.cons .plain (.sc .ushort) (.cons (.bf 0 false) (.sc .long) .nil))
/-- #23 `struct {long long :52; int b;}` -/
def ex23b : CTy := .agg false (.cons (.bf 52 false) (.sc .llong) (.cons .plain (.sc .int) .nil))
/-- #24 `struct {char :0; long double x;}` -/
def ex24 : CTy := .agg false (.cons (.bf 0 false) (.sc .char) (.cons .plain (.sc .ldouble) .nil))

/- FALSE today:  theorem layout_meets_sysv_full (t) (hw : t.wf) : c2mLay t = sysvLay t -/
theorem layout_meets_sysv_full_false : ∃ t : CTy, t.wf = true ∧ c2mLay t ≠ sysvLay t :=
  ⟨ex22, by decide, by decide +kernel⟩

/- FALSE today:  layout_wf_struct_disjoint for every well-formed struct (see `ex22_overlap`). -/
/-- #22: f2 is put at bit 4, on top of f0 (bits 0–4) and f1 (bits 8–11); psABI: bit 12 -/
theorem ex22_overlap : (c2mLay ex22).mems.map (·.bitpos) = [0, 8, 4]
    ∧ (sysvLay ex22).mems.map (·.bitpos) = [0, 8, 12]
    ∧ orderedUpTo 0 (c2mLay ex22).mems 64 = false := by decide +kernel
/-- #23: unnamed / zero-width bit-fields raise alignment and size -/
theorem ex23_align : (c2mLay ex23).align = 8 ∧ (sysvLay ex23).align = 2
    ∧ (c2mLay ex23b).size = 16 ∧ (sysvLay ex23b).size = 12 := by decide +kernel
/-- #24: a leading zero-width bit-field displaces the next member -/
theorem ex24_displaced : (c2mLay ex24).mems.map (·.bitpos) = [0, 128]
    ∧ (sysvLay ex24).mems.map (·.bitpos) = [0, 0] := by decide +kernel

/-- `layout_meets_sysv_partial`: the full statement holds for every declaration in which, per
struct/union, all bit-fields are named, of non-zero width and declared with types of one size
(`CTy.bfSimple`, decidable; printed for every generated declaration by `mirdrv_c08 layout`). -/
theorem layout_meets_sysv_partial (t : CTy) (hw : t.wf = true) (hs : t.bfSimple = true) :
    c2mLay t = sysvLay t :=
  (lay_eq_simple t hw hs).1

/-- `struct {char c; int a:3; int b:30; short s; unsigned u:9; struct {long x:40; long y:40;} n;}` -/
def exSimple : CTy :=
  .agg false (.cons .plain (.sc .char) (.cons (.bf 3 true) (.sc .int) (.cons (.bf 30 true) (.sc .int)
    (.cons .plain (.sc .short) (.cons (.bf 9 true) (.sc .uint)
    (.cons .plain (.agg false (.cons (.bf 40 true) (.sc .long) (.cons (.bf 40 true) (.sc .long) .nil))) .nil))))))
example : exSimple.wf = true ∧ exSimple.bfSimple = true ∧ exSimple.noBf = false := by decide
example : (c2mLay exSimple).mems.map (·.bitpos) = [0, 8, 32, 64, 80, 128] ∧ (c2mLay exSimple).size = 32 := by
  decide +kernel

/-! ## Classification -/

/-- `get_result_type` is the psABI merge -/
theorem merge_is_sysv : ∀ a b, c2mMerge a b = sysvMerge a b := by
  intro a b; cases a <;> cases b <;> rfl

/-- `merge_lattice`: `get_result_type` is commutative and idempotent, `NO_CLASS` is neutral and
MEMORY absorbing; it is associative on the classes that can arise without `long double`. -/
theorem merge_lattice :
    (∀ a b, c2mMerge a b = c2mMerge b a)
    ∧ (∀ a, c2mMerge a a = a) ∧ (∀ a, c2mMerge .no a = a ∧ c2mMerge a .no = a)
    ∧ (∀ a, c2mMerge .mem a = .mem ∧ c2mMerge a .mem = .mem)
    ∧ (∀ a b c, a ≠ .x87 → a ≠ .x87up → b ≠ .x87 → b ≠ .x87up → c ≠ .x87 → c ≠ .x87up →
        c2mMerge (c2mMerge a b) c = c2mMerge a (c2mMerge b c)) := by
  refine ⟨?_, ?_, ?_, ?_, ?_⟩
  · intro a b; cases a <;> cases b <;> rfl
  · intro a; cases a <;> rfl
  · intro a; cases a <;> exact ⟨rfl, rfl⟩
  · intro a; cases a <;> exact ⟨rfl, rfl⟩
  · intro a b c h1 h2 h3 h4 h5 h6
    cases a <;> cases b <;> cases c <;> first | rfl | contradiction

/- FALSE (for the psABI merge itself, hence for `get_result_type`): associativity on all classes.
   INTEGER hides X87, SSE with X87 gives MEMORY; classification therefore depends on member order,
   and both the code and the specification fold in declaration order. -/
theorem merge_not_assoc :
    c2mMerge (c2mMerge .int .sse) .x87 = .int ∧ c2mMerge .int (c2mMerge .sse .x87) = .mem := by decide

/-- `struct {int a; struct {int x; float y;} s;}` -/
def exStraddle : CTy :=
  .agg false (.cons .plain (.sc .int) (.cons .plain (.agg false (.cons .plain (.sc .int) (.cons .plain (.sc .float) .nil))) .nil))

/- FALSE today:  theorem class_meets_sysv_full (t) (hw : t.wf) (hn : t.noBf) :
     (c2mClassify t).getD [.mem] = sysvClass sysvLay t -/
theorem class_meets_sysv_full_false : ∃ t : CTy, t.wf = true ∧ t.noBf = true ∧
    (c2mClassify t).getD [.mem] ≠ sysvClass sysvLay t :=
  ⟨exStraddle, by decide, by decide, by decide +kernel⟩
theorem exStraddle_classes : c2mClassify exStraddle = some [.int, .int]
    ∧ sysvClass sysvLay exStraddle = [.int, .sse] := by decide +kernel

/-- `class_meets_sysv_partial`: for declarations without bit-fields in which every member of
struct/union/array type starts on an eightbyte boundary (or is an array of small scalars inside one
eightbyte) and arrays have one element, 8-byte-multiple elements or scalar elements (`clsAligned`,
decidable, printed by `mirdrv_c08 class`), `classify_arg` returns the psABI classes. -/
theorem class_meets_sysv_partial (t : CTy) (hw : t.wf = true) (hn : t.noBf = true)
    (ha : clsAligned t = true) : (c2mClassify t).getD [.mem] = sysvClass sysvLay t :=
  class_eq t hw hn ha

/-- `struct {float f; char c[3]; union {long l; double d;} u;}` (INTEGER, INTEGER) -/
def exCls : CTy :=
  .agg false (.cons .plain (.sc .float) (.cons .plain (.arr 3 (.sc .char))
    (.cons .plain (.agg true (.cons .plain (.sc .long) (.cons .plain (.sc .double) .nil))) .nil)))
example : exCls.wf = true ∧ exCls.noBf = true ∧ clsAligned exCls = true
    ∧ c2mClassify exCls = some [.int, .int] := by decide +kernel

/-- `blk_kind_consistent`: for an aggregate that is classified as the psABI does, `get_blk_type` /
`process_aggregate_arg` select exactly the registers the psABI assigns (BLK = memory) — for any
values of c2mir's register counters (they also count scalars passed on the stack; `Sat`: the psABI's
counters are c2mir's, saturated at 6 / 8) — and the counters stay related.
(Before repo commit c8901359 this needed counters ≤ 6 / ≤ 8.) -/
theorem blk_kind_consistent (u : Bool) (ms : Mems) (ai : ArgInfo) (av : Avail)
    (hok : ClassOK sysvLay (.agg u ms)) (hs : Sat ai av) :
    (c2mArg ai (.agg u ms)).1 = (sysvArg sysvLay av (.agg u ms)).1
    ∧ Sat (c2mArg ai (.agg u ms)).2 (sysvArg sysvLay av (.agg u ms)).2 :=
  arg_agg sysvLay u ms ai av hok hs

/-- `proto_meets_sysv_partial`: a whole prototype is passed and returned as the psABI says when
every aggregate in it is classified correctly (`ClassOK`).  The only remaining hypothesis is the
classification of the aggregates (`class_meets_sysv_partial` + the two open classification findings). -/
theorem proto_meets_sysv_partial (ret : Option CTy) (ps : List CTy)
    (hret : ∀ t, ret = some t → isParamTy t = true ∧ (isAgg t = true → ClassOK sysvLay t))
    (hps : ∀ t ∈ ps, isParamTy t = true ∧ (isAgg t = true → ClassOK sysvLay t)) :
    c2mProto ret ps = sysvProto sysvLay ret ps :=
  proto_eq sysvLay ret ps hret hps

/-- the hypotheses are satisfiable: `struct {long a; double d;} f (long, struct {double d;}, float)` -/
def exSD : CTy := .agg false (.cons .plain (.sc .double) .nil)
def exLD : CTy := .agg false (.cons .plain (.sc .long) (.cons .plain (.sc .double) .nil))
example : ClassOK sysvLay exSD := by
  refine ⟨by decide +kernel, ?_⟩
  intro cs h
  have : c2mClassify exSD = some [.sse] := by decide +kernel
  rw [this] at h; cases h; rfl
example : c2mProto (some exLD) [.sc .long, exSD, .sc .float]
      = (some (.regs [.int, .sse]), [.regs [.int], .regs [.sse], .regs [.sse]]) := by decide +kernel

/-- `struct {double d; unsigned :0;}`: same layout on both sides, but c2mir classifies the
zero-width bit-field INTEGER (GCC ≥ 12.1 / psABI ignore it in a struct) -/
def exZeroWidth : CTy := .agg false (.cons .plain (.sc .double) (.cons (.bf 0 false) (.sc .uint) .nil))
theorem exZeroWidth_classes :
    ((c2mLay exZeroWidth).size, (c2mLay exZeroWidth).align, flatMems c2mLay exZeroWidth)
      = ((sysvLay exZeroWidth).size, (sysvLay exZeroWidth).align, flatMems sysvLay exZeroWidth)
    ∧ c2mClassify exZeroWidth = some [.int] ∧ sysvClass sysvLay exZeroWidth = [.sse] := by
  decide +kernel

/-- regression for finding C08-36 (fixed by repo commit c8901359): after seven `long` parameters
`struct {double;}` still travels in xmm0, as the psABI says -/
theorem proto_counter_fixed :
    let l := CTy.sc .long; let sd := CTy.agg false (.cons .plain (.sc .double) .nil)
    (c2mProto none [l, l, l, l, l, l, l, sd]).2.getLast? = some (.regs [.sse])
    ∧ (sysvProto sysvLay none [l, l, l, l, l, l, l, sd]).2.getLast? = some (.regs [.sse]) := by
  decide +kernel

/-- `enum_base_meets_gcc` (full statement since repo commit 665ec29a): for every range of
enumerators (least ≤ 0 ≤ greatest, as c2mir accumulates them, within the 64-bit types) c2mir rejects
the declaration exactly when the platform compiler diagnoses "enumeration values exceed range of
largest integer" (no 64-bit type holds the range), and otherwise the enumerated type has the
platform compiler's underlying type — same size and same signedness: `unsigned int` / `unsigned long`
iff there is no negative enumerator, 4 bytes iff all values fit `int` or all fit `unsigned int`. -/
theorem enum_base_meets_gcc (mn mx : Int) (h0 : mn ≤ 0) (h1 : 0 ≤ mx)
    (hmn : -9223372036854775808 ≤ mn) (hmx : mx ≤ 18446744073709551615) :
    c2mEnumOk mn mx = gccEnumOk mn mx
    ∧ (gccEnumOk mn mx = true → c2mEnumBase mn mx = gccEnumBase mn mx) :=
  enumBase_eq mn mx h0 h1 hmn hmx

/-- the rule before 665ec29a (findings C08-41, C08-42) with its witnesses: `enum {A, B = 0x100000000}`
was `long` (gcc: `unsigned long`), `enum {A = -1, B = LLONG_MAX}` was rejected (gcc: `long`) -/
theorem enum_old_rule_witnesses :
    c2mEnumBaseOld 0 4294967296 = .long ∧ gccEnumBase 0 4294967296 = .ulong
    ∧ c2mEnumOkOld (-1) 9223372036854775807 = false ∧ gccEnumOk (-1) 9223372036854775807 = true
    ∧ c2mEnumBase 0 4294967296 = .ulong ∧ c2mEnumOk (-1) 9223372036854775807 = true := by decide

/-- the boundaries: `enum {A = -1, B = INT_MAX}` is an `int`, `enum {B = INT_MAX + 1}` and
`enum {B = UINT_MAX}` are `unsigned int`, one more needs 8 bytes -/
example : c2mEnumBase (-1) 2147483647 = .int ∧ c2mEnumBase (-1) 2147483648 = .long
    ∧ c2mEnumBase 0 2147483648 = .uint ∧ c2mEnumBase 0 4294967295 = .uint
    ∧ c2mEnumBase 0 4294967296 = .ulong ∧ c2mEnumBase (-2147483648) 0 = .int
    ∧ c2mEnumBase (-2147483649) 0 = .long := by decide

/-- `x87_scalar_takes_no_register`: a `long double` scalar parameter goes to the stack and consumes
neither a general nor an SSE register, in c2mir (`target_add_arg_proto` / `target_add_call_arg_op`:
`else if (type != MIR_T_LD) n_iregs++`) as in the psABI -/
theorem x87_scalar_takes_no_register (ai : ArgInfo) (av : Avail) :
    c2mArg ai (.sc .ldouble) = (.stack, ai) ∧ sysvArg sysvLay av (.sc .ldouble) = (.stack, av) := by
  constructor
  · rw [c2mArg_sc]; rfl
  · rfl

/-- arrays as members: `classify_arg` (TM_ARR) replicates the eightbyte classes of the element over the
array (`subtypes[i % n_el_qwords]`), which is the psABI classification of the elements at their
positions; `class_meets_sysv_partial` covers every array of one element, of elements of 8k bytes
and of scalars (`arrOk`).  Instances with a 16-byte element of two different classes:
`struct {struct {long; double;} a[1];}` INTEGER,SSE — `{double; long;}[1]` SSE,INTEGER —
`long double[1]` X87,X87UP (returned in st0) — `{int; float;}[2]` INTEGER,INTEGER -/
theorem class_array_replicates_element :
    let sLD := CTy.agg false (.cons .plain (.sc .long) (.cons .plain (.sc .double) .nil))
    let sDL := CTy.agg false (.cons .plain (.sc .double) (.cons .plain (.sc .long) .nil))
    let sIF := CTy.agg false (.cons .plain (.sc .int) (.cons .plain (.sc .float) .nil))
    let w := fun (t : CTy) => CTy.agg false (.cons .plain t .nil)
    c2mClassify (w (.arr 1 sLD)) = some [.int, .sse] ∧ sysvClass sysvLay (w (.arr 1 sLD)) = [.int, .sse]
    ∧ c2mClassify (w (.arr 1 sDL)) = some [.sse, .int] ∧ sysvClass sysvLay (w (.arr 1 sDL)) = [.sse, .int]
    ∧ c2mClassify (w (.arr 1 (.sc .ldouble))) = some [.x87, .x87up]
    ∧ sysvClass sysvLay (w (.arr 1 (.sc .ldouble))) = [.x87, .x87up]
    ∧ c2mRet (w (.arr 1 (.sc .ldouble))) = .regs [.x87]
    ∧ c2mClassify (w (.arr 2 sIF)) = some [.int, .int] ∧ sysvClass sysvLay (w (.arr 2 sIF)) = [.int, .int]
    ∧ clsAligned (w (.arr 1 sLD)) = true ∧ clsAligned (w (.arr 2 sIF)) = true := by
  decide +kernel

end MirVerif.C08
