/-! Property theorems for C08 (none yet). -/
