-- Root of the MirVerif library (models, lemmas and property theorems are built per target by the
-- checks; this root only pulls in the audit command).
import MirVerif.Audit
