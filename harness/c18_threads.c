/* C18 dynamic validation harness.

   c18_threads <nthreads> <iters> <seed> <mode> [kinds-mask [mir2c-mode]]
       mode: 0 = sequential reference run AFTER the threaded run (first-time initialisations race
             inside the threads), 1 = reference run first
       kinds-mask: which of the 8 C program kinds may be drawn (default 0xff)
       mir2c-mode: 0 = no mir2c phase (default); 1 = mir2c inside the full workload; 2 = only
             MIR_init / MIR_scan_string / 12 x MIR_module2c / MIR_finish.  mir2c keeps the function
             being translated in a file-scope static, so concurrent translations can make one thread
             walk another context's function and abort; those runs are kept apart from the main ones.

   Every thread owns its contexts: per iteration it creates a context, compiles a small C program
   with c2mir, scans a textual MIR module, prints/writes the modules, translates one with mir2c,
   loads, links with a randomly chosen execution interface (interpreter, generator -O0..-O3, lazy
   function generation, lazy basic-block generation), runs both functions and finishes everything.
   Random sleeps shift the phases so that init/finish of one thread overlaps execution in others.
   There is NO synchronisation between the threads after the start barrier (and none is hidden in
   the harness: per-thread FILE objects, thread-local buffers, timestamps instead of a shared event
   counter), so ThreadSanitizer sees every pair of conflicting accesses of different threads as a race.

   The same workload specifications are executed sequentially by the main thread; every per-thread
   result is compared with the reference (lines RES / MISMATCH).  Built with -fsanitize=thread. */
#define _GNU_SOURCE
#include <pthread.h>
#include <stdio.h>
#include <stdlib.h>
#include <string.h>
#include <stdint.h>
#include <stdarg.h>
#include <setjmp.h>
#include <time.h>
#include <unistd.h>
#include <sys/mman.h>
#undef MAP_FAILED /* mir-code-alloc.h defines its own */
#include "mir.h"
#include "mir-gen.h"
#include "c2mir/c2mir.h"
#include "mir2c/mir2c.h"

#define MAXT 16
#define MAXI 64

enum { PH_INIT, PH_C2M_INIT, PH_C2M_COMPILE, PH_C2M_FINISH, PH_SCAN, PH_OUTPUT, PH_WRITE, PH_MIR2C,
       PH_LOAD, PH_GEN_INIT, PH_LINK, PH_RUN, PH_PATCH, PH_GEN_FINISH, PH_FINISH, NPH };
static const char *const ph_name[NPH]
  = {"MIR_init", "c2mir_init", "c2mir_compile", "c2mir_finish", "MIR_scan_string", "MIR_output",
     "MIR_write", "MIR_module2c", "MIR_load_module", "MIR_gen_init", "MIR_link", "run",
     "code_patch", "MIR_gen_finish", "MIR_finish"};

typedef struct {
  int kind, iface, opt, c2m_finish_early, nregs, hooks;
  long a, b, n;
} spec_t;

typedef struct {
  long c2m, scan;
  int c2m_ok;
  uint64_t m2c, bin, txt;
  char err[160];
} res_t;

typedef struct {
  int ph;
  int64_t t0, t1;
} ev_t;

static int nthreads, iters, mode;
static int m2c_mode; /* 0: no mir2c phase; 1: mir2c inside the full workload; 2: only init/scan/mir2c/finish */
static uint64_t seed;
static spec_t specs[MAXT][MAXI];
static res_t res_seq[MAXT][MAXI], res_thr[MAXT][MAXI];
static ev_t evs[MAXT][MAXI][NPH];
static pthread_barrier_t start_barrier;

/* ---------------------------------------------------------------- recording code allocators
   Every context created with hooks=1 gets its own MIR_code_alloc_t (MIR_init2).  All of them hand out
   pages of ONE arena by bump allocation, so the mappings of different contexts are ADJACENT: a
   protection window that overshoots by a page lands in a page of another context (or in a page
   nobody mapped).  Invariant monitored here and, from the printed event sequence, by the Lean
   monitor (mirdrv_c18 `pages`): every mem_protect / mem_unmap request issued on behalf of a context
   covers only pages that context mapped.  A violating request is applied only to its own pages
   (so the harness survives and reports).  Ownership is kept with relaxed atomics: no
   happens-before edges are added between the threads. */
#define ARENA_PAGES (1u << 16)
static uint64_t splitmix (uint64_t *s);
static uint8_t *arena;
static size_t psz;
static uint32_t arena_next;           /* bump pointer in pages */
static int32_t page_owner[ARENA_PAGES]; /* 0: never mapped, id: mapped by context id, -id: unmapped by it */

typedef struct {
  char kind; /* m map, u unmap, w protect, p patch call announced by the harness */
  char sub;  /* protect: W (W|X) / R (R|X); patch: c change_code, r update_code */
  int bad;
  uint32_t a, b;
} caev_t;

typedef struct {
  int id, tid, it, thr, nviol;
  struct MIR_code_alloc ca;
  caev_t *ev;
  size_t nev, cap, dumped;
} carec_t;
static carec_t carecs[2][MAXT][MAXI];

static void ca_log (carec_t *cr, char kind, char sub, uint32_t a, uint32_t b, int bad) {
  if (cr->nev == cr->cap) {
    cr->cap = cr->cap ? cr->cap * 2 : 256;
    cr->ev = realloc (cr->ev, cr->cap * sizeof (caev_t));
  }
  cr->ev[cr->nev++] = (caev_t){kind, sub, bad, a, b};
}

/* print the events of a context (from `dumped` on); called at once when a request violates the invariant,
   because the process may not survive what the library does next, and again at the end of the run */
static void ca_dump (carec_t *cr) {
  flockfile (stdout);
  printf ("CTX %d %d %d %s viol=%d events=%zu\n", cr->id, cr->tid, cr->it, cr->thr ? "THR" : "SEQ", cr->nviol, cr->nev);
  for (size_t e = cr->dumped; e < cr->nev; e++)
    printf ("CA %d %c %c %u %u %d\n", cr->id, cr->ev[e].kind, cr->ev[e].sub, cr->ev[e].a, cr->ev[e].b, cr->ev[e].bad);
  cr->dumped = cr->nev;
  fflush (stdout);
  funlockfile (stdout);
}

static int own_prefix (carec_t *cr, uint32_t lo, uint32_t n) { /* # leading pages owned by cr */
  uint32_t k = 0;
  while (k < n && lo + k < ARENA_PAGES && __atomic_load_n (&page_owner[lo + k], __ATOMIC_RELAXED) == cr->id) k++;
  return (int) k;
}

static void *rec_map (size_t len, void *ud) {
  carec_t *cr = ud;
  uint32_t n = (uint32_t) ((len + psz - 1) / psz);
  uint32_t lo = __atomic_fetch_add (&arena_next, n, __ATOMIC_RELAXED);
  if (lo + n > ARENA_PAGES) return NULL;
  for (uint32_t k = 0; k < n; k++) __atomic_store_n (&page_owner[lo + k], cr->id, __ATOMIC_RELAXED);
  ca_log (cr, 'm', '-', lo, n, 0);
  return arena + (size_t) lo * psz;
}

static int rec_unmap (void *addr, size_t len, void *ud) {
  carec_t *cr = ud;
  uint32_t lo = (uint32_t) (((uint8_t *) addr - arena) / psz);
  uint32_t n = (uint32_t) ((((uint8_t *) addr - arena) + len - 1) / psz) - lo + 1;
  int own = own_prefix (cr, lo, n), bad = own != (int) n;
  if (bad) cr->nviol++;
  ca_log (cr, 'u', '-', lo, n, bad);
  if (bad) ca_dump (cr);
  for (int k = 0; k < own; k++) __atomic_store_n (&page_owner[lo + k], -cr->id, __ATOMIC_RELAXED);
  return 0; /* the pages stay mapped and are never handed out again */
}

static int rec_protect (void *addr, size_t len, MIR_mem_protect_t prot, void *ud) {
  carec_t *cr = ud;
  size_t off = (size_t) ((uint8_t *) addr - arena);
  uint32_t lo = (uint32_t) (off / psz);
  uint32_t n = len == 0 ? 1 : (uint32_t) ((off + len - 1) / psz) - lo + 1; /* what mprotect really covers */
  int own = own_prefix (cr, lo, n), bad = own != (int) n;
  if (bad) cr->nviol++;
  ca_log (cr, 'w', prot == PROT_WRITE_EXEC ? 'W' : 'R', lo, n, bad);
  if (bad) ca_dump (cr);
  if (own == 0) return 0;
  return mprotect (arena + (size_t) lo * psz, (size_t) own * psz,
                   prot == PROT_WRITE_EXEC ? (PROT_READ | PROT_WRITE | PROT_EXEC) : (PROT_READ | PROT_EXEC));
}

/* patches whose last byte is the last byte of a page (and a few that are not) */
static void patch_phase (MIR_context_t ctx, carec_t *cr, uint64_t *rs) {
  static __thread uint8_t pad[3 * 4096];
  uint64_t val = 0x1122334455667788ull ^ *rs;
  memset (pad, 0x90, sizeof (pad));
  /* code whose size is an exact multiple of the page size, and a multiple -/+ 16: the holder mapped for it
     must be at least as large as the range the library then protects / fills / unmaps */
  if (psz <= 4096) {
    size_t k = 1 + (size_t) (splitmix (rs) % 2);
    static const int delta[3] = {0, -16, 16};
    size_t first = (size_t) (splitmix (rs) % 3);
    for (int j = 0; j < 2; j++) {
      size_t sz = k * psz + delta[(first + j) % 3];
      ca_log (cr, 'P', 'b', (uint32_t) sz, 0, 0); /* announce: _MIR_publish_code of sz bytes */
      if (_MIR_publish_code (ctx, pad, sz) == NULL) return;
    }
    ca_log (cr, 'P', 'b', (uint32_t) (k * psz), 0, 0);
    if (_MIR_publish_code (ctx, pad, k * psz) == NULL) return;
  }
  for (int round = 0; round < 2; round++) {
    size_t S = 16 * (1 + (size_t) (splitmix (rs) % 4));
    uint8_t *p = _MIR_get_new_code_addr (ctx, S), *slot;
    if (p == NULL) return;
    size_t rest = psz - (size_t) p % psz;
    if (rest < S) S = rest;
    if (rest > S && rest - S <= 4096) _MIR_publish_code (ctx, pad, rest - S);
    slot = _MIR_publish_code (ctx, pad, S);
    if (slot == NULL || ((size_t) slot + S) % psz != 0) continue; /* not on a boundary: skip the round */
#define ANNOUNCE(sub, ad, ln) ca_log (cr, 'p', sub, (uint32_t) ((uint8_t *) (ad) - arena), (uint32_t) (ln), 0)
    ANNOUNCE ('c', slot + S - 8, 8);
    _MIR_change_code (ctx, slot + S - 8, (uint8_t *) &val, 8); /* ends on the page end */
    ANNOUNCE ('c', slot + S - 1, 1);
    _MIR_change_code (ctx, slot + S - 1, pad, 1);
    ANNOUNCE ('c', slot, S);
    _MIR_change_code (ctx, slot, pad, S);
    ANNOUNCE ('r', slot, S - 8 + sizeof (void *));
    _MIR_update_code (ctx, slot, 1, (size_t) (S - 8), (void *) val); /* reloc in the last 8 bytes */
    {
      MIR_code_reloc_t rl[2] = {{0, (void *) val}, {S - 8, (void *) (val + 1)}};
      ANNOUNCE ('r', slot, S - 8 + sizeof (void *));
      _MIR_update_code_arr (ctx, slot, 2, rl);
    }
    size_t o = (size_t) (splitmix (rs) % (S - 8)), l = 1 + (size_t) (splitmix (rs) % 7); /* interior */
    ANNOUNCE ('c', slot + o, l);
    _MIR_change_code (ctx, slot + o, pad, l);
  }
}

static uint64_t splitmix (uint64_t *s) {
  uint64_t z = (*s += 0x9E3779B97F4A7C15ull);
  z = (z ^ (z >> 30)) * 0xBF58476D1CE4E5B9ull;
  z = (z ^ (z >> 27)) * 0x94D049BB133111EBull;
  return z ^ (z >> 31);
}

static int64_t now_ns (void) {
  struct timespec ts;
  clock_gettime (CLOCK_MONOTONIC, &ts);
  return (int64_t) ts.tv_sec * 1000000000ll + ts.tv_nsec;
}

static uint64_t fnv (uint64_t h, const void *p, size_t n) {
  const unsigned char *s = p;
  for (size_t i = 0; i < n; i++) h = (h ^ s[i]) * 1099511628211ull;
  return h;
}

/* ---------------------------------------------------------------- thread-local plumbing */
static __thread jmp_buf err_jmp;
static __thread char err_msg[160];
static __thread uint64_t bin_hash;
static __thread size_t bin_len;

static void MIR_NO_RETURN err_func (MIR_error_type_t t, const char *fmt, ...) {
  va_list ap;
  va_start (ap, fmt);
  int k = snprintf (err_msg, sizeof (err_msg), "E%d:", (int) t);
  vsnprintf (err_msg + k, sizeof (err_msg) - k, fmt, ap);
  va_end (ap);
  longjmp (err_jmp, 1);
}

static int bin_writer (MIR_context_t ctx, uint8_t b) {
  (void) ctx;
  bin_hash = (bin_hash ^ b) * 1099511628211ull;
  bin_len++;
  return 1;
}

typedef struct {
  const char *s;
  size_t pos;
} reader_t;
static int str_getc (void *data) {
  reader_t *r = data;
  return r->s[r->pos] == 0 ? EOF : (unsigned char) r->s[r->pos++];
}

static long ext_abs (long x) { return x < 0 ? -x : x; }

/* ---------------------------------------------------------------- workload texts */
static void c_program (const spec_t *sp, char *buf, size_t len) {
  long a = sp->a, b = sp->b;
  switch (sp->kind) {
  case 0:
    snprintf (buf, len,
              "long f (long n) { long s = %ld; for (long i = 0; i < n; i++) { s = s * %ld + i; s ^= s "
              ">> 7; } return s; }\n",
              a, b);
    break;
  case 1:
    snprintf (buf, len,
              "struct p { int a; long b; char c[5]; }; static struct p arr[16];\n"
              "long f (long n) { for (int i = 0; i < 16; i++) { arr[i].a = i * %ld; arr[i].b = n + i; "
              "arr[i].c[i %% 5] = (char) i; }\n"
              "  long s = 0; struct p *q = arr; for (int i = 0; i < 16; i++, q++) s += q->a + q->b * %ld + "
              "q->c[i %% 5]; return s; }\n",
              a, b);
    break;
  case 2:
    snprintf (buf, len,
              "static long fib (long n) { return n < 2 ? n : fib (n - 1) + fib (n - 2); }\n"
              "long f (long n) { long r; switch (n %% 4) { case 0: r = fib (n %% 15) + %ld; break; case "
              "1: r = fib (7) * %ld; break;\n case 2: r = n * n; break; default: r = -n; } return r; }\n",
              a, b);
    break;
  case 3:
    snprintf (buf, len,
              "#include <stdarg.h>\n#include <stdint.h>\n#include <limits.h>\n#include <stddef.h>\n"
              "#include <stdbool.h>\n#include <iso646.h>\n#include <float.h>\n#include <stdalign.h>\n"
              "#include <stdnoreturn.h>\n"
              "static long sum (int k, ...) { va_list ap; long s = 0; va_start (ap, k); for (int i = 0; i "
              "< k; i++) s += va_arg (ap, long); va_end (ap); return s; }\n"
              "long f (long n) { int32_t x = %ld; bool b = n > 3 and x != 0; return sum (3, n, (long) x, "
              "(long) CHAR_BIT) + (b ? (long) sizeof (size_t) : %ld) + DBL_DIG + alignof (long); }\n",
              a, b);
    break;
  case 4: /* `void *` values obtained from alloca and from a label address (c2mir's VOID_TYPE) */
    snprintf (buf, len,
              "long f (long n) { char *p = (char *) __builtin_alloca (32); void *l = &&lab;\n"
              "  p[3] = (char) n; long d = p[3] + %ld;\n"
              "  if (n > %ld) goto *l; d += 100;\n lab: return d + n; }\n",
              a, b);
    break;
  case 5: /* erroneous programs: error paths of the parser / checker */
    if (a % 3 == 1)
      snprintf (buf, len, "long f (long n) { return n + ; }\nint g (int x { return %ld; }\n", b);
    else if (a % 3 == 2) /* error recovery inside struct declarations, attributes, unnamed bit-fields */
      snprintf (buf, len,
                "struct S { unsigned a : 4; unsigned : %ld; int : ; unsigned b : 4 __attribute__ ((packed)); unsigned : 3 };\n"
                "struct T { int x __attribute__ ((aligned (8))); unsigned : 0; long } ;\n"
                "long f (long n) { struct S s; s.b = n; return s.b + sizeof (struct T); }\n",
                1 + b % 12);
    else
      snprintf (buf, len,
                "struct u; long f (long n) { struct u x; int y = \"s\" * %ld; return x + undeclared (n); "
                "}\n",
                b);
    break;
  case 7: /* unnamed bit-fields (and `: 0`), different widths per thread */
    snprintf (buf, len,
              "struct S { unsigned a : 4; unsigned : %ld; unsigned b : 4; int : 0; unsigned c : 3; unsigned : %ld; unsigned d : 2; };\n"
              "union U { struct S s; unsigned long u[2]; };\n"
              "long f (long n) { union U x; x.u[0] = x.u[1] = 0; x.s.a = (unsigned) n & 15; x.s.b = 15; x.s.c = 5; x.s.d = 3;\n"
              "  return (long) (x.u[0] ^ (x.u[1] << 7)) + %ld; }\n",
              1 + a % 12, 1 + b % 7, a + b);
    break;
  default:
    snprintf (buf, len,
              "static const char *s = \"hello%ld\"; static double tab[4] = {1.5, 2.25, %ld.0, 4.0}; int g "
              "= %ld;\n"
              "long f (long n) { double d = 0; for (int i = 0; i < 4; i++) d += tab[i] * (double) (n + i);\n"
              "  long r = (long) d; for (const char *p = s; *p; p++) r = r * 31 + *p; return r + g; }\n",
              a, b, a + b);
    break;
  }
}

static void mir_program (const spec_t *sp, int tid, char *buf, size_t len) {
  size_t k = 0;
  k += snprintf (buf + k, len - k,
                 "m_scan%d: module\next_p: proto i64, i64:x\nimport ext_abs\nexport g%d\n"
                 "g%d: func i64, i64:n\n  local i64:i, i64:s",
                 tid, tid, tid);
  for (int r = 0; r < sp->nregs; r++) k += snprintf (buf + k, len - k, ", i64:t%d_r%d", tid, r);
  k += snprintf (buf + k, len - k, "\n  mov s, %ld\n  mov i, 0\n", sp->a);
  for (int r = 0; r < sp->nregs; r++) k += snprintf (buf + k, len - k, "  mov t%d_r%d, %d\n", tid, r, r + 1);
  k += snprintf (buf + k, len - k,
                 "L1: bge L2, i, n\n  mul s, s, %ld\n  add s, s, i\n  add i, i, 1\n  jmp L1\nL2:\n", sp->b);
  for (int r = 0; r < sp->nregs; r++) k += snprintf (buf + k, len - k, "  add s, s, t%d_r%d\n", tid, r);
  k += snprintf (buf + k, len - k,
                 "  neg i, s\n  call ext_p, ext_abs, s, i\n  add s, s, %ld\n  ret s\n  endfunc\n  endmodule\n",
                 sp->a + 1);
}

/* ---------------------------------------------------------------- one iteration */
#define PHASE(p)                                  \
  do {                                            \
    if (cur >= 0) ev[cur].t1 = now_ns ();         \
    if (shift && (splitmix (&rs) & 3) == 0) usleep ((useconds_t) (splitmix (&rs) % 700)); \
    cur = (p);                                    \
    ev[cur].ph = cur;                             \
    ev[cur].t0 = now_ns ();                       \
  } while (0)

static void run_one (const spec_t *sp, int tid, int it, res_t *res, ev_t *ev, int shift) {
  static __thread char cbuf[4096], mbuf[8192];
  volatile int cur = -1;
  uint64_t rs = seed * 977 + tid * 131 + it;
  MIR_context_t volatile ctx = NULL;
  MIR_item_t f_item = NULL, g_item = NULL;
  MIR_module_t m, scanned = NULL;
  struct c2mir_options opts;
  reader_t rd;
  char *ms_buf = NULL;
  size_t ms_len = 0;
  FILE *msg, *ms;
  char gname[32];

  memset (res, 0, sizeof (*res));
  for (int i = 0; i < NPH; i++) ev[i].ph = -1;
  c_program (sp, cbuf, sizeof (cbuf));
  mir_program (sp, tid, mbuf, sizeof (mbuf));
  snprintf (gname, sizeof (gname), "g%d", tid);
  msg = fopen ("/dev/null", "w");
  if (setjmp (err_jmp)) { /* a MIR error in this thread: record it, abandon the context */
    snprintf (res->err, sizeof (res->err), "%s@%s", err_msg, cur >= 0 ? ph_name[cur] : "?");
    if (cur >= 0) ev[cur].t1 = now_ns ();
    if (msg != NULL) fclose (msg);
    return;
  }
  carec_t *cr = &carecs[shift ? 1 : 0][tid][it];
  cr->id = 1 + (shift ? MAXT * MAXI : 0) + tid * MAXI + it;
  cr->tid = tid, cr->it = it, cr->thr = shift, cr->nviol = 0, cr->nev = 0, cr->dumped = 0;
  cr->ca = (struct MIR_code_alloc){rec_map, rec_unmap, rec_protect, cr};
  PHASE (PH_INIT);
  ctx = sp->hooks ? MIR_init2 (NULL, &cr->ca) : MIR_init ();
  MIR_set_error_func (ctx, err_func);
  if (m2c_mode == 2) { /* the mir2c-only workload: many translations to widen the window */
    PHASE (PH_SCAN);
    MIR_scan_string (ctx, mbuf);
    scanned = DLIST_TAIL (MIR_module_t, *MIR_get_module_list (ctx));
    PHASE (PH_MIR2C);
    res->m2c = 14695981039346656037ull;
    for (int k = 0; k < 12; k++) {
      ms_buf = NULL;
      ms = open_memstream (&ms_buf, &ms_len);
      MIR_module2c (ctx, ms, scanned);
      fclose (ms);
      res->m2c = fnv (res->m2c, ms_buf, ms_len);
      free (ms_buf);
    }
    PHASE (PH_FINISH);
    MIR_finish (ctx);
    ev[cur].t1 = now_ns ();
    fclose (msg);
    msg = NULL;
    return;
  }
  PHASE (PH_C2M_INIT);
  c2mir_init (ctx);
  memset (&opts, 0, sizeof (opts));
  opts.message_file = msg;
  opts.module_num = (size_t) it;
  rd.s = cbuf;
  rd.pos = 0;
  PHASE (PH_C2M_COMPILE);
  res->c2m_ok = c2mir_compile (ctx, &opts, str_getc, &rd, "t.c", NULL);
  if (sp->c2m_finish_early) {
    PHASE (PH_C2M_FINISH);
    c2mir_finish (ctx);
  }
  PHASE (PH_SCAN);
  MIR_scan_string (ctx, mbuf);
  scanned = DLIST_TAIL (MIR_module_t, *MIR_get_module_list (ctx));
  PHASE (PH_OUTPUT);
  ms = open_memstream (&ms_buf, &ms_len);
  MIR_output (ctx, ms);
  fclose (ms);
  res->txt = fnv (14695981039346656037ull, ms_buf, ms_len);
  free (ms_buf);
  PHASE (PH_WRITE);
  bin_hash = 14695981039346656037ull;
  bin_len = 0;
  MIR_write_with_func (ctx, bin_writer);
  res->bin = bin_hash ^ bin_len;
  if (m2c_mode == 1) {
    PHASE (PH_MIR2C);
    ms_buf = NULL;
    ms = open_memstream (&ms_buf, &ms_len);
    MIR_module2c (ctx, ms, scanned);
    fclose (ms);
    res->m2c = fnv (14695981039346656037ull, ms_buf, ms_len);
    free (ms_buf);
  }
  PHASE (PH_LOAD);
  for (m = DLIST_HEAD (MIR_module_t, *MIR_get_module_list (ctx)); m != NULL; m = DLIST_NEXT (MIR_module_t, m)) {
    MIR_load_module (ctx, m);
    for (MIR_item_t item = DLIST_HEAD (MIR_item_t, m->items); item != NULL; item = DLIST_NEXT (MIR_item_t, item))
      if (item->item_type == MIR_func_item) {
        if (strcmp (item->u.func->name, "f") == 0) f_item = item;
        if (strcmp (item->u.func->name, gname) == 0) g_item = item;
      }
  }
  MIR_load_external (ctx, "ext_abs", ext_abs);
  if (sp->iface != 0) {
    PHASE (PH_GEN_INIT);
    MIR_gen_init (ctx);
    MIR_gen_set_optimize_level (ctx, (unsigned) sp->opt);
  }
  PHASE (PH_LINK);
  MIR_link (ctx,
            sp->iface == 0   ? MIR_set_interp_interface
            : sp->iface == 1 ? MIR_set_gen_interface
            : sp->iface == 2 ? MIR_set_lazy_gen_interface
                             : MIR_set_lazy_bb_gen_interface,
            NULL);
  PHASE (PH_RUN);
  if (sp->iface == 0) {
    MIR_val_t r, arg;
    arg.i = sp->n;
    if (f_item != NULL && res->c2m_ok) {
      MIR_interp_arr (ctx, f_item, &r, 1, &arg);
      res->c2m = r.i;
    }
    MIR_interp_arr (ctx, g_item, &r, 1, &arg);
    res->scan = r.i;
    /* and once more through the thunk, as native callers do */
    res->scan ^= ((long (*) (long)) g_item->addr) (sp->n) * 3;
  } else {
    if (f_item != NULL && res->c2m_ok) res->c2m = ((long (*) (long)) f_item->addr) (sp->n);
    res->scan = ((long (*) (long)) g_item->addr) (sp->n);
    res->scan ^= ((long (*) (long)) g_item->addr) (sp->n + 1) * 3;
  }
  if (sp->hooks) {
    PHASE (PH_PATCH);
    patch_phase (ctx, cr, &rs);
  }
  if (sp->iface != 0) {
    PHASE (PH_GEN_FINISH);
    MIR_gen_finish (ctx);
  }
  if (!sp->c2m_finish_early) {
    PHASE (PH_C2M_FINISH);
    c2mir_finish (ctx);
  }
  PHASE (PH_FINISH);
  MIR_finish (ctx);
  ev[cur].t1 = now_ns ();
  fclose (msg);
  msg = NULL;
}

static void *thread_main (void *arg) {
  int tid = (int) (intptr_t) arg;
  pthread_barrier_wait (&start_barrier);
  usleep ((useconds_t) (tid * 250));
  for (int it = 0; it < iters; it++) run_one (&specs[tid][it], tid, it, &res_thr[tid][it], evs[tid][it], 1);
  return NULL;
}

static void sequential (void) {
  static ev_t dummy[NPH];
  for (int t = 0; t < nthreads; t++)
    for (int it = 0; it < iters; it++) run_one (&specs[t][it], t, it, &res_seq[t][it], dummy, 0);
}

static void print_res (const char *tag, int t, int it, const res_t *r) {
  const spec_t *sp = &specs[t][it];
  printf ("RES %s %d %d kind=%d iface=%d opt=%d n=%ld ok=%d c2m=%ld scan=%ld m2c=%016llx bin=%016llx "
          "txt=%016llx err=%s\n",
          tag, t, it, sp->kind, sp->iface, sp->opt, sp->n, r->c2m_ok, r->c2m, r->scan,
          (unsigned long long) r->m2c, (unsigned long long) r->bin, (unsigned long long) r->txt,
          r->err[0] ? r->err : "-");
}

int main (int argc, char **argv) {
  pthread_t th[MAXT];
  int mism = 0;
  if (argc < 5) {
    fprintf (stderr, "usage: %s nthreads iters seed mode [kinds-mask [mir2c-mode]]\n", argv[0]);
    return 2;
  }
  nthreads = atoi (argv[1]);
  iters = atoi (argv[2]);
  seed = strtoull (argv[3], NULL, 10);
  mode = atoi (argv[4]);
  unsigned kinds = argc > 5 ? (unsigned) strtoul (argv[5], NULL, 0) : 0xff;
  m2c_mode = argc > 6 ? atoi (argv[6]) : 0;
  if (nthreads < 1 || nthreads > MAXT || iters < 1 || iters > MAXI || (kinds & 0xff) == 0) return 2;
  uint64_t s = seed * 1000003ull + 17;
  for (int t = 0; t < nthreads; t++)
    for (int it = 0; it < iters; it++) {
      spec_t *sp = &specs[t][it];
      do sp->kind = (int) (splitmix (&s) % 8); while (!((kinds >> sp->kind) & 1));
      sp->iface = (int) (splitmix (&s) % 4);
      sp->opt = (int) (splitmix (&s) % 4);
      sp->c2m_finish_early = (int) (splitmix (&s) & 1);
      sp->nregs = 1 + (int) (splitmix (&s) % 6) + t;
      sp->a = 2 + (long) (splitmix (&s) % 97);
      sp->b = 3 + (long) (splitmix (&s) % 89);
      sp->n = 5 + (long) (splitmix (&s) % 40);
      sp->hooks = (splitmix (&s) % 4) != 0; /* 3 of 4 contexts use a recording code allocator */
    }
  printf ("CFG n=%d iters=%d seed=%llu mode=%d kinds=0x%x m2c=%d\n", nthreads, iters,
          (unsigned long long) seed, mode, kinds, m2c_mode);
  fflush (stdout);
  psz = (size_t) sysconf (_SC_PAGE_SIZE);
  arena = mmap (NULL, (size_t) ARENA_PAGES * psz, PROT_READ | PROT_EXEC, MAP_PRIVATE | MAP_ANONYMOUS | MAP_NORESERVE, -1, 0);
  if (arena == (void *) -1) {
    fprintf (stderr, "cannot map the code arena\n");
    return 2;
  }
  arena_next = 1; /* page 0 is never handed out */
  printf ("PAGESIZE %zu\n", psz);
  fflush (stdout);
  if (mode == 1) sequential ();
  pthread_barrier_init (&start_barrier, NULL, (unsigned) nthreads);
  for (int t = 0; t < nthreads; t++) pthread_create (&th[t], NULL, thread_main, (void *) (intptr_t) t);
  for (int t = 0; t < nthreads; t++) pthread_join (th[t], NULL);
  if (mode != 1) sequential ();
  for (int t = 0; t < nthreads; t++)
    for (int it = 0; it < iters; it++) {
      const res_t *a = &res_seq[t][it], *b = &res_thr[t][it];
      print_res ("SEQ", t, it, a);
      print_res ("THR", t, it, b);
      if (a->c2m_ok != b->c2m_ok || a->c2m != b->c2m || a->scan != b->scan || a->m2c != b->m2c
          || a->bin != b->bin || a->txt != b->txt || strcmp (a->err, b->err) != 0) {
        mism++;
        printf ("MISMATCH %d %d\n", t, it);
      }
      for (int p = 0; p < NPH; p++)
        if (evs[t][it][p].ph >= 0)
          printf ("EV %d %d %s %lld %lld\n", t, it, ph_name[p], (long long) evs[t][it][p].t0,
                  (long long) evs[t][it][p].t1);
    }
  int pviol = 0;
  printf ("PAGESIZE %zu\n", psz);
  for (int k = 0; k < 2; k++)
    for (int t = 0; t < nthreads; t++)
      for (int it = 0; it < iters; it++) {
        carec_t *cr = &carecs[k][t][it];
        if (cr->id == 0 || cr->nev == 0) continue;
        pviol += cr->nviol;
        ca_dump (cr);
      }
  printf ("DONE mismatches=%d pageviol=%d\n", mism, pviol);
  return 0;
}
