/* C08: prints the table of c2mir's `get_result_type` (x86-64 ABI class merge) over the classes
   NO_CLASS, INTEGER (MIR_T_I64), SSE (MIR_T_D), X87 (MIR_T_LD), X87UP_CLASS, MEMORY (MIR_T_UNDEF),
   row-major, one letter per entry; compared with the Lean model `c2mMerge` on every run. */
#include "c2mir/c2mir.c"

static char cls_name (MIR_type_t t) {
  if ((enum add_arg_class) t == NO_CLASS) return 'N';
  if ((enum add_arg_class) t == X87UP_CLASS) return 'U';
  switch (t) {
  case MIR_T_I64: return 'I';
  case MIR_T_D: return 'S';
  case MIR_T_LD: return 'X';
  case MIR_T_UNDEF: return 'M';
  default: return '?';
  }
}

int main (void) {
  MIR_type_t v[6] = {(MIR_type_t) NO_CLASS, MIR_T_I64, MIR_T_D, MIR_T_LD, (MIR_type_t) X87UP_CLASS, MIR_T_UNDEF};
  for (int i = 0; i < 6; i++)
    for (int j = 0; j < 6; j++) putchar (cls_name (get_result_type (v[i], v[j])));
  putchar ('\n');
  return 0;
}
