/* C16 behavioural harness: executes a plan of API calls (scan, load+link with a chosen interface,
   MIR_gen in any order with repetitions, MIR_output_item snapshots, MIR_interp, calls through
   item->addr) against the real library (mir.c + mir-gen.c compiled from VERIF_REPO, public API and
   public struct fields only) and prints one fact line per action.  checks/c16.py generates the
   plans, runs a twin/canonical plan in a second process and compares.

   usage: c16_behav <plan-file>
   plan lines:
     OPT <level>
     SCAN <file.mir>
     LOADLINK interp|gen|lazy|lazybb
     RELOADLINK <iface>     MIR_load_module of every module loaded so far ONCE MORE (function thunks go back
                            to the undefined-interface stub), then MIR_link with the interface
     SNAP <tag>             print "T <tag> <func> <hash>" for every function item, remember first text
     CHECKTEXT <tag>        compare every function with its first remembered text
     GEN <func>
     GENALL                 MIR_gen on every function item in module order
     INTERP <id> <func> <n>
     CALL <id> <func> <n>
     MODBEGIN <module> <callee>...   MIR_new_module + import of every callee + proto p_ii: from here to
                                     MODEND a module is UNDER CONSTRUCTION while other actions run
     MODFUNC <g> <callee>            whole function  g (p, n) = callee (p, n) + 1000  and its export
     MODFUNCBEGIN <g> <callee>       MIR_new_func, regs and the call insn ...
     MODFUNCEND                      ... the remaining insns, MIR_finish_func, export
     MODEND                          MIR_finish_module; prints "MT <module> <escaped text of the module>"
     APIMOD <module> <f> <r1> <r2>   a whole module built through the API whose function f (p, n) has locals named
                                     r1 and r2 (names the text scanner would not accept are legal here):
                                     r1 = n + 1; r2 = r1; r1 += 100; r2 += r1; return r2
   generated test functions have the signature  i64 f (i64 p, i64 n);  p points to 64 i64 cells.  */
#include <stdio.h>
#include <stdlib.h>
#include <string.h>
#include <stdarg.h>
#include <stdint.h>
#include <dlfcn.h>
#include <unistd.h>
#include "mir.h"
#include "mir-gen.h"

static const char *phase = "init";

static void MIR_NO_RETURN err_func (MIR_error_type_t t, const char *fmt, ...) {
  va_list ap;
  char msg[600];
  va_start (ap, fmt);
  vsnprintf (msg, sizeof (msg), fmt, ap);
  va_end (ap);
  printf ("MIRERROR phase=%s type=%d %s\n", phase, (int) t, msg);
  fflush (stdout);
  _exit (3);
}

static int64_t acc;
static void ext_log (int64_t v) { acc = acc * 1000003 + v + 1; }
static void ext_inc (int64_t *p) { *p += 1; } /* the address of a local escapes to here */
static char dummy_target[64];
static void *resolver (const char *name) {
  if (strcmp (name, "ext_log") == 0) return (void *) ext_log;
  if (strcmp (name, "ext_inc") == 0) return (void *) ext_inc;
  void *a = dlsym (RTLD_DEFAULT, name);
  return a != NULL ? a : (void *) dummy_target;
}

static uint64_t fnv (const char *s, size_t n) {
  uint64_t h = 1469598103934665603ull;
  for (size_t i = 0; i < n; i++) h = (h ^ (unsigned char) s[i]) * 1099511628211ull;
  return h;
}

static char *item_text (MIR_context_t ctx, MIR_item_t item, size_t *len) {
  char *buf = NULL;
  FILE *f = open_memstream (&buf, len);
  MIR_output_item (ctx, f, item);
  /* lref items of the function print through lref->label: they belong to the function's text */
  for (MIR_item_t it = DLIST_HEAD (MIR_item_t, item->module->items); it != NULL;
       it = DLIST_NEXT (MIR_item_t, it))
    if (it->item_type == MIR_lref_data_item)
      for (MIR_lref_data_t l = item->u.func->first_lref; l != NULL; l = l->next)
        if (l == it->u.lref_data) MIR_output_item (ctx, f, it);
  fclose (f);
  return buf;
}

static void out_escaped (const char *s) {
  for (; *s; s++) {
    if (*s == '\n')
      printf ("\\n");
    else if (*s == '\t')
      printf ("\\t");
    else if (*s == '\\')
      printf ("\\\\");
    else
      putchar (*s);
  }
}

#define MAXF 20000
static struct finfo {
  MIR_item_t item;
  char *text0; /* first remembered text */
  void *first_ret;
} funcs[MAXF];
static int nfuncs = 0;

static struct finfo *find_info (MIR_item_t item) {
  for (int i = 0; i < nfuncs; i++)
    if (funcs[i].item == item) return &funcs[i];
  if (nfuncs >= MAXF) {
    printf ("TOOMANY\n");
    exit (4);
  }
  funcs[nfuncs].item = item;
  funcs[nfuncs].text0 = NULL;
  funcs[nfuncs].first_ret = NULL;
  return &funcs[nfuncs++];
}

static MIR_item_t find_func (MIR_context_t ctx, const char *name) {
  for (MIR_module_t m = DLIST_HEAD (MIR_module_t, *MIR_get_module_list (ctx)); m != NULL;
       m = DLIST_NEXT (MIR_module_t, m))
    for (MIR_item_t it = DLIST_HEAD (MIR_item_t, m->items); it != NULL;
         it = DLIST_NEXT (MIR_item_t, it))
      if (it->item_type == MIR_func_item && strcmp (it->u.func->name, name) == 0) return it;
  return NULL;
}

static char *read_file (const char *name) {
  FILE *f = fopen (name, "rb");
  if (f == NULL) {
    perror (name);
    exit (2);
  }
  fseek (f, 0, SEEK_END);
  long n = ftell (f);
  fseek (f, 0, SEEK_SET);
  char *buf = malloc (n + 1);
  if (fread (buf, 1, n, f) != (size_t) n) exit (2);
  buf[n] = 0;
  fclose (f);
  return buf;
}

static void do_gen (MIR_context_t ctx, MIR_item_t it) {
  MIR_func_t func = it->u.func;
  struct finfo *fi = find_info (it);
  void *mc0 = func->machine_code, *ca0 = func->call_addr, *addr0 = it->addr;
  void *r = MIR_gen (ctx, it);
  int first_same = fi->first_ret == NULL || fi->first_ret == r;
  if (fi->first_ret == NULL) fi->first_ret = r;
  printf ("G %s was=%d ret_addr=%d addr_same=%d mc_same=%d ca_same=%d first_ret_same=%d mc_set=%d\n",
          func->name, mc0 != NULL, r == it->addr, it->addr == addr0, func->machine_code == mc0,
          func->call_addr == ca0, first_same, func->machine_code != NULL);
}

/* a module built through the API in several steps */
static MIR_module_t open_mod;
static MIR_item_t open_proto, open_func;
static char open_func_name[64];
static struct {
  char name[64];
  MIR_item_t item;
} open_imports[8];
static int n_open_imports;

static void modfunc_begin (MIR_context_t ctx, const char *gname, const char *callee) {
  MIR_type_t res = MIR_T_I64;
  MIR_var_t args[2];
  MIR_item_t imp = NULL;
  memset (args, 0, sizeof (args));
  args[0].type = MIR_T_I64;
  args[0].name = "p";
  args[1].type = MIR_T_I64;
  args[1].name = "n";
  for (int i = 0; i < n_open_imports; i++)
    if (strcmp (open_imports[i].name, callee) == 0) imp = open_imports[i].item;
  if (imp == NULL) {
    printf ("NOIMPORT %s\n", callee);
    exit (5);
  }
  snprintf (open_func_name, sizeof (open_func_name), "%s", gname);
  open_func = MIR_new_func_arr (ctx, gname, 1, &res, 2, args);
  MIR_func_t f = open_func->u.func;
  MIR_reg_t r = MIR_new_func_reg (ctx, f, MIR_T_I64, "r");
  MIR_op_t ops[5];
  ops[0] = MIR_new_ref_op (ctx, open_proto);
  ops[1] = MIR_new_ref_op (ctx, imp);
  ops[2] = MIR_new_reg_op (ctx, r);
  ops[3] = MIR_new_reg_op (ctx, MIR_reg (ctx, "p", f));
  ops[4] = MIR_new_reg_op (ctx, MIR_reg (ctx, "n", f));
  MIR_append_insn (ctx, open_func, MIR_new_insn_arr (ctx, MIR_CALL, 5, ops));
}

static void modfunc_end (MIR_context_t ctx) {
  MIR_func_t f = open_func->u.func;
  MIR_reg_t r = MIR_reg (ctx, "r", f);
  MIR_op_t rop = MIR_new_reg_op (ctx, r);
  MIR_append_insn (ctx, open_func,
                   MIR_new_insn (ctx, MIR_ADD, rop, rop, MIR_new_int_op (ctx, 1000)));
  MIR_append_insn (ctx, open_func, MIR_new_ret_insn (ctx, 1, rop));
  MIR_finish_func (ctx);
  MIR_new_export (ctx, open_func_name);
  open_func = NULL;
}

static int64_t mem[64];
static void init_mem (long id) {
  for (int i = 0; i < 64; i++) mem[i] = (id * 7919 + i * 31) & 0xffff;
  acc = 0;
}

int main (int argc, char **argv) {
  if (argc < 2) return 2;
  setvbuf (stdout, NULL, _IOLBF, 0);
  char *plan = read_file (argv[1]);
  MIR_context_t ctx = MIR_init ();
  MIR_set_error_func (ctx, err_func);
  MIR_gen_init (ctx);
  MIR_module_t last_loaded = NULL;
  char *save = NULL;
  for (char *line = strtok_r (plan, "\n", &save); line != NULL; line = strtok_r (NULL, "\n", &save)) {
    char *w[6];
    int n = 0;
    char *save2 = NULL;
    for (char *t = strtok_r (line, " ", &save2); t != NULL && n < 6; t = strtok_r (NULL, " ", &save2))
      w[n++] = t;
    if (n == 0) continue;
    if (strcmp (w[0], "OPT") == 0 && n == 2) {
      MIR_gen_set_optimize_level (ctx, (unsigned) atoi (w[1]));
    } else if (strcmp (w[0], "SCAN") == 0 && n == 2) {
      phase = "scan";
      char *text = read_file (w[1]);
      MIR_scan_string (ctx, text);
      free (text);
    } else if (strcmp (w[0], "LOADLINK") == 0 && n == 2) {
      phase = "load";
      MIR_module_t m = last_loaded == NULL ? DLIST_HEAD (MIR_module_t, *MIR_get_module_list (ctx))
                                           : DLIST_NEXT (MIR_module_t, last_loaded);
      for (; m != NULL; m = DLIST_NEXT (MIR_module_t, m)) {
        MIR_load_module (ctx, m);
        last_loaded = m;
      }
      phase = "link";
      if (strcmp (w[1], "gen") == 0)
        MIR_link (ctx, MIR_set_gen_interface, resolver);
      else if (strcmp (w[1], "lazy") == 0)
        MIR_link (ctx, MIR_set_lazy_gen_interface, resolver);
      else if (strcmp (w[1], "lazybb") == 0)
        MIR_link (ctx, MIR_set_lazy_bb_gen_interface, resolver);
      else
        MIR_link (ctx, MIR_set_interp_interface, resolver);
      printf ("LINKED %s\n", w[1]);
      phase = "run";
    } else if (strcmp (w[0], "RELOADLINK") == 0 && n == 2) {
      phase = "reload";
      for (MIR_module_t m = DLIST_HEAD (MIR_module_t, *MIR_get_module_list (ctx)); m != NULL && last_loaded != NULL;
           m = DLIST_NEXT (MIR_module_t, m)) {
        MIR_load_module (ctx, m);
        if (m == last_loaded) break;
      }
      phase = "relink";
      if (strcmp (w[1], "gen") == 0)
        MIR_link (ctx, MIR_set_gen_interface, resolver);
      else if (strcmp (w[1], "lazy") == 0)
        MIR_link (ctx, MIR_set_lazy_gen_interface, resolver);
      else if (strcmp (w[1], "lazybb") == 0)
        MIR_link (ctx, MIR_set_lazy_bb_gen_interface, resolver);
      else
        MIR_link (ctx, MIR_set_interp_interface, resolver);
      printf ("RELINKED %s\n", w[1]);
      phase = "run";
    } else if ((strcmp (w[0], "SNAP") == 0 || strcmp (w[0], "CHECKTEXT") == 0) && n == 2) {
      int snap = w[0][0] == 'S', changed = 0, total = 0;
      for (MIR_module_t m = DLIST_HEAD (MIR_module_t, *MIR_get_module_list (ctx)); m != NULL;
           m = DLIST_NEXT (MIR_module_t, m)) {
        if (last_loaded == NULL) break;
        for (MIR_item_t it = DLIST_HEAD (MIR_item_t, m->items); it != NULL;
             it = DLIST_NEXT (MIR_item_t, it)) {
          if (it->item_type != MIR_func_item) continue;
          size_t len;
          char *t = item_text (ctx, it, &len);
          struct finfo *fi = find_info (it);
          total++;
          if (snap) printf ("T %s %s %016llx\n", w[1], it->u.func->name, (unsigned long long) fnv (t, len));
          if (fi->text0 == NULL) {
            fi->text0 = t;
          } else {
            if (strcmp (fi->text0, t) != 0) {
              changed++;
              printf ("CHANGED %s %s BEFORE ", w[1], it->u.func->name);
              out_escaped (fi->text0);
              printf (" AFTER ");
              out_escaped (t);
              printf ("\n");
            }
            free (t);
          }
        }
        if (m == last_loaded) break;
      }
      printf ("CT %s total=%d changed=%d\n", w[1], total, changed);
    } else if (strcmp (w[0], "GEN") == 0 && n == 2) {
      MIR_item_t it = find_func (ctx, w[1]);
      if (it == NULL)
        printf ("NOFUNC %s\n", w[1]);
      else
        do_gen (ctx, it);
    } else if (strcmp (w[0], "GENALL") == 0) {
      for (MIR_module_t m = DLIST_HEAD (MIR_module_t, *MIR_get_module_list (ctx)); m != NULL;
           m = DLIST_NEXT (MIR_module_t, m)) {
        if (last_loaded == NULL) break;
        for (MIR_item_t it = DLIST_HEAD (MIR_item_t, m->items); it != NULL;
             it = DLIST_NEXT (MIR_item_t, it))
          if (it->item_type == MIR_func_item) do_gen (ctx, it);
        if (m == last_loaded) break;
      }
    } else if ((strcmp (w[0], "INTERP") == 0 || strcmp (w[0], "CALL") == 0) && n == 4) {
      MIR_item_t it = find_func (ctx, w[2]);
      long id = atol (w[1]);
      int64_t narg = atoll (w[3]), res;
      if (it == NULL) {
        printf ("NOFUNC %s\n", w[2]);
        continue;
      }
      init_mem (id);
      if (w[0][0] == 'I') {
        MIR_val_t r, a[2];
        a[0].i = (int64_t) (intptr_t) mem;
        a[1].i = narg;
        r.i = 0;
        MIR_interp_arr (ctx, it, &r, 2, a);
        res = r.i;
      } else {
        res = ((int64_t (*) (int64_t *, int64_t)) it->addr) (mem, narg);
      }
      printf ("R %s %s %s %s %lld %016llx %lld\n", w[1], w[0][0] == 'I' ? "interp" : "call", w[2],
              w[3], (long long) res, (unsigned long long) fnv ((char *) mem, sizeof (mem)),
              (long long) acc);
    } else if (strcmp (w[0], "MODBEGIN") == 0 && n >= 3) {
      phase = "build-module";
      MIR_type_t res = MIR_T_I64;
      MIR_var_t args[2];
      memset (args, 0, sizeof (args));
      args[0].type = MIR_T_I64;
      args[0].name = "p";
      args[1].type = MIR_T_I64;
      args[1].name = "n";
      open_mod = MIR_new_module (ctx, w[1]);
      n_open_imports = 0;
      for (int i = 2; i < n; i++) {
        snprintf (open_imports[n_open_imports].name, 64, "%s", w[i]);
        open_imports[n_open_imports++].item = MIR_new_import (ctx, w[i]);
      }
      open_proto = MIR_new_proto_arr (ctx, "p_ii", 1, &res, 2, args);
      phase = "run";
    } else if (strcmp (w[0], "MODFUNC") == 0 && n == 3) {
      phase = "build-module";
      modfunc_begin (ctx, w[1], w[2]);
      modfunc_end (ctx);
      phase = "run";
    } else if (strcmp (w[0], "MODFUNCBEGIN") == 0 && n == 3) {
      phase = "build-module";
      modfunc_begin (ctx, w[1], w[2]);
      phase = "run";
    } else if (strcmp (w[0], "MODFUNCEND") == 0) {
      phase = "build-module";
      modfunc_end (ctx);
      phase = "run";
    } else if (strcmp (w[0], "APIMOD") == 0 && n == 5) {
      phase = "build-module";
      MIR_type_t res = MIR_T_I64;
      MIR_var_t args[2];
      memset (args, 0, sizeof (args));
      args[0].type = MIR_T_I64;
      args[0].name = "p";
      args[1].type = MIR_T_I64;
      args[1].name = "n";
      MIR_new_module (ctx, w[1]);
      MIR_item_t fi = MIR_new_func_arr (ctx, w[2], 1, &res, 2, args);
      MIR_func_t f = fi->u.func;
      MIR_op_t r1 = MIR_new_reg_op (ctx, MIR_new_func_reg (ctx, f, MIR_T_I64, w[3]));
      MIR_op_t r2 = MIR_new_reg_op (ctx, MIR_new_func_reg (ctx, f, MIR_T_I64, w[4]));
      MIR_op_t nn = MIR_new_reg_op (ctx, MIR_reg (ctx, "n", f));
      MIR_append_insn (ctx, fi, MIR_new_insn (ctx, MIR_ADD, r1, nn, MIR_new_int_op (ctx, 1)));
      MIR_append_insn (ctx, fi, MIR_new_insn (ctx, MIR_MOV, r2, r1));
      MIR_append_insn (ctx, fi, MIR_new_insn (ctx, MIR_ADD, r1, r1, MIR_new_int_op (ctx, 100)));
      MIR_append_insn (ctx, fi, MIR_new_insn (ctx, MIR_ADD, r2, r2, r1));
      MIR_append_insn (ctx, fi, MIR_new_ret_insn (ctx, 1, r2));
      MIR_finish_func (ctx);
      MIR_new_export (ctx, w[2]);
      MIR_finish_module (ctx);
      phase = "run";
    } else if (strcmp (w[0], "MODEND") == 0) {
      phase = "build-module";
      MIR_finish_module (ctx);
      char *buf = NULL;
      size_t len;
      FILE *f = open_memstream (&buf, &len);
      MIR_output_module (ctx, f, open_mod);
      fclose (f);
      printf ("MT %s ", open_mod->name);
      out_escaped (buf);
      printf ("\n");
      free (buf);
      open_mod = NULL;
      phase = "run";
    } else {
      printf ("BADPLAN %s\n", w[0]);
    }
  }
  phase = "finish";
  for (int i = 0; i < nfuncs; i++) free (funcs[i].text0);
  MIR_gen_finish (ctx);
  MIR_finish (ctx);
  free (plan);
  printf ("DONE\n");
  return 0;
}
