/* C06 harness driver: runs MIR functions as C-ABI callees through the assembly trampoline.
   Single translation unit with the repository's mir.c and mir-gen.c (static functions and the
   generator's internal state are reachable without touching /repo).

   usage:  c06_harness run <batch.so> <iface,iface,...> [case-id]
           c06_harness unit            (stdin: one query per line, see unit_mode)
   ifaces: interp gen0 gen1 gen2 gen3 lazy lazybb */
#define _GNU_SOURCE
#include <stdarg.h>
#include "mir-gen.c" /* the generator's statics and internal state; mir.c is linked as a second unit */
#include <dlfcn.h>
#include <setjmp.h>
#include "c06_env.h"

/* defined (non-static) in mir-x86_64.c, which mir.c includes; the layout is the psABI va_list */
struct x86_64_va_list {
  uint32_t gp_offset, fp_offset;
  uint64_t *overflow_arg_area, *reg_save_area;
};
extern void *va_arg_builtin (void *p, uint64_t t);
extern void va_block_arg_builtin (void *res, void *p, size_t s, uint64_t ncase);

extern void c06_tramp (void);
extern uint64_t c06_raw_call (const uint64_t *, const uint64_t *, const uint64_t *, long, long);
extern int64_t c06_ext (int64_t);
extern void *c06_target;
extern uint64_t c06_pat[6];
extern struct c06_obs c06_obs;
extern uint64_t c06_ext_mis, c06_ext_calls, c06_pop_x87;

_Static_assert (offsetof (struct c06_obs, ret_rax) == 128 && sizeof (struct c06_obs) == 256,
                "c06_obs layout is used literally in c06_call.S");
uint8_t c06_out[C06_OUT_SIZE] __attribute__ ((aligned (16)));
uint64_t c06_tab[64];
static uint8_t res_buf[64] __attribute__ ((aligned (16)));

static jmp_buf err_jmp;
static char err_msg[300];
static void err_func (MIR_error_type_t t, const char *format, ...) {
  va_list ap;
  int n = snprintf (err_msg, sizeof (err_msg), "%d:", (int) t);
  va_start (ap, format);
  vsnprintf (err_msg + n, sizeof (err_msg) - n, format, ap);
  va_end (ap);
  for (char *p = err_msg; *p; p++)
    if (*p == ' ' || *p == '\n') *p = '_';
  longjmp (err_jmp, 1);
}

static void hex (const uint8_t *p, size_t n) {
  for (size_t i = 0; i < n; i++) printf ("%02x", p[i]);
}

static const uint64_t PAT[6] = {0x1b1b1b1b5a5a0001ull, 0x2b2b2b2b5a5a0002ull, 0x3c3c3c3c5a5a0003ull,
                                0x4d4d4d4d5a5a0004ull, 0x5e5e5e5e5a5a0005ull, 0x6f6f6f6f5a5a0006ull};

static int run_one (struct c06_case *c, const char *iface, struct c06_env *env, int out_len, int flags) {
  MIR_context_t ctx = MIR_init ();
  int genp = strcmp (iface, "interp") != 0;
  char *dbg_buf = NULL;
  size_t dbg_len = 0;
  FILE *dbg = NULL;
  MIR_item_t func_item = NULL;

  printf ("B %d %s\n", c->id, iface);
  fflush (stdout);
  if (setjmp (err_jmp)) {
    printf ("R %d %s error=%s\n", c->id, iface, err_msg);
    fflush (stdout);
    return 1; /* context is abandoned (the process is short-lived) */
  }
  MIR_set_error_func (ctx, err_func);
  if (genp) {
    MIR_gen_init (ctx);
    MIR_gen_set_optimize_level (ctx, iface[0] == 'g' ? (unsigned) (iface[3] - '0') : 2);
    dbg = open_memstream (&dbg_buf, &dbg_len);
    MIR_gen_set_debug_file (ctx, dbg);
    MIR_gen_set_debug_level (ctx, 0);
  }
  MIR_scan_string (ctx, c->mir);
  for (MIR_module_t m = DLIST_HEAD (MIR_module_t, *MIR_get_module_list (ctx)); m != NULL;
       m = DLIST_NEXT (MIR_module_t, m)) {
    for (MIR_item_t it = DLIST_HEAD (MIR_item_t, m->items); it != NULL; it = DLIST_NEXT (MIR_item_t, it))
      if (it->item_type == MIR_func_item && strcmp (it->u.func->name, c->fname) == 0) func_item = it;
    MIR_load_module (ctx, m);
  }
  MIR_load_external (ctx, "c06_out", c06_out);
  MIR_load_external (ctx, "c06_tab", c06_tab);
  MIR_load_external (ctx, "c06_ext", c06_ext);
  if (func_item == NULL) {
    printf ("R %d %s error=no-function\n", c->id, iface);
    return 1;
  }
  if (!genp)
    MIR_link (ctx, MIR_set_interp_interface, NULL);
  else if (strcmp (iface, "lazy") == 0)
    MIR_link (ctx, MIR_set_lazy_gen_interface, NULL);
  else if (strcmp (iface, "lazybb") == 0)
    MIR_link (ctx, MIR_set_lazy_bb_gen_interface, NULL);
  else
    MIR_link (ctx, MIR_set_gen_interface, NULL);
  memset (c06_out, 0xA5, sizeof (c06_out));
  memset (res_buf, 0xA5, sizeof (res_buf));
  memset (&c06_obs, 0, sizeof (c06_obs));
  memcpy (c06_pat, PAT, sizeof (PAT));
  c06_ext_mis = c06_ext_calls = 0;
  __asm__ volatile ("fninit"); /* every call starts from an empty x87 stack: a leak is charged to the case that leaks */
  c06_target = func_item->addr;
  c06_pop_x87 = (flags & 2) ? (uint64_t) c->n_ld_res : 0; /* caller typed `void`: trampoline pops st0/st1 */
  c->call (env);
  /* ---- report */
  if (flags & 1) { /* vararg: make the va_list image position independent */
    uint64_t oaa, rsa;
    memcpy (&oaa, c06_out + 40, 8);
    memcpy (&rsa, c06_out + 48, 8);
    oaa -= c06_obs.rsp_before;
    rsa = 0;
    memcpy (c06_out + 40, &oaa, 8);
    memcpy (c06_out + 48, &rsa, 8);
  }
  printf ("R %d %s out=", c->id, iface);
  hex (c06_out, out_len);
  printf (" res=");
  hex (res_buf, 48);
  printf (" ret=");
  hex ((const uint8_t *) &c06_obs.ret_rax, 80);
  printf (" rsp=%lld regs=", (long long) (c06_obs.rsp_after - c06_obs.rsp_before));
  for (int i = 0; i < 6; i++) printf ("%s%llx", i ? "," : "", (unsigned long long) (c06_obs.regs_after[i] ^ PAT[i]));
  {
    uint16_t tw;
    int nonempty = 0;
    memcpy (&tw, c06_obs.fenv_after + 8, 2);
    for (int i = 0; i < 8; i++)
      if (((tw >> (2 * i)) & 3) != 3) nonempty++;
    printf (" mxcsr=%x/%x cw=%x/%x df=%d x87=%d extmis=%llu extcalls=%llu", c06_obs.mxcsr_before & 0xffc0,
            c06_obs.mxcsr_after & 0xffc0, c06_obs.cw_before, c06_obs.cw_after,
            (int) ((c06_obs.flags_after >> 10) & 1), nonempty, (unsigned long long) c06_ext_mis,
            (unsigned long long) c06_ext_calls);
  }
  if (genp && strcmp (iface, "lazybb") != 0) {
    gen_ctx_t gen_ctx = *gen_ctx_loc (ctx);
    unsigned used = 0;
    unsigned long len = 0;
    char *p;
    for (int i = 0; i <= R15_HARD_REG; i++)
      if (bitmap_bit_p (func_used_hard_regs, i)) used |= 1u << i;
    fflush (dbg);
    if (dbg_buf != NULL && (p = strstr (dbg_buf, "len=")) != NULL) len = strtoul (p + 4, NULL, 10);
    printf (" F keepfp=%d alloca=%d leaf=%d blkarg=%d slots=%lu used=%x vararg=%d jret=%d codelen=%lu code=",
            (int) keep_fp_p, (int) alloca_p, (int) leaf_p, (int) block_arg_func_p,
            (unsigned long) func_stack_slots_num, used, (int) func_item->u.func->vararg_p,
            (int) func_item->u.func->jret_p, len);
    if (func_item->u.func->machine_code != NULL && len > 0) /* the prologue is all the check decodes */
      hex ((const uint8_t *) func_item->u.func->machine_code, len > 256 ? 256 : len);
  }
  printf ("\n");
  fflush (stdout);
  if (genp) MIR_gen_finish (ctx);
  MIR_finish (ctx);
  if (dbg != NULL) {
    fclose (dbg);
    free (dbg_buf);
  }
  return 0;
}

/* ---- unit mode: the va_arg builtins on fabricated va_list states --------------------------------
   query:  A <gp> <fp> <type-name>           -> A <area> <offset> <gp'> <fp'> <overflow-advance>
           K <gp> <fp> <size> <ncase>        -> K <nwords> <area:off>... <gp'> <fp'> <overflow-advance>
   The register save area and the overflow area are filled with byte patterns that encode their own
   offset, so the source of every copied eightbyte is identified from the data alone. */
static uint64_t save_area[64], over_area[64];
static void unit_mode (void) {
  char line[256], tn[32];
  for (int i = 0; i < 64; i++) {
    save_area[i] = 0x11115A0000ull | (uint64_t) (i * 8); /* bytes: off_lo off_hi tag ... */
    over_area[i] = 0x22220F0000ull | (uint64_t) (i * 8);
  }
  while (fgets (line, sizeof (line), stdin) != NULL) {
    struct x86_64_va_list va;
    unsigned gp, fp;
    unsigned long size, ncase;
    if (sscanf (line, "A %u %u %31s", &gp, &fp, tn) == 3) {
      MIR_type_t t = strcmp (tn, "d") == 0    ? MIR_T_D
                     : strcmp (tn, "f") == 0  ? MIR_T_F
                     : strcmp (tn, "ld") == 0 ? MIR_T_LD
                     : strcmp (tn, "i32") == 0 ? MIR_T_I32
                     : strcmp (tn, "p") == 0  ? MIR_T_P
                                              : MIR_T_I64;
      va.gp_offset = gp;
      va.fp_offset = fp;
      va.overflow_arg_area = over_area;
      va.reg_save_area = save_area;
      char *a = va_arg_builtin (&va, t);
      if (a >= (char *) save_area && a < (char *) (save_area + 64))
        printf ("A r %ld", (long) (a - (char *) save_area));
      else
        printf ("A o %ld", (long) (a - (char *) over_area));
      printf (" %u %u %ld\n", va.gp_offset, va.fp_offset, (long) ((char *) va.overflow_arg_area - (char *) over_area));
    } else if (sscanf (line, "K %u %u %lu %lu", &gp, &fp, &size, &ncase) == 4 && size <= 64) {
      uint64_t dst[9];
      memset (dst, 0, sizeof (dst));
      va.gp_offset = gp;
      va.fp_offset = fp;
      va.overflow_arg_area = over_area;
      va.reg_save_area = save_area;
      va_block_arg_builtin (dst, &va, size, ncase);
      printf ("K %lu", (size + 7) / 8);
      for (unsigned long i = 0; i < (size + 7) / 8; i++) {
        size_t nb = size - 8 * i >= 8 ? 8 : size - 8 * i; /* callers keep partial words >= 3 bytes */
        int found = 0;
        for (int j = 0; j < 64 && !found; j++) {
          if (memcmp (&save_area[j], &dst[i], nb) == 0)
            printf (" r:%d", j * 8), found = 1;
          else if (memcmp (&over_area[j], &dst[i], nb) == 0)
            printf (" o:%d", j * 8), found = 1;
        }
        if (!found) printf (" ?:%llx", (unsigned long long) dst[i]);
      }
      printf (" %u %u %ld\n", va.gp_offset, va.fp_offset, (long) ((char *) va.overflow_arg_area - (char *) over_area));
    } else {
      printf ("? %s", line);
    }
  }
}

int main (int argc, char **argv) {
  if (argc >= 2 && strcmp (argv[1], "unit") == 0) {
    unit_mode ();
    return 0;
  }
  if (argc < 4 || strcmp (argv[1], "run") != 0) {
    fprintf (stderr, "usage: c06_harness run <batch.so> <ifaces> [case-id] | unit\n");
    return 2;
  }
  void *h = dlopen (argv[2], RTLD_NOW);
  if (h == NULL) {
    fprintf (stderr, "dlopen: %s\n", dlerror ());
    return 2;
  }
  struct c06_case *cases = dlsym (h, "c06_cases");
  int *ncases = dlsym (h, "c06_ncases"), *out_lens = dlsym (h, "c06_out_lens"), *flags = dlsym (h, "c06_flags");
  uint64_t *tab = dlsym (h, "c06_tab_init");
  if (cases == NULL || ncases == NULL || out_lens == NULL || flags == NULL || tab == NULL) {
    fprintf (stderr, "batch lacks symbols\n");
    return 2;
  }
  memcpy (c06_tab, tab, sizeof (c06_tab));
  struct c06_env env = {c06_tramp, res_buf, c06_raw_call};
  int only = argc >= 5 ? atoi (argv[4]) : -1;
  char *ifaces = strdup (argv[3]);
  for (int i = 0; i < *ncases; i++) {
    if (only >= 0 && cases[i].id != only) continue;
    char *copy = strdup (ifaces), *save = NULL;
    for (char *ifc = strtok_r (copy, ",", &save); ifc != NULL; ifc = strtok_r (NULL, ",", &save))
      run_one (&cases[i], ifc, &env, out_lens[i], flags[i]);
    free (copy);
  }
  printf ("END\n");
  return 0;
}
