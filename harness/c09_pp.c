/* C09 harness: drives c2mir's preprocessor in-process and reports the *token sequence*
   (the `-E` text output glues adjacent tokens, so token boundaries are invisible there).

   c2mir.c is included into this translation unit so that its static functions are reachable.
   Two passes are made over every case:
     1. token pass : identical to c2mir_compile(...prepro_only_p...) up to and including `pre`,
        except that the per-token output callback `pre_out_token_func` is ours (the six
        statements of `pre` are repeated below; everything that does the work -- `processing`,
        `process_directive`, `eval_expr`, `process_replacement`, ... -- is /repo's code);
     2. text pass  : the unmodified public entry c2mir_compile with prepro_only_p writing to a
        memory stream.  The harness checks that the text, with white space and `#line` lines
        removed, is the concatenation of the pass-1 token spellings (XCHK line), which ties the
        duplicated statements of `pre` and `pre_text_out` to what `c2m -E` really prints.

   Input  (file argv[1]):  cases separated by lines  "@@CASE <id>" ; the text after it is the
                           C source of the case.
   Output (stdout):        CASE <id>
                           T <hex of spelling>        one line per non-white token of the case file
                           ERR <number of errors reported by c2mir>
                           XCHK ok|bad
                           TXT <hex of the `-E` text of the case file, `#line` lines removed>
                           END
*/
#ifdef C09_C2MIR_C /* a copy of c2mir.c with a candidate repair applied (classification only) */
#include C09_C2MIR_C
#else
#include "c2mir/c2mir.c"
#endif
#include <stdio.h>
#include <stdlib.h>
#include <string.h>

static const char *c09_src;
static size_t c09_pos, c09_len;
static int c09_getc (void *data) {
  (void) data;
  return c09_pos < c09_len ? (unsigned char) c09_src[c09_pos++] : EOF;
}

static const char *c09_name = "case.c";
static char *c09_cat;
static size_t c09_cat_len, c09_cat_cap;

static void c09_cat_add (const char *s) {
  for (; *s; s++) {
    if (*s == ' ' || *s == '\t' || *s == '\n' || *s == '\r' || *s == '\f' || *s == '\v') continue;
    if (c09_cat_len + 2 > c09_cat_cap) {
      c09_cat_cap = c09_cat_cap ? 2 * c09_cat_cap : 4096;
      c09_cat = realloc (c09_cat, c09_cat_cap);
    }
    c09_cat[c09_cat_len++] = *s;
  }
  if (c09_cat != NULL) c09_cat[c09_cat_len] = 0;
}

static void c09_token_out (c2m_ctx_t c2m_ctx, token_t t) {
  (void) c2m_ctx;
  if (t == NULL) return;
  if (t->code == ' ' || t->code == '\n') return;
  if (t->pos.fname == NULL || strcmp (t->pos.fname, c09_name) != 0) return; /* <environment> */
  printf ("T ");
  for (const unsigned char *s = (const unsigned char *) t->repr; *s; s++) printf ("%02x", *s);
  printf ("\n");
  c09_cat_add (t->repr);
}

/* pass 1: c2mir_compile up to the end of `pre`, with our token callback */
static int c09_tokens (MIR_context_t ctx, struct c2mir_options *ops) {
  struct c2m_ctx *c2m_ctx = *c2m_ctx_loc (ctx);
  int nerr;

  if (setjmp (c2m_ctx->env)) {
    nerr = n_errors == 0 ? 1 : (int) n_errors;
    compile_finish (c2m_ctx);
    return nerr;
  }
  compile_init (c2m_ctx, ops, c09_getc, NULL);
  add_stream (c2m_ctx, NULL, c09_name, top_level_getc);
  if (!c2m_options->no_prepro_p) add_standard_includes (c2m_ctx);
  {
    pre_ctx_t pre_ctx = c2m_ctx->pre_ctx;
    /* the body of `pre` (c2mir.c) with pre_out_token_func replaced */
    pre_last_token = NULL;
    actual_pre_pos.fname = NULL;
    actual_pre_pos.lno = 0;
    actual_pre_pos.ln_pos = 0;
    pre_out_token_func = c09_token_out;
    pptokens_num = 0;
    VARR_TRUNC (char_ptr_t, once_include_files, 0);
    processing (c2m_ctx, FALSE);
    pre_out_token_func (c2m_ctx, NULL);
  }
  nerr = (int) n_errors;
  compile_finish (c2m_ctx);
  return nerr;
}

static void c09_hex (const char *tag, const char *s, size_t n) {
  printf ("%s ", tag);
  if (n == 0) printf ("-");
  for (size_t i = 0; i < n; i++) printf ("%02x", (unsigned char) s[i]);
  printf ("\n");
}

/* --strings file : one hex-encoded byte string per line; prints
     S <stringify (s)>   D <destringify (stringify (s))>   R <destringify (s)>
   using /repo's static functions `stringify` and `destringify` (c2mir.c:1778-1800) */
static int c09_strings (const char *fname) {
  FILE *f = fopen (fname, "r");
  char line[4096], buf[2048];
  MIR_context_t ctx = MIR_init ();
  MIR_alloc_t alloc = MIR_get_alloc (ctx);
  VARR (char) * v1, *v2;

  if (!f) return 2;
  VARR_CREATE (char, v1, alloc, 64);
  VARR_CREATE (char, v2, alloc, 64);
  while (fgets (line, sizeof (line), f)) {
    size_t n = 0;
    for (char *p = line; p[0] && p[1] && p[0] != '\n' && p[0] != '-'; p += 2) {
      unsigned x;
      sscanf (p, "%2x", &x);
      buf[n++] = (char) x;
    }
    buf[n] = 0;
    stringify (buf, v1);
    c09_hex ("S", VARR_ADDR (char, v1), VARR_LENGTH (char, v1));
    VARR_PUSH (char, v1, 0);
    destringify (VARR_ADDR (char, v1), v2);
    c09_hex ("D", VARR_ADDR (char, v2), VARR_LENGTH (char, v2));
    destringify (buf, v2);
    c09_hex ("R", VARR_ADDR (char, v2), VARR_LENGTH (char, v2));
  }
  return 0;
}

int main (int argc, char **argv) {
  if (argc >= 3 && strcmp (argv[1], "--strings") == 0) return c09_strings (argv[2]);
  if (argc < 2) {
    fprintf (stderr, "usage: c09_pp cases-file\n");
    return 2;
  }
  FILE *f = fopen (argv[1], "rb");
  if (!f) {
    perror (argv[1]);
    return 2;
  }
  fseek (f, 0, SEEK_END);
  long n = ftell (f);
  fseek (f, 0, SEEK_SET);
  char *buf = malloc (n + 2);
  if (fread (buf, 1, n, f) != (size_t) n) return 2;
  buf[n] = 0;
  fclose (f);
  FILE *msg = fopen ("/dev/null", "w");
  char *p = buf;
  while (p && *p) {
    if (strncmp (p, "@@CASE ", 7) != 0) {
      p = strchr (p, '\n');
      if (p) p++;
      continue;
    }
    char *idl = p + 7;
    char *eol = strchr (idl, '\n');
    if (!eol) break;
    *eol = 0;
    char *src = eol + 1;
    char *next = strstr (src, "\n@@CASE ");
    size_t len = next ? (size_t) (next + 1 - src) : strlen (src);
    printf ("CASE %s\n", idl);
    c09_src = src;
    c09_len = len;
    c09_cat_len = 0;
    if (c09_cat) c09_cat[0] = 0;

    struct c2mir_options ops;
    memset (&ops, 0, sizeof (ops));
    ops.message_file = msg;
    ops.prepro_only_p = TRUE;
    ops.prepro_output_file = msg;
    MIR_context_t ctx = MIR_init ();
    c2mir_init (ctx);
    c09_pos = 0;
    int nerr = c09_tokens (ctx, &ops);
    printf ("ERR %d\n", nerr);
    /* pass 2: the public entry, text output */
    char *text = NULL;
    size_t text_len = 0;
    FILE *mem = open_memstream (&text, &text_len);
    ops.prepro_output_file = mem;
    c09_pos = 0;
    c2mir_compile (ctx, &ops, c09_getc, NULL, c09_name, NULL);
    fclose (mem);
    c2mir_finish (ctx);
    MIR_finish (ctx);
    /* strip "#line ..." lines, the <environment> part and white space, compare */
    {
      char *q = text, *out = text;
      char *raw = malloc (text_len + 2), *rp = raw;
      int in_case = 0;
      while (q && *q) {
        char *e = strchr (q, '\n');
        size_t l = e ? (size_t) (e - q) : strlen (q);
        char *s = q;
        while (s < q + l && *s == ' ') s++;
        if (strncmp (s, "#line ", 6) == 0) {
          char *qq = memchr (s, '"', l - (s - q));
          if (qq) in_case = strncmp (qq + 1, c09_name, strlen (c09_name)) == 0;
        } else if (in_case) {
          memcpy (rp, q, l); /* before squeezing: `out` never passes `q` */
          rp += l;
          *rp++ = '\n';
          for (size_t i = 0; i < l; i++)
            if (q[i] != ' ' && q[i] != '\t') *out++ = q[i];
        }
        q = e ? e + 1 : NULL;
      }
      *out = 0;
      int ok = strcmp (text, c09_cat ? c09_cat : "") == 0;
      printf ("XCHK %s\n", ok ? "ok" : "bad");
      if (!ok && getenv ("C09_DEBUG")) fprintf (stderr, "text=[%s]\ncat =[%s]\n", text, c09_cat ? c09_cat : "");
      printf ("TXT ");
      for (char *r = raw; r < rp; r++) printf ("%02x", (unsigned char) *r);
      printf ("\n");
      free (raw);
    }
    free (text);
    printf ("END\n");
    fflush (stdout);
    p = next ? next + 1 : NULL;
  }
  return 0;
}
