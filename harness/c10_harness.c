/* C10 harness: builds MIR modules through the public API from a line-protocol description, writes
   them with MIR_output, reads the text back with MIR_scan_string in fresh contexts, re-writes it,
   and (optionally) interprets functions of the original and of the re-read module.

   c10_harness build  < cases      description cases  -> text1 / scan verdict / text2 / text3 / runs
   c10_harness scan   < texts      framed texts       -> scan verdict / re-written text
   c10_harness table               the instruction table of the tree (name, nops, predicates)
   c10_harness float  < lines      libc printf("%.*e") / strto{f,d,ld} on given values

   Every case runs in a forked child, so a crash of the library (e.g. the writer running off an
   `expr` item) is reported as a line and does not end the batch.  mir.c is included textually to
   reach the static tables; nothing in the repository is modified. */
#define _GNU_SOURCE
#include "mir.c"
#include <setjmp.h>
#include <signal.h>
#include <sys/wait.h>
#include <sys/resource.h>
#include <unistd.h>

static jmp_buf err_jb;
static char err_msg[600];
static int err_type;

static void MIR_NO_RETURN on_error (MIR_error_type_t t, const char *fmt, ...) {
  va_list ap;
  va_start (ap, fmt);
  vsnprintf (err_msg, sizeof (err_msg), fmt, ap);
  va_end (ap);
  err_type = (int) t;
  for (char *p = err_msg; *p; p++)
    if (*p == '\n' || *p == '\r') *p = '|';
  longjmp (err_jb, 1);
}

static const char *err_name (int t) {
  switch (t) {
  case MIR_syntax_error: return "syntax";
  case MIR_alloc_error: return "alloc";
  default: return "api";
  }
}

/* ---------- small parsing helpers ---------- */
static int hexv (int c) { return c <= '9' ? c - '0' : (c | 32) - 'a' + 10; }

/* decode a name token (plain or ~hex) into a fresh NUL-terminated buffer */
static char *dec_name (const char *s) {
  if (s[0] != '~') return strdup (s);
  size_t n = strlen (s + 1) / 2;
  char *r = malloc (n + 1);
  for (size_t i = 0; i < n; i++) r[i] = (char) (hexv (s[1 + 2 * i]) * 16 + hexv (s[2 + 2 * i]));
  r[n] = 0;
  return r;
}
static char *opt_name (const char *s) { return strcmp (s, "-") == 0 ? NULL : dec_name (s); }

static size_t dec_hex (const char *s, char **out) {
  size_t n = strlen (s) / 2;
  char *r = malloc (n + 1);
  for (size_t i = 0; i < n; i++) r[i] = (char) (hexv (s[2 * i]) * 16 + hexv (s[2 * i + 1]));
  r[n] = 0;
  *out = r;
  return n;
}

static MIR_type_t ty_of (const char *s) {
  MIR_type_t t = str2type (s);
  if (t == MIR_T_BOUND) {
    fprintf (stderr, "bad type %s\n", s);
    exit (3);
  }
  return t;
}

static unsigned __int128 hex128 (const char *s) {
  unsigned __int128 v = 0;
  for (; *s; s++) v = v * 16 + (unsigned) hexv (*s);
  return v;
}

#define MAXW 4096
static int split (char *line, char **w) {
  int n = 0;
  for (char *p = strtok (line, " \n"); p != NULL && n < MAXW; p = strtok (NULL, " \n")) w[n++] = p;
  return n;
}

static int split_colon (char *s, char **f, int max) {
  int n = 0;
  f[n++] = s;
  for (char *p = s; *p; p++)
    if (*p == ':' && n < max) {
      *p = 0;
      f[n++] = p + 1;
    }
  return n;
}

/* ---------- building ---------- */
static MIR_label_t *hl_labels;
static size_t hl_nlabels;

static MIR_label_t get_label (MIR_context_t ctx, size_t n) {
  /* label numbers of the description are the numbers MIR_new_label hands out: create on demand in
     increasing order so that label n really carries number n */
  while (hl_nlabels < n) {
    hl_labels = realloc (hl_labels, (hl_nlabels + 1) * sizeof (MIR_label_t));
    hl_labels[hl_nlabels] = MIR_new_label (ctx);
    hl_nlabels++;
  }
  if (n == 0) { /* label 0 cannot be created through the API */
    fprintf (stderr, "label 0\n");
    exit (3);
  }
  return hl_labels[n - 1];
}

static MIR_item_t find_item (MIR_context_t ctx, MIR_module_t m, const char *name) {
  MIR_item_t res = NULL, weak = NULL;
  for (MIR_item_t it = DLIST_HEAD (MIR_item_t, m->items); it != NULL; it = DLIST_NEXT (MIR_item_t, it)) {
    const char *n = MIR_item_name (ctx, it);
    if (n == NULL || strcmp (n, name) != 0) continue;
    if (it->item_type == MIR_export_item || it->item_type == MIR_forward_item)
      weak = it;
    else
      res = it;
  }
  return res != NULL ? res : weak;
}

static MIR_op_t parse_op (MIR_context_t ctx, MIR_module_t m, MIR_item_t func, char *s) {
  char *f[10];
  int n = split_colon (s, f, 10);
  if (strcmp (f[0], "r") == 0) return MIR_new_reg_op (ctx, MIR_reg (ctx, dec_name (f[1]), func->u.func));
  if (strcmp (f[0], "i") == 0) return MIR_new_int_op (ctx, (int64_t) strtoll (f[1], NULL, 10));
  if (strcmp (f[0], "u") == 0) return MIR_new_uint_op (ctx, strtoull (f[1], NULL, 10));
  if (strcmp (f[0], "f") == 0) {
    uint32_t b = (uint32_t) strtoul (f[1], NULL, 16);
    float v;
    memcpy (&v, &b, 4);
    return MIR_new_float_op (ctx, v);
  }
  if (strcmp (f[0], "d") == 0) {
    uint64_t b = strtoull (f[1], NULL, 16);
    double v;
    memcpy (&v, &b, 8);
    return MIR_new_double_op (ctx, v);
  }
  if (strcmp (f[0], "ld") == 0) {
    unsigned __int128 b = hex128 (f[1]);
    long double v = 0;
    memcpy (&v, &b, 10);
    return MIR_new_ldouble_op (ctx, v);
  }
  if (strcmp (f[0], "ref") == 0) {
    char *nm = dec_name (f[1]);
    MIR_item_t it = find_item (ctx, m, nm);
    if (it == NULL) {
      fprintf (stderr, "unknown item %s\n", nm);
      exit (3);
    }
    return MIR_new_ref_op (ctx, it);
  }
  if (strcmp (f[0], "s") == 0) {
    char *b;
    size_t len = n > 1 ? dec_hex (f[1], &b) : 0;
    return MIR_new_str_op (ctx, (MIR_str_t){len, n > 1 ? b : ""});
  }
  if (strcmp (f[0], "l") == 0) return MIR_new_label_op (ctx, get_label (ctx, strtoul (f[1], NULL, 10)));
  if (strcmp (f[0], "m") == 0 && n == 8) {
    MIR_type_t t = ty_of (f[1]);
    int64_t disp = (int64_t) strtoll (f[2], NULL, 10);
    MIR_reg_t base = strcmp (f[3], "-") == 0 ? 0 : MIR_reg (ctx, dec_name (f[3]), func->u.func);
    MIR_reg_t index = strcmp (f[4], "-") == 0 ? 0 : MIR_reg (ctx, dec_name (f[4]), func->u.func);
    MIR_scale_t scale = (MIR_scale_t) strtoul (f[5], NULL, 10);
    MIR_alias_t al = strcmp (f[6], "-") == 0 ? 0 : MIR_alias (ctx, dec_name (f[6]));
    MIR_alias_t nal = strcmp (f[7], "-") == 0 ? 0 : MIR_alias (ctx, dec_name (f[7]));
    return MIR_new_alias_mem_op (ctx, t, disp, base, index, scale, al, nal);
  }
  fprintf (stderr, "bad operand %s\n", s);
  exit (3);
}

/* `vararg nres res… nargs arg…` starting at w[i] */
static void parse_sig (char **w, int i, int *vararg, size_t *nres, MIR_type_t *res, size_t *nargs,
                       MIR_var_t *args) {
  *vararg = atoi (w[i++]);
  *nres = strtoul (w[i++], NULL, 10);
  for (size_t k = 0; k < *nres; k++) res[k] = ty_of (w[i++]);
  *nargs = strtoul (w[i++], NULL, 10);
  for (size_t k = 0; k < *nargs; k++) {
    char *f[4];
    split_colon (w[i++], f, 4);
    args[k].type = ty_of (f[0]);
    args[k].name = dec_name (f[1]);
    args[k].size = strtoull (f[2], NULL, 10);
  }
}

struct run_req {
  char *fname;
  int nargs;
  int64_t args[8];
};
static struct run_req runs[16];
static int nruns;

/* build everything the description says; returns 0 on success, else err_* are set */
static int build_case (MIR_context_t ctx, char **lines, int nlines) {
  static char *w[MAXW];
  MIR_module_t mod = NULL;
  MIR_item_t func = NULL;
  nruns = 0;
  hl_nlabels = 0;
  if (setjmp (err_jb)) return 1;
  for (int li = 0; li < nlines; li++) {
    char *line = strdup (lines[li]);
    int n = split (line, w);
    if (n == 0) continue;
    const char *k = w[0];
    if (strcmp (k, "labels") == 0) {
      if (strtoul (w[1], NULL, 10) > 0) get_label (ctx, strtoul (w[1], NULL, 10));
    } else if (strcmp (k, "run") == 0) {
      if (nruns < 16) {
        runs[nruns].fname = dec_name (w[1]);
        runs[nruns].nargs = n - 2 > 8 ? 8 : n - 2;
        for (int a = 0; a < runs[nruns].nargs; a++) runs[nruns].args[a] = strtoll (w[2 + a], NULL, 10);
        nruns++;
      }
    } else if (strcmp (k, "module") == 0) {
      mod = MIR_new_module (ctx, dec_name (w[1]));
    } else if (strcmp (k, "endmodule") == 0) {
      MIR_finish_module (ctx);
      mod = NULL;
    } else if (strcmp (k, "export") == 0) {
      MIR_new_export (ctx, dec_name (w[1]));
    } else if (strcmp (k, "import") == 0) {
      MIR_new_import (ctx, dec_name (w[1]));
    } else if (strcmp (k, "forward") == 0) {
      MIR_new_forward (ctx, dec_name (w[1]));
    } else if (strcmp (k, "bss") == 0) {
      MIR_new_bss (ctx, opt_name (w[1]), strtoull (w[2], NULL, 10));
    } else if (strcmp (k, "strdata") == 0) {
      char *b = "";
      size_t len = n > 2 ? dec_hex (w[2], &b) : 0;
      MIR_new_string_data (ctx, opt_name (w[1]), (MIR_str_t){len, b});
    } else if (strcmp (k, "data") == 0) {
      MIR_type_t t = ty_of (w[2]);
      size_t cnt = strtoul (w[3], NULL, 10), sz = _MIR_type_size (ctx, t);
      uint8_t *buf = calloc (cnt + 1, sz);
      for (size_t e = 0; e < cnt; e++) {
        unsigned __int128 v = hex128 (w[4 + e]);
        memcpy (buf + e * sz, &v, sz < 16 ? sz : 16);
      }
      MIR_new_data (ctx, opt_name (w[1]), t, cnt, buf);
    } else if (strcmp (k, "ref") == 0) {
      char *nm = dec_name (w[2]);
      MIR_item_t it = find_item (ctx, mod, nm);
      if (it == NULL) {
        fprintf (stderr, "unknown item %s\n", nm);
        exit (3);
      }
      MIR_new_ref_data (ctx, opt_name (w[1]), it, (int64_t) strtoll (w[3], NULL, 10));
    } else if (strcmp (k, "lref") == 0) {
      MIR_label_t l1 = get_label (ctx, strtoul (w[2], NULL, 10));
      MIR_label_t l2 = strcmp (w[3], "-") == 0 ? NULL : get_label (ctx, strtoul (w[3], NULL, 10));
      MIR_new_lref_data (ctx, opt_name (w[1]), l1, l2, (int64_t) strtoll (w[4], NULL, 10));
    } else if (strcmp (k, "expr") == 0) {
      char *nm = dec_name (w[2]);
      MIR_item_t it = find_item (ctx, mod, nm);
      if (it == NULL) {
        fprintf (stderr, "unknown item %s\n", nm);
        exit (3);
      }
      MIR_new_expr_data (ctx, opt_name (w[1]), it);
    } else if (strcmp (k, "proto") == 0 || strcmp (k, "func") == 0) {
      static MIR_type_t res[MAXW];
      static MIR_var_t args[MAXW];
      int vararg;
      size_t nres, nargs;
      char *nm = dec_name (w[1]);
      parse_sig (w, 2, &vararg, &nres, res, &nargs, args);
      if (k[0] == 'p') {
        if (vararg)
          MIR_new_vararg_proto_arr (ctx, nm, nres, res, nargs, args);
        else
          MIR_new_proto_arr (ctx, nm, nres, res, nargs, args);
      } else {
        func = vararg ? MIR_new_vararg_func_arr (ctx, nm, nres, res, nargs, args)
                      : MIR_new_func_arr (ctx, nm, nres, res, nargs, args);
      }
    } else if (strcmp (k, "local") == 0) {
      MIR_new_func_reg (ctx, func->u.func, ty_of (w[1]), dec_name (w[2]));
    } else if (strcmp (k, "global") == 0) {
      MIR_new_global_func_reg (ctx, func->u.func, ty_of (w[1]), dec_name (w[2]), dec_name (w[3]));
    } else if (strcmp (k, "label") == 0) {
      MIR_append_insn (ctx, func, get_label (ctx, strtoul (w[1], NULL, 10)));
    } else if (strcmp (k, "insn") == 0) {
      static MIR_op_t ops[MAXW];
      insn_name_t in, el;
      in.name = w[1];
      if (!HTAB_DO (insn_name_t, insn_name_tab, in, HTAB_FIND, el)) {
        fprintf (stderr, "unknown insn %s\n", w[1]);
        exit (3);
      }
      size_t cnt = strtoul (w[2], NULL, 10);
      for (size_t o = 0; o < cnt; o++) ops[o] = parse_op (ctx, mod, func, w[3 + o]);
      MIR_append_insn (ctx, func, MIR_new_insn_arr (ctx, el.code, cnt, ops));
    } else if (strcmp (k, "endfunc") == 0) {
      MIR_finish_func (ctx);
      func = NULL;
    } else {
      fprintf (stderr, "bad description line: %s\n", lines[li]);
      exit (3);
    }
  }
  return 0;
}

/* MIR_output into a growing buffer with a hard cap: a writer that runs away (e.g. off the end of an
   `expr` item) must not fill memory or disk */
#define OUTPUT_CAP (32u << 20)
struct capbuf {
  char *p;
  size_t len, cap;
};
static ssize_t cap_write (void *c, const char *buf, size_t n) {
  struct capbuf *b = c;
  if (b->len + n > OUTPUT_CAP) {
    fflush (stdout);
    fputs ("\ncrash output-cap\n", stdout);
    fflush (stdout);
    _exit (0);
  }
  if (b->len + n + 1 > b->cap) {
    b->cap = 2 * (b->len + n + 1);
    b->p = realloc (b->p, b->cap);
  }
  memcpy (b->p + b->len, buf, n);
  b->len += n;
  b->p[b->len] = 0;
  return (ssize_t) n;
}
static char *output_ctx (MIR_context_t ctx, size_t *len) {
  struct capbuf b = {calloc (1, 1), 0, 1};
  cookie_io_functions_t io = {NULL, cap_write, NULL, NULL};
  FILE *f = fopencookie (&b, "w", io);
  MIR_output (ctx, f);
  fclose (f);
  *len = b.len;
  return b.p;
}

static void put_blob (const char *tag, const char *b, size_t len) {
  printf ("%s %zu\n", tag, len);
  fwrite (b, 1, len, stdout);
  printf ("\n");
}

/* module->last_temp_item_num of every module of ctx: not part of the text, but the loader names the
   items it makes for string and floating immediates after it */
static void put_last_temps (const char *tag, MIR_context_t ctx) {
  printf ("%s", tag);
  for (MIR_module_t m = DLIST_HEAD (MIR_module_t, *MIR_get_module_list (ctx)); m != NULL;
       m = DLIST_NEXT (MIR_module_t, m))
    printf (" %lu", (unsigned long) m->last_temp_item_num);
  printf ("\n");
}

/* scan `text` in a fresh context; on success *out is the re-written text. 0 = ok */
static int scan_and_output (const char *text, char **out, size_t *outlen, MIR_context_t *ctxp) {
  MIR_context_t ctx = MIR_init ();
  MIR_set_error_func (ctx, on_error);
  *ctxp = ctx;
  if (setjmp (err_jb)) return 1;
  MIR_scan_string (ctx, text);
  *out = output_ctx (ctx, outlen);
  return 0;
}

static void *no_import (const char *name) {
  (void) name;
  return NULL;
}

/* load + link every module of ctx for the interpreter; 0 = ok */
static int prepare_run (MIR_context_t ctx) {
  if (setjmp (err_jb)) return 1;
  for (MIR_module_t m = DLIST_HEAD (MIR_module_t, *MIR_get_module_list (ctx)); m != NULL;
       m = DLIST_NEXT (MIR_module_t, m))
    MIR_load_module (ctx, m);
  MIR_link (ctx, MIR_set_interp_interface, no_import);
  return 0;
}

static MIR_item_t find_func (MIR_context_t ctx, const char *name) {
  for (MIR_module_t m = DLIST_HEAD (MIR_module_t, *MIR_get_module_list (ctx)); m != NULL;
       m = DLIST_NEXT (MIR_module_t, m))
    for (MIR_item_t it = DLIST_HEAD (MIR_item_t, m->items); it != NULL; it = DLIST_NEXT (MIR_item_t, it))
      if (it->item_type == MIR_func_item && strcmp (it->u.func->name, name) == 0) return it;
  return NULL;
}

static void run_one (MIR_context_t ctx, struct run_req *r, char *out, size_t outsz) {
  MIR_item_t f = find_func (ctx, r->fname);
  if (f == NULL) {
    snprintf (out, outsz, "nofunc");
    return;
  }
  if (setjmp (err_jb)) {
    snprintf (out, outsz, "err %s", err_msg);
    return;
  }
  MIR_val_t vals[8], res[8];
  memset (res, 0, sizeof (res));
  for (int a = 0; a < r->nargs; a++) vals[a].i = r->args[a];
  MIR_interp_arr (ctx, f, res, (size_t) r->nargs, vals);
  size_t pos = 0;
  for (uint32_t k = 0; k < f->u.func->nres && k < 8; k++)
    pos += (size_t) snprintf (out + pos, outsz - pos, "%s%lld", k ? "," : "", (long long) res[k].i);
  if (f->u.func->nres == 0) snprintf (out, outsz, "void");
}

static void do_build_case (char **lines, int nlines) {
  MIR_context_t c1 = MIR_init (), c2 = NULL, c3 = NULL;
  char *t1, *t2 = NULL, *t3 = NULL;
  size_t l1, l2, l3;
  MIR_set_error_func (c1, on_error);
  if (build_case (c1, lines, nlines)) {
    printf ("build err %s %s\n", err_name (err_type), err_msg);
    return;
  }
  printf ("build ok\n");
  fflush (stdout);
  t1 = output_ctx (c1, &l1);
  put_blob ("text1", t1, l1);
  fflush (stdout);
  if (memchr (t1, 0, l1) != NULL) { /* MIR_scan_string takes a C string */
    printf ("scan1 err nul text contains a NUL byte\n");
    return;
  }
  if (scan_and_output (t1, &t2, &l2, &c2)) {
    printf ("scan1 err %s %s\n", err_name (err_type), err_msg);
    return;
  }
  printf ("scan1 ok\n");
  put_blob ("text2", t2, l2);
  put_last_temps ("lasttemp", c2);
  fflush (stdout);
  if (scan_and_output (t2, &t3, &l3, &c3)) {
    printf ("scan2 err %s %s\n", err_name (err_type), err_msg);
  } else {
    printf ("scan2 ok\n");
    put_blob ("text3", t3, l3);
    put_last_temps ("lasttemp3", c3);
  }
  fflush (stdout);
  if (nruns > 0) {
    /* load, link and run all three contexts: the one built through the API, the one read from
       text1 and the one read from text2.  Loading is where module->last_temp_item_num matters. */
    MIR_context_t cs[3] = {c1, c2, c3};
    int p[3] = {0, 0, 0}, bad = 0;
    char e[3][200];
    for (int k = 0; k < 3; k++) {
      snprintf (e[k], sizeof (e[k]), "ok");
      if (cs[k] == NULL || (k == 2 && t3 == NULL)) {
        p[k] = 1;
        snprintf (e[k], sizeof (e[k]), "absent");
      } else if ((p[k] = prepare_run (cs[k])) != 0) {
        snprintf (e[k], sizeof (e[k]), "%s", err_msg);
      }
      bad |= p[k];
    }
    if (bad) printf ("link %s | %s | %s\n", e[0], e[1], e[2]);
    for (int r = 0; r < nruns; r++) {
      char o[3][300];
      for (int k = 0; k < 3; k++) {
        if (p[k])
          snprintf (o[k], sizeof (o[k]), "nolink");
        else
          run_one (cs[k], &runs[r], o[k], sizeof (o[k]));
      }
      printf ("run %s %s | %s | %s\n", runs[r].fname, o[0], o[1], o[2]);
    }
  }
}

static void do_scan_case (const char *text) {
  MIR_context_t c = NULL;
  char *t2 = NULL;
  size_t l2;
  if (scan_and_output (text, &t2, &l2, &c)) {
    printf ("err %s %s\n", err_name (err_type), err_msg);
    return;
  }
  put_blob ("ok", t2, l2);
  put_last_temps ("lasttemp", c);
}

/* run `fn` in a child; report abnormal ends */
static void in_child (void (*fn) (void *), void *arg) {
  fflush (stdout);
  pid_t pid = fork ();
  if (pid == 0) {
    struct rlimit rl = {30, 35};
    alarm (20);
    setrlimit (RLIMIT_CPU, &rl);
    rl.rlim_cur = rl.rlim_max = 0;
    setrlimit (RLIMIT_CORE, &rl);
    fn (arg);
    fflush (stdout);
    _exit (0);
  }
  int st = 0;
  waitpid (pid, &st, 0);
  if (WIFSIGNALED (st))
    printf ("\ncrash signal %d\n", WTERMSIG (st));
  else if (WEXITSTATUS (st) != 0)
    printf ("\ncrash exit %d\n", WEXITSTATUS (st));
}

struct bc {
  char **lines;
  int n;
};
static void bc_fn (void *p) {
  struct bc *b = p;
  do_build_case (b->lines, b->n);
}
static void sc_fn (void *p) { do_scan_case ((const char *) p); }

static void mode_build (void) {
  char *line = NULL;
  size_t cap = 0;
  ssize_t n;
  char **lines = NULL;
  int nl = 0, capl = 0, in_case = 0;
  char id[100] = "";
  while ((n = getline (&line, &cap, stdin)) >= 0) {
    if (n > 0 && line[n - 1] == '\n') line[n - 1] = 0;
    if (strncmp (line, "case ", 5) == 0) {
      snprintf (id, sizeof (id), "%s", line + 5);
      nl = 0;
      in_case = 1;
    } else if (strcmp (line, "end") == 0 && in_case) {
      struct bc b = {lines, nl};
      printf ("case %s\n", id);
      in_child (bc_fn, &b);
      printf ("endcase\n");
      for (int i = 0; i < nl; i++) free (lines[i]);
      in_case = 0;
    } else if (in_case) {
      if (nl == capl) lines = realloc (lines, (size_t) (capl = capl ? 2 * capl : 64) * sizeof (char *));
      lines[nl++] = strdup (line);
    }
  }
}

static void mode_scan (void) {
  char hdr[200];
  while (fgets (hdr, sizeof (hdr), stdin) != NULL) {
    char id[100];
    size_t len;
    if (sscanf (hdr, "case %99s %zu", id, &len) != 2) continue;
    char *buf = malloc (len + 1);
    if (fread (buf, 1, len, stdin) != len) break;
    buf[len] = 0;
    (void) fgetc (stdin);
    printf ("case %s\n", id);
    if (memchr (buf, 0, len) != NULL)
      printf ("err nul text contains a NUL byte\n");
    else
      in_child (sc_fn, buf);
    printf ("endcase\n");
    free (buf);
  }
}

static void mode_table (void) {
  MIR_context_t ctx = MIR_init ();
  for (int c = 0; c < MIR_INSN_BOUND; c++) {
    int var = MIR_call_code_p (c) || c == MIR_UNSPEC || c == MIR_USE || c == MIR_PHI || c == MIR_RET
              || c == MIR_SWITCH;
    printf ("%d %s %zu %d %d %d ", c, MIR_insn_name (ctx, c), insn_code_nops (ctx, c),
            MIR_branch_code_p (c) ? 1 : 0, MIR_call_code_p (c) ? 1 : 0, var);
    /* operand modes, for the generator only (the model does not depend on them) */
    for (size_t j = 0; insn_descs[c].op_modes[j] != MIR_OP_BOUND; j++) {
      unsigned m = insn_descs[c].op_modes[j];
      if (m & OUT_FLAG) putchar ('>');
      m &= ~(unsigned) OUT_FLAG;
      putchar (m == MIR_OP_INT ? 'i' : m == MIR_OP_FLOAT ? 'f' : m == MIR_OP_DOUBLE ? 'd' : m == MIR_OP_LDOUBLE ? 'D'
               : m == MIR_OP_LABEL ? 'L' : m == MIR_OP_REG ? 'r' : m == MIR_OP_UNDEF ? 'u' : '?');
    }
    printf ("-\n");
  }
  /* codes the scanner names explicitly */
  printf ("codes %d %d %d %d %d %d %d %d %d %d %d %d %d %d\n", MIR_JMP, MIR_UBNO, MIR_LADDR, MIR_SWITCH,
          MIR_RET, MIR_JRET, MIR_PRBEQ, MIR_PRBNE, MIR_UNSPEC, MIR_USE, MIR_PHI, MIR_LABEL,
          MIR_INVALID_INSN, MIR_INSN_BOUND);
  printf ("digits %d %d %d\n", FLT_MANT_DIG, DBL_MANT_DIG, LDBL_MANT_DIG);
  MIR_finish (ctx);
}

static void mode_float (void) {
  char line[400], kind[10], what[10], arg[300];
  while (fgets (line, sizeof (line), stdin) != NULL) {
    if (sscanf (line, "%9s %9s %299s", what, kind, arg) != 3) continue;
    if (strcmp (what, "fmt") == 0) {
      unsigned __int128 b = hex128 (arg);
      if (strcmp (kind, "f") == 0) {
        float v;
        memcpy (&v, &b, 4);
        printf ("%.*e\n", FLT_MANT_DIG, v);
      } else if (strcmp (kind, "d") == 0) {
        double v;
        memcpy (&v, &b, 8);
        printf ("%.*e\n", DBL_MANT_DIG, v);
      } else {
        long double v = 0;
        memcpy (&v, &b, 10);
        printf ("%.*Le\n", LDBL_MANT_DIG, v);
      }
    } else {
      if (strcmp (kind, "f") == 0) {
        float v = strtof (arg, NULL);
        uint32_t b;
        memcpy (&b, &v, 4);
        printf ("%08x\n", b);
      } else if (strcmp (kind, "d") == 0) {
        double v = strtod (arg, NULL);
        uint64_t b;
        memcpy (&b, &v, 8);
        printf ("%016llx\n", (unsigned long long) b);
      } else {
        long double v = strtold (arg, NULL);
        unsigned char b[16] = {0};
        memcpy (b, &v, 10);
        for (int i = 9; i >= 0; i--) printf ("%02x", b[i]);
        printf ("\n");
      }
    }
  }
}

int main (int argc, char **argv) {
  if (argc < 2) return 2;
  if (strcmp (argv[1], "build") == 0)
    mode_build ();
  else if (strcmp (argv[1], "scan") == 0)
    mode_scan ();
  else if (strcmp (argv[1], "table") == 0)
    mode_table ();
  else if (strcmp (argv[1], "float") == 0)
    mode_float ();
  else
    return 2;
  return 0;
}
