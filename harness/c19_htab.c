/* C19 harness, HTAB part: instantiates /repo/mir-htab.h for `kv_t` and speaks the two protocols of the
   Lean driver `mirdrv_c19` (lean/Drv/C19.lean); checks/c19_htab.py diffs the outputs.

   c19_htab stream
       stdin lines:  new <hashmode> <minsize> | f|i|r|d <key> <val> | c | e | s | x
   c19_htab enum <hashmode> <minsize> <nkeys> <len> <plen> <lo> <hi> [v]
       every op sequence of length <len> whose first <plen> ops are the base-(4*nkeys+1) digits of a
       prefix number in [lo,hi); prints `blk <pfx> <digest>` (same digest as the driver) and
       `cnt <pfx> <leaves> <with_growth> <with_delete_hit> <with_tombstone_then_new_insert> <nontrivial>`
       (harness only).  With `v` also `leaf <seqno> <hash>` per sequence.

   eq compares keys, hash is a function of the key selected by the mode (table `hashMode` of the driver),
   free_func records its argument.  A watchdog (CPU-time timer, C19_WATCHDOG_MS, default 5000 ms) prints
   `TIMEOUT <line-number | seqno>` and _exit(124)s when one stream line / one leaf does not terminate. */
#include <stdio.h>
#include <stdlib.h>
#include <string.h>
#include <stdint.h>
#include <inttypes.h>
#include <assert.h>
#include <signal.h>
#include <unistd.h>
#include <sys/time.h>

#include "mir-alloc.h"
#include "mir-htab.h"

/* ------------------------------------------------------------ allocator with a size ledger
   Every block carries a 16-byte header {size, magic}.  realloc is the documented custom-allocator
   shape (CUSTOM-ALLOCATORS.md): it trusts `old_size` — malloc + memcpy (old_size) + free — so a wrong
   old size passed by the VARR code loses or over-reads contents; additionally old_size is checked
   against the ledger (ALLOCBAD, exit 10).  Fresh bytes are poisoned with 0xA5. */
#define P_MAGIC 0x5ca1ab1e0ddba11ull
typedef struct {
  uint64_t size, magic;
} p_hdr_t;
static void allocbad (const char *what, size_t got, size_t ledger) {
  char buf[128];
  int n = snprintf (buf, sizeof (buf), "ALLOCBAD %s got=%zu ledger=%zu\n", what, got, ledger);
  fflush (stdout);
  if (n > 0 && write (1, buf, (size_t) n) < 0) _exit (10);
  _exit (10);
}
static void *p_malloc (size_t size, void *ud) {
  p_hdr_t *h = (p_hdr_t *) malloc (sizeof (p_hdr_t) + size);
  (void) ud;
  if (h == NULL) return NULL;
  h->size = size;
  h->magic = P_MAGIC;
  memset (h + 1, 0xA5, size);
  return h + 1;
}
static void *p_calloc (size_t n, size_t s, void *ud) {
  void *p = p_malloc (n * s, ud);
  if (p != NULL) memset (p, 0, n * s);
  return p;
}
static void p_free (void *ptr, void *ud) {
  p_hdr_t *h;
  (void) ud;
  if (ptr == NULL) return;
  h = (p_hdr_t *) ptr - 1;
  if (h->magic != P_MAGIC) allocbad ("free-of-foreign-block", 0, 0);
  h->magic = 0;
  free (h);
}
static void *p_realloc (void *ptr, size_t old_size, size_t new_size, void *ud) {
  void *p;
  if (ptr == NULL) return p_malloc (new_size, ud);
  p_hdr_t *h = (p_hdr_t *) ptr - 1;
  if (h->magic != P_MAGIC) allocbad ("realloc-of-foreign-block", old_size, 0);
  if (h->size != old_size) allocbad ("realloc-old-size", old_size, (size_t) h->size);
  p = p_malloc (new_size, ud);
  if (p == NULL) return NULL;
  memcpy (p, ptr, old_size < new_size ? old_size : new_size);
  p_free (ptr, ud);
  return p;
}
static struct MIR_alloc p_alloc = {p_malloc, p_calloc, p_realloc, p_free, NULL};

/* ------------------------------------------------------------ element type and callbacks */
typedef struct {
  unsigned key, val;
} kv_t;
DEF_HTAB (kv_t);

static int arg_cookie;
#define ARG ((void *) &arg_cookie)
static unsigned g_mode = 1;

static void argbad (void) {
  static const char m[] = "ARGBAD\n";
  fflush (stdout);
  if (write (1, m, sizeof (m) - 1) < 0) _exit (9);
  _exit (9);
}

typedef struct {
  kv_t *a;
  size_t n, cap;
} buf_t;
static buf_t g_freed, g_all;

static void buf_push (buf_t *b, kv_t e) {
  if (b->n == b->cap) {
    b->cap = b->cap ? 2 * b->cap : 64;
    b->a = (kv_t *) realloc (b->a, b->cap * sizeof (kv_t));
    if (b->a == NULL) {
      fprintf (stderr, "harness: no memory\n");
      exit (3);
    }
  }
  b->a[b->n++] = e;
}

static htab_hash_t hash_f (kv_t e, void *arg) {
  unsigned k = e.key;
  if (arg != ARG) argbad ();
  switch (g_mode) {
  case 0: return 0;
  case 1: return k;
  case 2: return k % 2;
  case 3: return k << 11;
  case 4: return k * 2654435761u;
  case 5: return k << 22;
  case 6: return 0xFFFFFFFFu - k;
  case 7: return k / 2;
  default: return k;
  }
}
static int eq_f (kv_t a, kv_t b, void *arg) {
  if (arg != ARG) argbad ();
  return a.key == b.key;
}
static void free_f (kv_t e, void *arg) {
  if (arg != ARG) argbad ();
  buf_push (&g_freed, e);
}
static void collect_f (kv_t e, void *arg) {
  if (arg != ARG) argbad ();
  buf_push (&g_all, e);
}

static int kv_less (kv_t a, kv_t b) { return a.key < b.key || (a.key == b.key && a.val < b.val); }
static int kv_cmp (const void *pa, const void *pb) {
  const kv_t *a = (const kv_t *) pa, *b = (const kv_t *) pb;
  if (kv_less (*a, *b)) return -1;
  if (kv_less (*b, *a)) return 1;
  return 0;
}
static void buf_sort (buf_t *b) {
  if (b->n <= 16) {
    for (size_t i = 1; i < b->n; i++) {
      kv_t x = b->a[i];
      size_t j = i;
      for (; j > 0 && kv_less (x, b->a[j - 1]); j--) b->a[j] = b->a[j - 1];
      b->a[j] = x;
    }
  } else {
    qsort (b->a, b->n, sizeof (kv_t), kv_cmp);
  }
}

#define SENT 0xdeadbeefu
static int is_sent (kv_t e) { return e.key == SENT && e.val == SENT; }

/* ------------------------------------------------------------ watchdog
   The timer counts CPU time of this process (ITIMER_PROF), not wall time: a non-terminating probe loop burns
   CPU, while a heavily loaded machine (or a blocking read of stdin) must not trigger it. */
static volatile uint64_t g_where; /* stream: current input line number (1-based); enum: seqno of the leaf */
static unsigned g_wd_ms = 5000;

static void on_alarm (int sig) {
  char buf[64];
  int n = 0, i;
  uint64_t v = g_where;
  char dig[24];
  int nd = 0;
  static const char pre[] = "TIMEOUT ";
  (void) sig;
  for (i = 0; i < (int) sizeof (pre) - 1; i++) buf[n++] = pre[i];
  do {
    dig[nd++] = (char) ('0' + v % 10);
    v /= 10;
  } while (v != 0);
  while (nd > 0) buf[n++] = dig[--nd];
  buf[n++] = '\n';
  if (write (1, buf, (size_t) n) < 0) _exit (124);
  _exit (124);
}
static void arm (void) {
  struct itimerval it;
  it.it_interval.tv_sec = 0;
  it.it_interval.tv_usec = 0;
  it.it_value.tv_sec = g_wd_ms / 1000;
  it.it_value.tv_usec = (g_wd_ms % 1000) * 1000;
  setitimer (ITIMER_PROF, &it, NULL);
}
static void disarm (void) {
  struct itimerval it;
  memset (&it, 0, sizeof (it));
  setitimer (ITIMER_PROF, &it, NULL);
}
static void watchdog_init (void) {
  const char *s = getenv ("C19_WATCHDOG_MS");
  struct sigaction sa;
  if (s != NULL && atoi (s) > 0) g_wd_ms = (unsigned) atoi (s);
  memset (&sa, 0, sizeof (sa));
  sa.sa_handler = on_alarm;
  sigaction (SIGPROF, &sa, NULL);
}

/* ------------------------------------------------------------ stream protocol */
static void print_list (buf_t *b) {
  buf_sort (b);
  if (b->n == 0) {
    fputs ("-", stdout);
    return;
  }
  for (size_t i = 0; i < b->n; i++) printf ("%s%u:%u", i ? "," : "", b->a[i].key, b->a[i].val);
}

static int stream_main (void) {
  static char line[256];
  HTAB (kv_t) *tab = NULL;
  uint64_t lineno = 0;

  while (fgets (line, sizeof (line), stdin) != NULL) {
    char *tok[4];
    int nt = 0;
    for (char *p = strtok (line, " \t\r\n"); p != NULL && nt < 4; p = strtok (NULL, " \t\r\n")) tok[nt++] = p;
    if (nt == 0) continue;
    lineno++;
    g_where = lineno;
    arm ();
    g_freed.n = 0;
    if (nt == 3 && strcmp (tok[0], "new") == 0) {
      if (tab != NULL) HTAB_DESTROY (kv_t, tab);
      g_mode = (unsigned) strtoul (tok[1], NULL, 10);
      HTAB_CREATE_WITH_FREE_FUNC (kv_t, tab, &p_alloc, (htab_size_t) strtoul (tok[2], NULL, 10), hash_f, eq_f,
                                  free_f, ARG);
      puts ("ok");
    } else if (nt == 3 && tab != NULL && tok[0][1] == 0 && strchr ("fird", tok[0][0]) != NULL) {
      enum htab_action act = tok[0][0] == 'f'   ? HTAB_FIND
                             : tok[0][0] == 'i' ? HTAB_INSERT
                             : tok[0][0] == 'r' ? HTAB_REPLACE
                                                : HTAB_DELETE;
      kv_t el, res;
      int found;
      el.key = (unsigned) strtoul (tok[1], NULL, 10);
      el.val = (unsigned) strtoul (tok[2], NULL, 10);
      res.key = res.val = SENT;
      found = HTAB_DO (kv_t, tab, el, act, res);
      printf ("%d ", found);
      if (is_sent (res))
        fputs ("-", stdout);
      else
        printf ("%u:%u", res.key, res.val);
      printf (" n=%u fr=", (unsigned) HTAB_ELS_NUM (kv_t, tab));
      print_list (&g_freed);
      putchar ('\n');
    } else if (nt == 1 && tab != NULL && strcmp (tok[0], "c") == 0) {
      HTAB_CLEAR (kv_t, tab);
      printf ("0 - n=%u fr=", (unsigned) HTAB_ELS_NUM (kv_t, tab));
      print_list (&g_freed);
      putchar ('\n');
    } else if (nt == 1 && tab != NULL && strcmp (tok[0], "e") == 0) {
      g_all.n = 0;
      HTAB_FOREACH_ELEM (kv_t, tab, collect_f, ARG);
      fputs ("all=", stdout);
      print_list (&g_all);
      putchar ('\n');
    } else if (nt == 1 && tab != NULL && strcmp (tok[0], "s") == 0) {
      printf ("coll=%u size=%lu bound=%u\n", (unsigned) HTAB_COLLISIONS (kv_t, tab),
              (unsigned long) VARR_LENGTH (htab_ind_t, tab->entries), (unsigned) tab->els_bound);
    } else if (nt == 1 && tab != NULL && strcmp (tok[0], "x") == 0) {
      HTAB_DESTROY (kv_t, tab);
      fputs ("fr=", stdout);
      print_list (&g_freed);
      putchar ('\n');
      if (tab != NULL) puts ("DESTROY-DID-NOT-NULL");
      tab = NULL;
    } else {
      puts ("error");
    }
    fflush (stdout);
  }
  disarm ();
  if (tab != NULL) HTAB_DESTROY (kv_t, tab);
  return 0;
}

/* ------------------------------------------------------------ enumeration protocol */
static inline uint64_t mix (uint64_t h, uint64_t v) { return (h ^ v) * 0x100000001B3ull + 0x9E37ull; }
static inline uint64_t enc (kv_t e) { return (uint64_t) e.key * 65536u + (uint64_t) e.val + 1u; }
static uint64_t mixL (uint64_t h, buf_t *b) {
  buf_sort (b);
  for (size_t i = 0; i < b->n; i++) h = mix (h, enc (b->a[i]));
  return mix (h, 0xFFFFFFFFull);
}

typedef struct {
  int growth, delhit, tombins;
} flags_t;

static uint64_t run_leaf (unsigned minsize, unsigned nkeys, const unsigned *codes, unsigned len, flags_t *fl) {
  HTAB (kv_t) * t;
  uint64_t h = 0xcbf29ce484222325ull;

  fl->growth = fl->delhit = fl->tombins = 0;
  HTAB_CREATE_WITH_FREE_FUNC (kv_t, t, &p_alloc, minsize, hash_f, eq_f, free_f, ARG);
  for (unsigned pos = 0; pos < len; pos++) {
    unsigned c = codes[pos];
    size_t size0 = VARR_LENGTH (htab_ind_t, t->entries);
    int had_tomb = t->els_bound > t->els_num;
    g_freed.n = 0;
    if (c < 4 * nkeys) {
      unsigned a = c / nkeys;
      enum htab_action act = a == 0 ? HTAB_FIND : a == 1 ? HTAB_INSERT : a == 2 ? HTAB_REPLACE : HTAB_DELETE;
      kv_t el, res;
      int found;
      el.key = c % nkeys;
      el.val = pos + 1;
      res.key = res.val = SENT;
      found = HTAB_DO (kv_t, t, el, act, res);
      h = mix (h, (uint64_t) (unsigned) found);
      h = mix (h, is_sent (res) ? 0 : enc (res));
      if (act == HTAB_DELETE && found) fl->delhit = 1;
      if ((act == HTAB_INSERT || act == HTAB_REPLACE) && !found && had_tomb) fl->tombins = 1;
    } else {
      HTAB_CLEAR (kv_t, t);
      h = mix (h, 0);
      h = mix (h, 0);
    }
    if (VARR_LENGTH (htab_ind_t, t->entries) != size0) fl->growth = 1;
    h = mix (h, (uint64_t) HTAB_ELS_NUM (kv_t, t));
    h = mixL (h, &g_freed);
    g_all.n = 0;
    HTAB_FOREACH_ELEM (kv_t, t, collect_f, ARG);
    h = mixL (h, &g_all);
  }
  g_freed.n = 0;
  HTAB_DESTROY (kv_t, t);
  if (t != NULL) h ^= 0x5555;
  return mixL (h, &g_freed);
}

static int enum_main (int argc, char **argv) {
  uint64_t a[7];
  int verbose = argc == 10 && strcmp (argv[9], "v") == 0;
  unsigned codes[64];

  if (argc < 9) {
    fprintf (stderr, "usage: enum mode minsize nkeys len plen lo hi [v]\n");
    return 2;
  }
  for (int i = 0; i < 7; i++) a[i] = strtoull (argv[2 + i], NULL, 10);
  g_mode = (unsigned) a[0];
  unsigned minsize = (unsigned) a[1], nkeys = (unsigned) a[2], len = (unsigned) a[3], plen = (unsigned) a[4];
  uint64_t lo = a[5], hi = a[6], alpha = 4 * (uint64_t) nkeys + 1, nsfx = 1;
  if (len > 64 || plen > len || nkeys == 0) return 2;
  for (unsigned i = plen; i < len; i++) nsfx *= alpha;
  for (uint64_t pfx = lo; pfx < hi; pfx++) {
    uint64_t acc = 0, n_growth = 0, n_delhit = 0, n_tombins = 0, n_nontriv = 0;
    for (uint64_t sfx = 0; sfx < nsfx; sfx++) {
      uint64_t seqno = pfx * nsfx + sfx, x = seqno, lh;
      flags_t fl;
      for (unsigned i = len; i > 0; i--) {
        codes[i - 1] = (unsigned) (x % alpha);
        x /= alpha;
      }
      g_where = seqno;
      if (verbose || (sfx & 1023) == 0) arm ();
      lh = run_leaf (minsize, nkeys, codes, len, &fl);
      acc += lh;
      n_growth += (uint64_t) fl.growth;
      n_delhit += (uint64_t) fl.delhit;
      n_tombins += (uint64_t) fl.tombins;
      n_nontriv += (uint64_t) (fl.growth || fl.delhit || fl.tombins);
      if (verbose) {
        printf ("leaf %" PRIu64 " %" PRIu64 "\n", seqno, lh);
        fflush (stdout);
      }
    }
    printf ("blk %" PRIu64 " %" PRIu64 "\n", pfx, acc);
    printf ("cnt %" PRIu64 " %" PRIu64 " %" PRIu64 " %" PRIu64 " %" PRIu64 " %" PRIu64 "\n", pfx, nsfx, n_growth,
            n_delhit, n_tombins, n_nontriv);
    fflush (stdout);
  }
  disarm ();
  return 0;
}

int main (int argc, char **argv) {
  int rc;
  watchdog_init ();
  if (argc >= 2 && strcmp (argv[1], "enum") == 0)
    rc = enum_main (argc, argv);
  else
    rc = stream_main ();
  free (g_freed.a);
  free (g_all.a);
  return rc;
}
