/* C18: module hand-over between contexts (MIR_change_module_ctx under a mutex, as c2mir-driver -p does).

   c18_handover <nworkers 1..4> <rounds> <seed> [variants]     variants: string over {A,B}, one letter per
                                                               worker (default: drawn from the seed)

   Per round a fresh MAIN context M is created; every worker thread creates its own context W, builds a
   module (functions with `global` variables tied to hard registers, protos, string operands, aliases,
   data), prints it, and hands it to M:  lock; MIR_change_module_ctx (W, m, M); OWNERSHIP MONITOR; unlock.
     variant A: the worker finishes W at once (its strings are released and poisoned) before M uses m;
     variant B: the worker keeps W: after M has used the module and M is finished (module released and
                poisoned), W builds 640 more items -- among them items with the SAME names as the ones it
                gave away -- so that W's item table is searched and re-hashed (512th insertion).
   The main thread then prints every received module (text must equal what the worker printed before the
   hand-over), loads, links and interprets it (own expected value) and finishes M.

   OWNERSHIP MONITOR (the model statement Props/C18.lean handover_*): directly after the call
     O1  every name reachable from the module (module, items, proto args, func vars, global vars, register
         descriptors incl. hard-register names, string operands) is the interned string of the NEW context;
     O2  the OLD context's item table has no entry belonging to the module, the NEW context's table maps
         every name of the module to an item of the module.
   Every context allocates through its own poisoning MIR_alloc_t over one heap (blocks are filled with
   0xDD and quarantined on release), so a pointer that still leads into memory of a finished context is
   read as garbage: wrong text, a MIR error, or a crash -- all reported.  This file includes mir.c to
   reach the string / item tables.  No sanitizer needed. */
#define _GNU_SOURCE
#include <pthread.h>
#include <semaphore.h>
#include <signal.h>
#include <setjmp.h>
#include "mir.c"
#undef module_item_tab /* mir.c: `#define module_item_tab ctx->module_item_tab` */

#define MAXW 4
static int nworkers, rounds;
static char variants[MAXW + 1];
static pthread_mutex_t handover_mutex = PTHREAD_MUTEX_INITIALIZER;
static sem_t handed[MAXW], cont[MAXW];
static MIR_context_t main_ctx;
static int fails;
static pthread_mutex_t out_mutex = PTHREAD_MUTEX_INITIALIZER;

static void say (const char *fmt, ...) {
  va_list ap;
  pthread_mutex_lock (&out_mutex);
  va_start (ap, fmt);
  vprintf (fmt, ap);
  va_end (ap);
  fflush (stdout);
  pthread_mutex_unlock (&out_mutex);
}

/* ---------------------------------------------------------------- poisoning allocator */
typedef struct {
  uint64_t magic;
  size_t size;
} hdr_t;
#define LIVE 0x4c49564542304b21ull
#define DEAD 0xdddddddddddddddaull
static void *p_malloc (size_t n, void *ud) {
  hdr_t *h = malloc (sizeof (hdr_t) + n + 8);
  (void) ud;
  if (h == NULL) return NULL;
  h->magic = LIVE, h->size = n;
  memset (h + 1, 0xA5, n);
  return h + 1;
}
static void *p_calloc (size_t a, size_t b, void *ud) {
  void *p = p_malloc (a * b, ud);
  if (p != NULL) memset (p, 0, a * b);
  return p;
}
static void p_free (void *p, void *ud) {
  (void) ud;
  if (p == NULL) return;
  hdr_t *h = (hdr_t *) p - 1;
  if (h->magic != LIVE) {
    say ("FAIL allocator: release of a block that is not live (double free or foreign pointer)\n");
    __atomic_add_fetch (&fails, 1, __ATOMIC_RELAXED);
    return;
  }
  h->magic = DEAD;
  memset (p, 0xDD, h->size); /* quarantined for ever: never handed out again */
}
static void *p_realloc (void *p, size_t old, size_t n, void *ud) {
  void *q = p_malloc (n, ud);
  if (q != NULL && p != NULL) memcpy (q, p, old < n ? old : n);
  p_free (p, ud);
  return q;
}

/* ---------------------------------------------------------------- errors */
static __thread jmp_buf err_jmp;
static __thread char err_msg[200];
static void MIR_NO_RETURN err_func (MIR_error_type_t t, const char *fmt, ...) {
  va_list ap;
  va_start (ap, fmt);
  int k = snprintf (err_msg, sizeof (err_msg), "E%d:", (int) t);
  vsnprintf (err_msg + k, sizeof (err_msg) - k, fmt, ap);
  va_end (ap);
  for (char *c = err_msg; *c; c++)
    if ((unsigned char) *c < 32 || (unsigned char) *c > 126) *c = '?';
  longjmp (err_jmp, 1);
}
static void on_signal (int sig) {
  char b[96];
  int k = snprintf (b, sizeof (b), "FAIL signal %d (a context read memory released by another context?)\n", sig);
  if (write (1, b, (size_t) k)) {}
  _exit (4);
}

/* ---------------------------------------------------------------- ownership monitor */
typedef struct {
  MIR_module_t m;
  int n;
} scan_t;
static void count_of_module (MIR_item_t it, void *arg) {
  scan_t *s = arg;
  if (it->module == s->m) s->n++;
}

/* returns number of violations; prints REF / TAB lines for the Lean monitor */
static int ownership_monitor (int w, int r, MIR_context_t old_ctx, MIR_module_t m, MIR_context_t new_ctx) {
  int bad = 0, nrefs = 0, nbadrefs = 0;
  char first[160] = "";
  static __thread char owners[1024]; /* per reference: N = interned in the new context, O = not */
#define CHECK_STR(what, p)                                                                          \
  do {                                                                                              \
    const char *p_ = (p);                                                                           \
    if (p_ != NULL) {                                                                               \
      int own_ = get_ctx_str (new_ctx, p_) == p_;                                                   \
      if (nrefs < (int) sizeof (owners) - 1) owners[nrefs] = own_ ? 'N' : 'O', owners[nrefs + 1] = 0; \
      nrefs++;                                                                                      \
      if (!own_) {                                                                                  \
        if (nbadrefs++ == 0) snprintf (first, sizeof (first), "%s `%s`", what, p_);                \
      }                                                                                             \
    }                                                                                               \
  } while (0)
  CHECK_STR ("module name", m->name);
  for (MIR_item_t it = DLIST_HEAD (MIR_item_t, m->items); it != NULL; it = DLIST_NEXT (MIR_item_t, it)) {
    CHECK_STR ("item name", MIR_item_name (new_ctx, it));
    if (it->item_type == MIR_proto_item) {
      for (size_t i = 0; i < VARR_LENGTH (MIR_var_t, it->u.proto->args); i++)
        CHECK_STR ("proto arg", VARR_GET (MIR_var_t, it->u.proto->args, i).name);
    } else if (it->item_type == MIR_func_item) {
      MIR_func_t f = it->u.func;
      func_regs_t fr = f->internal;
      for (size_t i = 0; i < VARR_LENGTH (MIR_var_t, f->vars); i++) CHECK_STR ("func var", VARR_GET (MIR_var_t, f->vars, i).name);
      if (f->global_vars != NULL)
        for (size_t i = 0; i < VARR_LENGTH (MIR_var_t, f->global_vars); i++)
          CHECK_STR ("global var", VARR_GET (MIR_var_t, f->global_vars, i).name);
      for (size_t i = 1; i < VARR_LENGTH (reg_desc_t, fr->reg_descs); i++) {
        CHECK_STR ("reg name", VARR_GET (reg_desc_t, fr->reg_descs, i).name);
        CHECK_STR ("hard reg name", VARR_GET (reg_desc_t, fr->reg_descs, i).hard_reg_name);
      }
      for (MIR_insn_t insn = DLIST_HEAD (MIR_insn_t, f->insns); insn != NULL; insn = DLIST_NEXT (MIR_insn_t, insn))
        for (size_t i = 0; i < insn->nops; i++)
          if (insn->ops[i].mode == MIR_OP_STR) {
            int own_ = get_ctx_string (new_ctx, insn->ops[i].u.str).str.s == insn->ops[i].u.str.s;
            if (nrefs < (int) sizeof (owners) - 1) owners[nrefs] = own_ ? 'N' : 'O', owners[nrefs + 1] = 0;
            nrefs++;
            if (!own_ && nbadrefs++ == 0) snprintf (first, sizeof (first), "string operand");
          }
    }
  }
  /* O2: item tables */
  scan_t s_old = {m, 0}, s_new = {m, 0};
  int named = 0, mapped = 0;
  HTAB_FOREACH_ELEM (MIR_item_t, old_ctx->module_item_tab, count_of_module, &s_old);
  HTAB_FOREACH_ELEM (MIR_item_t, new_ctx->module_item_tab, count_of_module, &s_new);
  for (MIR_item_t it = DLIST_HEAD (MIR_item_t, m->items); it != NULL; it = DLIST_NEXT (MIR_item_t, it)) {
    const char *name = MIR_item_name (new_ctx, it);
    if (name == NULL) continue;
    named++;
    MIR_item_t t = item_tab_find (new_ctx, name, m);
    if (t != NULL && t->module == m) mapped++;
  }
  bad = nbadrefs + s_old.n + (named - mapped);
  say ("HOR %d %d new=%d stale=%d owners=%s\n", w, r, s_new.n, s_old.n, owners);
  say ("HO %d %d refs=%d badrefs=%d stale_old_entries=%d named=%d mapped_in_new=%d new_entries=%d%s%s\n", w, r, nrefs,
       nbadrefs, s_old.n, named, mapped, s_new.n, nbadrefs ? " first=" : "", nbadrefs ? first : "");
  if (bad)
    say ("FAIL ownership after MIR_change_module_ctx (worker %d round %d): %d name(s) still owned by the old context%s%s, %d "
         "stale entr%s in the old context's item table, %d name(s) not mapped in the new context\n",
         w, r, nbadrefs, nbadrefs ? ", first: " : "", first, s_old.n, s_old.n == 1 ? "y" : "ies", named - mapped);
  return bad;
}

/* ---------------------------------------------------------------- workload */
static uint64_t hseed;
static uint64_t rnd (uint64_t *s) {
  *s = *s * 6364136223846793005ull + 1442695040888963407ull;
  return *s >> 33;
}

typedef struct {
  int w;
  MIR_module_t m[64];
  uint64_t txt[64];
  long expect[64];
  char fname[64][32];
} wres_t;
static wres_t wres[MAXW];
static struct MIR_alloc allocs[MAXW + 1];

static void module_text (int w, int r, uint64_t *s, char *buf, size_t len, long *expect) {
  static const char *const hr[] = {"r12", "r13", "r14", "r15"};
  int ng = 1 + (int) (rnd (s) % 3), k = 0;
  long a = 3 + (long) (rnd (s) % 50), b = 2 + (long) (rnd (s) % 9);
  k += snprintf (buf + k, len - k, "m_w%d_r%d: module\nexport f_w%d\np_w%d_r%d: proto i64, i64:arg_w%d_r%d\nimport ext_w%d\n", w, r, w,
                 w, r, w, r, w);
  k += snprintf (buf + k, len - k, "msg_w%d_r%d: string \"hand-over w%d r%d\"\n", w, r, w, r);
  k += snprintf (buf + k, len - k, "helper_w%d_r%d: func i64, i64:x\n  local i64:y_w%d\n  mul y_w%d, x, %ld\n  ret y_w%d\n  endfunc\n", w, r,
                 w, w, b, w);
  k += snprintf (buf + k, len - k, "f_w%d: func i64, i64:n_w%d_r%d\n  local i64:s_w%d, i64:i_w%d, i64:p_w%d", w, w, r, w, w, w);
  k += snprintf (buf + k, len - k, "\n  global ");
  for (int g = 0; g < ng; g++) k += snprintf (buf + k, len - k, "%si64:gv%d_w%d_r%d:%s", g ? ", " : "", g, w, r, hr[(w + g) % 4]);
  k += snprintf (buf + k, len - k, "\n  mov s_w%d, %ld\n  mov i_w%d, 0\n", w, a, w);
  for (int g = 0; g < ng; g++) k += snprintf (buf + k, len - k, "  mov gv%d_w%d_r%d, %d\n", g, w, r, g + 1);
  k += snprintf (buf + k, len - k, "L1: bge L2, i_w%d, n_w%d_r%d\n  add s_w%d, s_w%d, i_w%d\n", w, w, r, w, w, w);
  for (int g = 0; g < ng; g++) k += snprintf (buf + k, len - k, "  add s_w%d, s_w%d, gv%d_w%d_r%d\n", w, w, g, w, r);
  k += snprintf (buf + k, len - k, "  add i_w%d, i_w%d, 1\n  jmp L1\nL2:\n  call p_w%d_r%d, helper_w%d_r%d, p_w%d, s_w%d\n  ret p_w%d\n  endfunc\n  endmodule\n",
                 w, w, w, r, w, r, w, w, w);
  long sum = a, n = 6;
  for (long i = 0; i < n; i++) sum += i + (long) ng * (ng + 1) / 2;
  *expect = sum * b;
}

static uint64_t module_hash (MIR_context_t ctx, MIR_module_t m) {
  char *b = NULL;
  size_t l = 0;
  FILE *f = open_memstream (&b, &l);
  MIR_output_module (ctx, f, m);
  fclose (f);
  uint64_t h = 14695981039346656037ull;
  for (size_t i = 0; i < l; i++) h = (h ^ (unsigned char) b[i]) * 1099511628211ull;
  free (b);
  return h;
}

static void *worker (void *arg) {
  int w = (int) (intptr_t) arg;
  uint64_t s = hseed * 77 + (uint64_t) w * 1009;
  static __thread char buf[4096];
  for (int r = 0; r < rounds; r++) {
    MIR_context_t volatile W = NULL;
    if (setjmp (err_jmp)) {
      say ("FAIL worker %d round %d: MIR error in the worker's own context: %s\n", w, r, err_msg);
      __atomic_add_fetch (&fails, 1, __ATOMIC_RELAXED);
      sem_post (&handed[w]); /* keep the protocol going */
      sem_wait (&cont[w]);
      continue;
    }
    W = MIR_init2 (&allocs[w], NULL);
    MIR_set_error_func (W, err_func);
    module_text (w, r, &s, buf, sizeof (buf), &wres[w].expect[r]);
    MIR_scan_string (W, buf);
    MIR_module_t m = DLIST_TAIL (MIR_module_t, *MIR_get_module_list (W));
    wres[w].m[r] = m;
    wres[w].txt[r] = module_hash (W, m);
    pthread_mutex_lock (&handover_mutex);
    MIR_change_module_ctx (W, m, main_ctx);
    int bad = ownership_monitor (w, r, W, m, main_ctx);
    pthread_mutex_unlock (&handover_mutex);
    if (bad) __atomic_add_fetch (&fails, 1, __ATOMIC_RELAXED);
    if (variants[w] == 'A') {
      MIR_finish (W); /* its strings are now poisoned */
      W = NULL;
      sem_post (&handed[w]);
      sem_wait (&cont[w]);
    } else {
      sem_post (&handed[w]);
      sem_wait (&cont[w]); /* the main context used the module and is finished: module memory is poisoned */
      MIR_new_module (W, "more");
      for (int i = 0; i < 640; i++) { /* grows and re-hashes W's item table */
        char nm[48];
        snprintf (nm, sizeof (nm), "extra_%d_w%d", i, w);
        MIR_new_import (W, nm);
      }
      MIR_finish_module (W);
      /* items with the SAME names as the ones given away, in a new module of W */
      module_text (w, r, &s, buf, sizeof (buf), &wres[w].expect[63]);
      MIR_scan_string (W, buf);
      MIR_finish (W);
      W = NULL;
    }
  }
  return NULL;
}

static long ext_fn (long x) { return x; }

int main (int argc, char **argv) {
  pthread_t th[MAXW];
  if (argc < 4) return 2;
  nworkers = atoi (argv[1]);
  rounds = atoi (argv[2]);
  hseed = strtoull (argv[3], NULL, 10);
  if (nworkers < 1 || nworkers > MAXW || rounds < 1 || rounds > 60) return 2;
  uint64_t s = hseed * 31 + 7;
  for (int w = 0; w < nworkers; w++) variants[w] = argc > 4 && strlen (argv[4]) == (size_t) nworkers ? argv[4][w] : "AB"[rnd (&s) % 2];
  for (int w = 0; w <= MAXW; w++) allocs[w] = (struct MIR_alloc){p_malloc, p_calloc, p_realloc, p_free, NULL};
  signal (SIGSEGV, on_signal);
  signal (SIGBUS, on_signal);
  signal (SIGABRT, on_signal);
  signal (SIGFPE, on_signal);
  say ("SCHED workers=%d rounds=%d seed=%llu variants=%s  (per round: workers build + hand over under the mutex; A finishes its context at "
       "once, B keeps it; main prints/loads/links/runs the modules and finishes its context; B then adds 640 items and equal names)\n",
       nworkers, rounds, (unsigned long long) hseed, variants);
  for (int w = 0; w < nworkers; w++) sem_init (&handed[w], 0, 0), sem_init (&cont[w], 0, 0);
  main_ctx = MIR_init2 (&allocs[MAXW], NULL);
  MIR_set_error_func (main_ctx, err_func);
  for (int w = 0; w < nworkers; w++) pthread_create (&th[w], NULL, worker, (void *) (intptr_t) w);
  for (int r = 0; r < rounds; r++) {
    for (int w = 0; w < nworkers; w++) sem_wait (&handed[w]);
    if (setjmp (err_jmp)) {
      say ("FAIL main context reported an error while using a handed-over module (round %d): %s\n", r, err_msg);
      fails++;
    } else {
      for (int w = 0; w < nworkers; w++) {
        MIR_module_t m = wres[w].m[r];
        if (m == NULL) continue;
        uint64_t h = module_hash (main_ctx, m);
        if (h != wres[w].txt[r]) {
          say ("FAIL module of worker %d round %d prints differently in the receiving context (names read from memory of the giving context?)\n", w, r);
          fails++;
        }
      }
      for (MIR_module_t m = DLIST_HEAD (MIR_module_t, *MIR_get_module_list (main_ctx)); m != NULL; m = DLIST_NEXT (MIR_module_t, m))
        MIR_load_module (main_ctx, m);
      for (int w = 0; w < nworkers; w++) {
        char nm[32];
        snprintf (nm, sizeof (nm), "ext_w%d", w);
        MIR_load_external (main_ctx, nm, ext_fn);
      }
      MIR_link (main_ctx, MIR_set_interp_interface, NULL);
      for (int w = 0; w < nworkers; w++) {
        MIR_module_t m = wres[w].m[r];
        char nm[32];
        MIR_item_t fi = NULL;
        if (m == NULL) continue;
        snprintf (nm, sizeof (nm), "f_w%d", w);
        for (MIR_item_t it = DLIST_HEAD (MIR_item_t, m->items); it != NULL; it = DLIST_NEXT (MIR_item_t, it))
          if (it->item_type == MIR_func_item && strcmp (it->u.func->name, nm) == 0) fi = it;
        MIR_val_t res, a;
        a.i = 6;
        res.i = -1;
        if (fi != NULL) MIR_interp_arr (main_ctx, fi, &res, 1, &a);
        say ("RES %d %d val=%ld expect=%ld%s\n", w, r, (long) res.i, wres[w].expect[r], res.i == wres[w].expect[r] ? "" : " WRONG");
        if (res.i != wres[w].expect[r]) fails++;
      }
    }
    MIR_finish (main_ctx); /* releases (poisons) the received modules */
    for (int w = 0; w < nworkers; w++) wres[w].m[r] = NULL;
    if (r + 1 < rounds) {
      main_ctx = MIR_init2 (&allocs[MAXW], NULL);
      MIR_set_error_func (main_ctx, err_func);
    }
    for (int w = 0; w < nworkers; w++) sem_post (&cont[w]);
  }
  for (int w = 0; w < nworkers; w++) pthread_join (th[w], NULL);
  say ("DONE fails=%d\n", fails);
  return 0;
}
