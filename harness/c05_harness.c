/* C05 harness: runs python-generated MIR modules that call a native callee through a prototype,
   under the interpreter (FFI trampoline of _MIR_get_ff_call) and under generated code
   (machinize_call) at -O0..-O3, and prints what the callee observed.

   The callee is either the assembly probe c05_probe (harness/c05_probe.S) which snapshots the
   argument registers, %al, rsp and the outgoing stack area, or a gcc-compiled C function out of a
   shared object generated from the same prototype (second oracle).

   stdin protocol (one request after another):
     SO <path>                      dlopen a shared object with gcc callees
     CASE <id>
     ENG <e>...                     engines: i (interpreter) 0 1 2 3 (generator levels)
     CALLEE <sym>                   optional: use dlsym(<sym>) instead of the probe
     RET <rax> <rdx> <xmm0> <xmm1> <nld> <ld0lo> <ld0hi> <ld1lo> <ld1hi>    hex; probe results
     IN <hexbytes>                  contents of the input buffer handed to f (p:in)
     OUTN <n>                       bytes of the output buffer to print
     STKW <n>                       optional: stack words of the snapshot to print (default 96, max 320)
     STEP <k>                       optional: the following RET/IN/OUTN belong to step k (0..7) of a call
                                    SEQUENCE executed in ONE context: the module then exports f0..f<n-1>
                                    (each with its own prototype) and answers carry the id <id>.<k>
     MIR ... ENDMIR                 module text; must export `f: func p:in, p:out` and import `probe`
   stdout per (case, engine):
     S <id> <eng> <calls> <snap words...>        (probe callee)
     G <id> <eng> <calls> <mask> <align>         (gcc callee: bit k set = argument k wrong)
     O <id> <eng> <hex of out buffer>
     B <in_buf address> <out_buf address>        once at start (expected values of rblk pointers)
     E <id> <eng> <error text>                   MIR error function was called
*/
#include <stdio.h>
#include <stdlib.h>
#include <string.h>
#include <stdint.h>
#include <setjmp.h>
#include <stdarg.h>
#include <dlfcn.h>
#include "mir.h"
#include "mir-gen.h"

#define C05_NSTK 320
extern uint64_t c05_snap[16 + C05_NSTK];
extern uint64_t c05_ret[12];
extern uint64_t c05_calls;
extern void c05_probe (void);

static jmp_buf err_jmp;
static char err_msg[512];

static void MIR_NO_RETURN err_func (MIR_error_type_t t, const char *fmt, ...) {
  va_list ap;
  int n = snprintf (err_msg, sizeof (err_msg), "%d ", (int) t);
  va_start (ap, fmt);
  vsnprintf (err_msg + n, sizeof (err_msg) - n, fmt, ap);
  va_end (ap);
  for (char *p = err_msg; *p; p++)
    if (*p == '\n') *p = ' ';
  longjmp (err_jmp, 1);
}

static char *mir_text;
static size_t mir_len, mir_cap;
static unsigned char in_buf[16384] __attribute__ ((aligned (16)));
static unsigned char out_buf[1024] __attribute__ ((aligned (16)));
#define MAX_STEPS 8
static unsigned char in_img[MAX_STEPS][16384];
static int stk_words = 96; /* stack words of the snapshot to print (STKW) */
static uint64_t step_ret[MAX_STEPS][12];
static size_t step_outn[MAX_STEPS];
static int nsteps, cur_step; /* nsteps == 0: single call, function `f` */
static void *so_handle;

static int hexv (int c) { return c <= '9' ? c - '0' : (c | 32) - 'a' + 10; }

static MIR_item_t find_func (MIR_module_t m, const char *name) {
  for (MIR_item_t it = DLIST_HEAD (MIR_item_t, m->items); it != NULL; it = DLIST_NEXT (MIR_item_t, it))
    if (it->item_type == MIR_func_item && strcmp (it->u.func->name, name) == 0) return it;
  return NULL;
}

typedef void (*fun_t) (void *, void *);

/* keep a deep, known-mapped stack above the callee: the probe reads C05_NSTK words above its
   return address.  All steps of a sequence run in the same context (same ff-interface cache, same
   generator state). */
static void __attribute__ ((noinline)) run_one (const char *id, const char *eng, void *callee, int gcc_p) {
  volatile char pad[8192];
  MIR_context_t ctx;
  MIR_module_t m;
  MIR_item_t f;
  int n = nsteps == 0 ? 1 : nsteps;
  volatile int k = 0;
  char sid[96], fname[16];
  int gen_p = eng[0] != 'i';
  pad[0] = 0;
  pad[8191] = 0;
  ctx = MIR_init ();
  MIR_set_error_func (ctx, err_func);
  if (setjmp (err_jmp)) {
    for (int j = k; j < n; j++) {
      if (nsteps == 0) snprintf (sid, sizeof (sid), "%s", id); else snprintf (sid, sizeof (sid), "%s.%d", id, j);
      printf ("E %s %s %s%s\n", sid, eng, j == k ? "" : "aborted-after-earlier-error ", err_msg);
    }
    return; /* context abandoned */
  }
  MIR_scan_string (ctx, mir_text);
  m = DLIST_TAIL (MIR_module_t, *MIR_get_module_list (ctx));
  MIR_load_module (ctx, m);
  MIR_load_external (ctx, "probe", callee);
  if (gen_p) {
    MIR_gen_init (ctx);
    MIR_gen_set_optimize_level (ctx, (unsigned) (eng[0] - '0'));
    MIR_link (ctx, MIR_set_gen_interface, NULL);
  } else {
    MIR_link (ctx, MIR_set_interp_interface, NULL);
  }
  for (k = 0; k < n; k++) {
    if (nsteps == 0) {
      snprintf (sid, sizeof (sid), "%s", id);
      snprintf (fname, sizeof (fname), "f");
    } else {
      snprintf (sid, sizeof (sid), "%s.%d", id, (int) k);
      snprintf (fname, sizeof (fname), "f%d", (int) k);
    }
    f = find_func (m, fname);
    if (f == NULL) {
      printf ("E %s %s no-func-%s\n", sid, eng, fname);
      continue;
    }
    memcpy (in_buf, in_img[k], sizeof (in_buf));
    memset (out_buf, 0xEE, sizeof (out_buf));
    memset (c05_snap, 0, sizeof (c05_snap));
    memcpy (c05_ret, step_ret[k], sizeof (step_ret[k]));
    c05_calls = 0;
    if (gcc_p) {
      uint64_t *gm = dlsym (so_handle, "c05_gmask"), *gc = dlsym (so_handle, "c05_gcalls"),
               *ga = dlsym (so_handle, "c05_galign");
      if (gm) *gm = ~0ull;
      if (gc) *gc = 0;
      if (ga) *ga = 99;
      uint64_t *gb = dlsym (so_handle, "c05_gbase");
      if (gb) *gb = (uint64_t) (uintptr_t) in_buf;
    }
    if (!gen_p) {
      MIR_val_t res, a[2];
      a[0].a = in_buf;
      a[1].a = out_buf;
      MIR_interp_arr (ctx, f, &res, 2, a);
    } else {
      fun_t fun = (fun_t) MIR_gen (ctx, f);
      fun (in_buf, out_buf);
    }
    if (!gcc_p) {
      printf ("S %s %s %llu", sid, eng, (unsigned long long) c05_calls);
      for (int i = 0; i < 16 + stk_words; i++) printf (" %llx", (unsigned long long) c05_snap[i]);
      printf ("\n");
    } else {
      uint64_t *gm = dlsym (so_handle, "c05_gmask"), *gc = dlsym (so_handle, "c05_gcalls"),
               *ga = dlsym (so_handle, "c05_galign");
      printf ("G %s %s %llu %llx %llu\n", sid, eng, (unsigned long long) (gc ? *gc : 0),
              (unsigned long long) (gm ? *gm : ~0ull), (unsigned long long) (ga ? *ga : 99));
    }
    printf ("O %s %s ", sid, eng);
    for (size_t i = 0; i < step_outn[k]; i++) printf ("%02x", out_buf[i]);
    printf ("\n");
  }
  if (gen_p) MIR_gen_finish (ctx);
  MIR_finish (ctx);
  (void) pad[1];
}

int main (void) {
  static char line[1 << 17];
  char id[64] = "?", engs[16][4], callee_name[128] = "";
  int nengs = 0;
  printf ("B %llx %llx\n", (unsigned long long) (uintptr_t) in_buf,
          (unsigned long long) (uintptr_t) out_buf);
  fflush (stdout);
  while (fgets (line, sizeof (line), stdin)) {
    size_t l = strlen (line);
    while (l > 0 && (line[l - 1] == '\n' || line[l - 1] == '\r')) line[--l] = 0;
    if (strncmp (line, "SO ", 3) == 0) {
      if (so_handle) dlclose (so_handle);
      so_handle = dlopen (line + 3, RTLD_NOW | RTLD_LOCAL);
      if (!so_handle) printf ("E - - dlopen %s\n", dlerror ());
    } else if (strncmp (line, "CASE ", 5) == 0) {
      snprintf (id, sizeof (id), "%s", line + 5);
      callee_name[0] = 0;
      nengs = 0;
      nsteps = 0;
      cur_step = 0;
      stk_words = 96;
      memset (in_img, 0, sizeof (in_img));
      memset (step_ret, 0, sizeof (step_ret));
      memset (step_outn, 0, sizeof (step_outn));
    } else if (strncmp (line, "STKW ", 5) == 0) {
      stk_words = atoi (line + 5);
      if (stk_words < 0 || stk_words > C05_NSTK) stk_words = C05_NSTK;
    } else if (strncmp (line, "STEP ", 5) == 0) {
      cur_step = atoi (line + 5);
      if (cur_step < 0 || cur_step >= MAX_STEPS) cur_step = 0;
      if (cur_step + 1 > nsteps) nsteps = cur_step + 1;
    } else if (strncmp (line, "ENG ", 4) == 0) {
      char *p = strtok (line + 4, " ");
      nengs = 0;
      while (p && nengs < 16) {
        snprintf (engs[nengs++], 4, "%s", p);
        p = strtok (NULL, " ");
      }
    } else if (strncmp (line, "CALLEE ", 7) == 0) {
      snprintf (callee_name, sizeof (callee_name), "%s", line + 7);
    } else if (strncmp (line, "RET ", 4) == 0) {
      unsigned long long v[9] = {0};
      sscanf (line + 4, "%llx %llx %llx %llx %llx %llx %llx %llx %llx", &v[0], &v[1], &v[2], &v[3],
              &v[4], &v[5], &v[6], &v[7], &v[8]);
      uint64_t *cr = step_ret[cur_step];
      cr[0] = v[0];
      cr[1] = v[1];
      cr[2] = v[2];
      cr[3] = v[3];
      cr[4] = v[4];
      cr[6] = v[5];
      cr[7] = v[6];
      cr[8] = v[7];
      cr[9] = v[8];
    } else if (strncmp (line, "IN ", 3) == 0) {
      const char *p = line + 3;
      size_t in_n = 0;
      while (p[0] && p[1] && in_n < sizeof (in_img[0])) {
        in_img[cur_step][in_n++] = (unsigned char) (hexv (p[0]) * 16 + hexv (p[1]));
        p += 2;
      }
    } else if (strncmp (line, "OUTN ", 5) == 0) {
      step_outn[cur_step] = (size_t) atoi (line + 5);
      if (step_outn[cur_step] > sizeof (out_buf)) step_outn[cur_step] = sizeof (out_buf);
    } else if (strcmp (line, "MIR") == 0) {
      mir_len = 0;
      while (fgets (line, sizeof (line), stdin)) {
        if (strncmp (line, "ENDMIR", 6) == 0) break;
        l = strlen (line);
        if (mir_len + l + 1 > mir_cap) {
          mir_cap = (mir_len + l + 1) * 2;
          mir_text = realloc (mir_text, mir_cap);
        }
        memcpy (mir_text + mir_len, line, l + 1);
        mir_len += l;
      }
      void *callee = (void *) c05_probe;
      int gcc_p = 0;
      if (callee_name[0]) {
        callee = so_handle ? dlsym (so_handle, callee_name) : NULL;
        gcc_p = 1;
        if (!callee) {
          printf ("E %s - no-callee %s\n", id, callee_name);
          continue;
        }
      }
      for (int e = 0; e < nengs; e++) {
        run_one (id, engs[e], callee, gcc_p);
        fflush (stdout);
      }
    }
  }
  return 0;
}
