/* C18: c2mir fatal-error exits under threads (forced schedules).

   c18_c2m_fatal <nthreads 2..6> <seed> [roles]        roles: string over {F,f,O}, one letter per thread in
                                                       ENTRY ORDER (F: `#include "missing"`, f: `#include
                                                       <missing>`, O: valid program); default: drawn from seed

   Every thread owns a context (MIR_init, c2mir_init) and compiles its own source through a getc callback.
   The schedule is forced with semaphores from inside the callbacks:
     1. the threads ENTER c2mir_compile one after the other in the given order (thread k+1 starts its call
        only after thread k's first getc call, i.e. after thread k's setjmp);
     2. when all are inside, the threads whose source hits the FATAL path (missing include file: c2mir
        leaves c2mir_compile by longjmp) continue one at a time, in entry order, while all valid compiles
        are still suspended in their first getc call;
     3. then the valid compiles finish.
   Each thread checks that ITS c2mir_compile call returned in ITS frame (a thread-local id must equal the
   id kept in the caller's stack frame), with ITS verdict (fatal -> 0, valid -> 1), and that a valid module
   loads, links and computes its own expected value.  A jump-buffer or error state shared between
   contexts makes a fatal exit land in another thread's frame: FAIL line (or a crash), schedule printed
   first.  Built WITHOUT sanitizers (the interference is inside libc's setjmp/longjmp). */
#define _GNU_SOURCE
#include <pthread.h>
#include <semaphore.h>
#include <signal.h>
#include <stdio.h>
#include <stdlib.h>
#include <string.h>
#include <stdint.h>
#include <unistd.h>
#include "mir.h"
#include "mir-gen.h"
#include "c2mir/c2mir.h"

#define MAXT 6
static int nthreads;
static char roles[MAXT + 1];
static sem_t entered[MAXT];   /* thread k is inside c2mir_compile (first getc) */
static sem_t go[MAXT];        /* thread k may continue reading */
static sem_t finished[MAXT];  /* thread k's c2mir_compile returned */
static __thread int tls_id = -1;
static int fails;

typedef struct {
  int id, first;
  const char *s;
  size_t pos;
} reader_t;

static int sched_getc (void *data) {
  reader_t *r = data;
  if (r->first) {
    r->first = 0;
    sem_post (&entered[r->id]);
    sem_wait (&go[r->id]);
  }
  return r->s[r->pos] == 0 ? EOF : (unsigned char) r->s[r->pos++];
}

static void say (const char *m) {
  if (write (1, m, strlen (m))) {}
}

static void on_signal (int sig) {
  char b[128];
  snprintf (b, sizeof (b), "FAIL signal %d in thread with tls id %d\n", sig, tls_id);
  say (b);
  _exit (4);
}

typedef struct {
  int id, ok, expect_ok;
  long val, expect_val;
} out_t;
static out_t outs[MAXT];

static void *thread_main (void *arg) {
  volatile int frame_id = (int) (intptr_t) arg; /* lives in THIS thread's frame */
  int id = frame_id;
  char src[512], b[200];
  reader_t rd = {id, 1, src, 0};
  struct c2mir_options opts;
  FILE *msg = fopen ("/dev/null", "w");
  MIR_context_t ctx;
  volatile int ok;

  tls_id = id;
  if (roles[id] == 'O')
    snprintf (src, sizeof (src), "static int tab[4] = {%d, 2, 3, 4};\nlong f (long n) { long s = 0; for (int i = 0; i < 4; i++) s += tab[i] * n; return s + %d; }\n",
              id + 1, id * 100);
  else
    snprintf (src, sizeof (src), "int before_%d;\n#include %cc18_no_such_file_%d.h%c\nlong f (long n) { return n; }\n", id,
              roles[id] == 'F' ? '"' : '<', id, roles[id] == 'F' ? '"' : '>');
  outs[id].id = id;
  outs[id].expect_ok = roles[id] == 'O';
  outs[id].expect_val = (long) (id + 1 + 2 + 3 + 4) * 7 + id * 100;
  ctx = MIR_init ();
  c2mir_init (ctx);
  memset (&opts, 0, sizeof (opts));
  opts.message_file = msg;
  if (id > 0) sem_wait (&entered[id - 1]), sem_post (&entered[id - 1]); /* enter in order */
  ok = c2mir_compile (ctx, &opts, sched_getc, &rd, "t.c", NULL);
  if (tls_id != frame_id) { /* we are not the thread that made this call */
    snprintf (b, sizeof (b), "FAIL thread %d (role %c) came out of thread %d's c2mir_compile call with result %d: its fatal-error exit landed in another context's frame\n",
              tls_id, tls_id >= 0 && tls_id < MAXT ? roles[tls_id] : '?', frame_id, ok);
    say (b);
    _exit (3);
  }
  outs[id].ok = ok;
  sem_post (&finished[id]);
  if (ok) {
    MIR_item_t f_item = NULL;
    for (MIR_module_t m = DLIST_HEAD (MIR_module_t, *MIR_get_module_list (ctx)); m != NULL; m = DLIST_NEXT (MIR_module_t, m)) {
      MIR_load_module (ctx, m);
      for (MIR_item_t it = DLIST_HEAD (MIR_item_t, m->items); it != NULL; it = DLIST_NEXT (MIR_item_t, it))
        if (it->item_type == MIR_func_item && strcmp (it->u.func->name, "f") == 0) f_item = it;
    }
    if (f_item != NULL) {
      MIR_val_t r, a;
      a.i = 7;
      MIR_link (ctx, MIR_set_interp_interface, NULL);
      MIR_interp_arr (ctx, f_item, &r, 1, &a);
      outs[id].val = r.i;
    } else
      outs[id].val = -1;
  }
  c2mir_finish (ctx);
  MIR_finish (ctx);
  fclose (msg);
  return NULL;
}

int main (int argc, char **argv) {
  pthread_t th[MAXT];
  if (argc < 3) return 2;
  nthreads = atoi (argv[1]);
  uint64_t seed = strtoull (argv[2], NULL, 10);
  if (nthreads < 2 || nthreads > MAXT) return 2;
  if (argc > 3 && strlen (argv[3]) == (size_t) nthreads)
    strcpy (roles, argv[3]);
  else {
    int nf = 0;
    for (int i = 0; i < nthreads; i++) {
      seed = seed * 6364136223846793005ull + 1442695040888963407ull;
      roles[i] = "FfOO"[(seed >> 33) % 4];
      nf += roles[i] != 'O';
    }
    if (nf == 0) roles[0] = 'F';
    if (nf == nthreads) roles[nthreads - 1] = 'O';
  }
  for (int i = 0; i < nthreads; i++)
    if (roles[i] != 'F' && roles[i] != 'f' && roles[i] != 'O') return 2;
  signal (SIGSEGV, on_signal);
  signal (SIGBUS, on_signal);
  signal (SIGABRT, on_signal);
  signal (SIGILL, on_signal);
  printf ("SCHED threads=%d roles=%s  (entry order = thread number; then fatal compiles continue in order while valid ones wait; then valid ones)\n",
          nthreads, roles);
  fflush (stdout);
  for (int i = 0; i < nthreads; i++) sem_init (&entered[i], 0, 0), sem_init (&go[i], 0, 0), sem_init (&finished[i], 0, 0);
  for (int i = 0; i < nthreads; i++) pthread_create (&th[i], NULL, thread_main, (void *) (intptr_t) i);
  sem_wait (&entered[nthreads - 1]); /* all inside c2mir_compile */
  sem_post (&entered[nthreads - 1]);
  for (int pass = 0; pass < 2; pass++)
    for (int i = 0; i < nthreads; i++)
      if ((roles[i] != 'O') == (pass == 0)) {
        struct timespec ts;
        sem_post (&go[i]);
        clock_gettime (CLOCK_REALTIME, &ts);
        ts.tv_sec += 20;
        if (sem_timedwait (&finished[i], &ts) != 0) {
          printf ("FAIL thread %d (role %c): its c2mir_compile call did not return\n", i, roles[i]);
          fflush (stdout);
          _exit (5);
        }
      }
  for (int i = 0; i < nthreads; i++) pthread_join (th[i], NULL);
  for (int i = 0; i < nthreads; i++) {
    int bad = outs[i].ok != outs[i].expect_ok || (outs[i].ok && outs[i].val != outs[i].expect_val);
    printf ("RES %d role=%c ok=%d expect_ok=%d val=%ld expect_val=%ld%s\n", i, roles[i], outs[i].ok, outs[i].expect_ok,
            outs[i].val, outs[i].ok ? outs[i].expect_val : 0, bad ? " WRONG" : "");
    fails += bad;
  }
  printf ("DONE fails=%d\n", fails);
  return 0;
}
