/* C20 harness: MIR -> C through mir2c (with a watchdog), and execution of the compiled translation
   next to MIR_interp on the same inputs.

   c20_run emit <file.mir> <out.c> [max-bytes] [seconds]
       scans the text (all modules) in a fresh context and writes MIR_module2c of every module to
       <out.c>.  stdout: `M <module> <items>` before a module is translated, `D <module>` after it;
       <items> = comma list of <N|A><d|r|e|b|o> for the module's items (named/anonymous; data, ref data,
       expr data, bss, other) — the input of the Lean model of the section printer.
       exit 0 = done; 41 = output limit reached (RLIMIT_FSIZE); 42 = watchdog alarm; 3 = MIR error
       (`E mir-error …`); otherwise the signal/abort of the translator itself.
   c20_run run <file.mir> <name=lib.so,...> [-q] < plan
       engine 0 is MIR_interp on the module; every further engine calls the function of the same name
       in a shared object compiled from the emitted C (the logging externals ext0..extp are resolved
       against this executable).  Plan and output format are those of harness/engine.c
       (`grid`/`call`/`prog`, lines `R …`, `P …`, `M …`, `L …`).

   The engine machinery (externals, call log, signatures, crash containment) is harness/engine.c itself,
   included here so that C20 compares with exactly the executor the other properties use. */
#define _GNU_SOURCE
#include <dlfcn.h>
#include <sys/resource.h>
#include <unistd.h>
/* engine.c arms a 10 s alarm around every call; the functions run here take microseconds, and a
   translation in which gcc exploited undefined behaviour may loop for ever on every input: cap it */
static unsigned c20_alarm_secs = 2;
static unsigned c20_alarm (unsigned s) { return (alarm) (s == 0 ? 0 : c20_alarm_secs); }
#define alarm(s) c20_alarm (s)
#define main engine_main_unused
#include "engine.c"
#undef main
#undef alarm
#include "mir2c/mir2c.h"

static void on_limit (int sig) {
  (void) sig;
  _exit (41);
}
static void on_alarm (int sig) {
  (void) sig;
  _exit (42);
}

static char item_kind (MIR_item_t it) {
  switch (it->item_type) {
  case MIR_data_item: return 'd';
  case MIR_ref_data_item: return 'r';
  case MIR_expr_data_item: return 'e';
  case MIR_bss_item: return 'b';
  default: return 'o';
  }
}

static int do_emit (int argc, char **argv) {
  if (argc < 4) return 2;
  long maxb = argc > 4 ? atol (argv[4]) : 8 * 1024 * 1024;
  int secs = argc > 5 ? atoi (argv[5]) : 10;
  struct rlimit rl = {(rlim_t) maxb, (rlim_t) maxb};
  setrlimit (RLIMIT_FSIZE, &rl);
  signal (SIGXFSZ, on_limit);
  signal (SIGALRM, on_alarm);
  alarm (secs);
  char *text = read_file (argv[2]);
  MIR_context_t ctx = MIR_init ();
  MIR_set_error_func (ctx, err_func);
  MIR_scan_string (ctx, text);
  FILE *f = fopen (argv[3], "w");
  if (f == NULL) { perror (argv[3]); return 2; }
  for (MIR_module_t m = DLIST_HEAD (MIR_module_t, *MIR_get_module_list (ctx)); m != NULL;
       m = DLIST_NEXT (MIR_module_t, m)) {
    printf ("M %s ", m->name);
    int first = 1;
    for (MIR_item_t it = DLIST_HEAD (MIR_item_t, m->items); it != NULL; it = DLIST_NEXT (MIR_item_t, it)) {
      int named = it->item_type == MIR_data_item       ? it->u.data->name != NULL
                  : it->item_type == MIR_ref_data_item  ? it->u.ref_data->name != NULL
                  : it->item_type == MIR_expr_data_item ? it->u.expr_data->name != NULL
                  : it->item_type == MIR_bss_item       ? it->u.bss->name != NULL
                                                        : 1;
      printf ("%s%c%c", first ? "" : ",", named ? 'N' : 'A', item_kind (it));
      first = 0;
    }
    printf ("\n");
    fflush (stdout);
    fprintf (f, "/* ==== module %s ==== */\n", m->name);
    MIR_module2c (ctx, f, m);
    fflush (f);
    printf ("D %s\n", m->name);
    fflush (stdout);
  }
  fclose (f);
  alarm (0);
  MIR_finish (ctx);
  return 0;
}

static void load_so (eng_t *e, const char *text, const char *path) {
  void *h = dlopen (path, RTLD_NOW | RTLD_LOCAL);
  if (h == NULL) {
    printf ("E dlopen %s\n", dlerror ());
    exit (4);
  }
  MIR_context_t ctx = e->ctx = MIR_init ();
  MIR_set_error_func (ctx, err_func);
  MIR_scan_string (ctx, text);
  for (MIR_module_t m = DLIST_HEAD (MIR_module_t, *MIR_get_module_list (ctx)); m != NULL;
       m = DLIST_NEXT (MIR_module_t, m))
    for (MIR_item_t it = DLIST_HEAD (MIR_item_t, m->items); it != NULL; it = DLIST_NEXT (MIR_item_t, it))
      if (it->item_type == MIR_func_item) it->addr = dlsym (h, it->u.func->name);
}

static int do_run (int argc, char **argv) {
  if (argc < 4) return 2;
  quiet = argc > 4 && !strcmp (argv[4], "-q");
  char *text = read_file (argv[2]);
  struct sigaction sa;
  memset (&sa, 0, sizeof (sa));
  sa.sa_handler = on_sig;
  sa.sa_flags = SA_NODEFER;
  sigaction (SIGSEGV, &sa, NULL); sigaction (SIGFPE, &sa, NULL); sigaction (SIGILL, &sa, NULL);
  sigaction (SIGBUS, &sa, NULL); sigaction (SIGALRM, &sa, NULL); sigaction (SIGABRT, &sa, NULL);
  eng_t *e = &engs[neng++];
  strcpy (e->name, "interp");
  e->kind = E_INTERP;
  load_all (e, text);
  char *list = strdup (argv[3]);
  for (char *t = strtok (list, ","); t != NULL; t = strtok (NULL, ",")) {
    char *eq = strchr (t, '=');
    if (eq == NULL || neng >= MAXENG) return 2;
    *eq = 0;
    e = &engs[neng++];
    strncpy (e->name, t, 15);
    e->kind = E_GEN; /* run_one: native call through item->addr */
    load_so (e, text, eq + 1);
  }
  printf ("H engines");
  for (int k = 0; k < neng; k++) printf (" %s", engs[k].name);
  printf ("\n");
  char *line = NULL;
  size_t cap = 0;
  while (getline (&line, &cap, stdin) > 0) {
    static char *tok[MAXG + 8];
    int nt = 0;
    for (char *t = strtok (line, " \t\n"); t != NULL && nt < MAXG + 8; t = strtok (NULL, " \t\n")) tok[nt++] = t;
    if (nt == 0) continue;
    if (!strcmp (tok[0], "ivals") || !strcmp (tok[0], "dvals") || !strcmp (tok[0], "fvals") || !strcmp (tok[0], "lvals")) {
      uint64_t *dst = tok[0][0] == 'i' ? ivals : tok[0][0] == 'd' ? dvals : fvals;
      int *cnt = tok[0][0] == 'i' ? &nival : tok[0][0] == 'd' ? &ndval : tok[0][0] == 'f' ? &nfval : &nlval;
      for (int i = 1; i < nt && *cnt < MAXG; i++) {
        if (tok[0][0] == 'l') {
          char *s = tok[i];
          size_t len = strlen (s);
          bits_t b = {0, 0};
          if (len > 16) { b.lo = strtoull (s + len - 16, NULL, 16); s[len - 16] = 0; b.hi = (uint16_t) strtoul (s, NULL, 16); }
          else b.lo = strtoull (s, NULL, 16);
          lvals[(*cnt)++] = b;
        } else
          dst[(*cnt)++] = strtoull (tok[i], NULL, 16);
      }
    } else if (!strcmp (tok[0], "grid") && nt >= 4) {
      do_grid (tok[1], tok[2], tok[3]);
    } else if (!strcmp (tok[0], "call") && nt >= 3) {
      MIR_item_t fis[MAXENG];
      int ok = 1;
      for (int k = 0; k < neng; k++)
        if ((fis[k] = find_func (engs[k].ctx, tok[1])) == NULL || (k > 0 && fis[k]->addr == NULL)) ok = 0;
      if (!ok) { printf ("E no-func %s\n", tok[1]); continue; }
      bits_t args[8];
      memset (args, 0, sizeof (args));
      for (int i = 3; i < nt && i - 3 < 8; i++) {
        char *s = tok[i];
        size_t len = strlen (s);
        if (len > 16) { args[i - 3].lo = strtoull (s + len - 16, NULL, 16); s[len - 16] = 0; args[i - 3].hi = (uint16_t) strtoul (s, NULL, 16); }
        else args[i - 3].lo = strtoull (s, NULL, 16);
      }
      eval_and_print (tok[1], fis, tok[2], args);
    } else if (!strcmp (tok[0], "prog") && nt >= 8) {
      uint64_t iv[4], dv[2];
      for (int i = 0; i < 4; i++) iv[i] = strtoull (tok[2 + i], NULL, 16);
      for (int i = 0; i < 2; i++) dv[i] = strtoull (tok[6 + i], NULL, 16);
      do_prog (tok[1], iv, dv);
    }
    fflush (stdout);
  }
  return 0;
}

int main (int argc, char **argv) {
  if (argc >= 2 && !strcmp (argv[1], "emit")) return do_emit (argc, argv);
  if (argc >= 2 && !strcmp (argv[1], "run")) return do_run (argc, argv);
  fprintf (stderr, "usage: c20_run emit <file.mir> <out.c> [max-bytes] [secs] | run <file.mir> <name=lib.so,...> [-q] < plan\n");
  return 2;
}
