/* C16 structural harness: calls the real _MIR_duplicate_func_insns / _MIR_restore_func_insns on every
   function of a textual MIR module, applies a position-based edit script to the working copy through
   the API the generator itself uses (MIR_new_insn, MIR_insert_insn_*, MIR_remove_insn,
   _MIR_new_temp_reg, MIR_new_func_reg, direct operand/data stores), walks the public and internal
   structs and prints a canonical description after each phase.  The same description + script is fed
   to the Lean model (mirdrv_c16) by checks/c16.py and the outputs are diffed.

   usage: c16_struct <module.mir> <script> [link]
     script: lines "S"  (start of the script of the next function, used round-robin) and
             lines "E <edit>"; see run_edit.
     link:   if given, modules are loaded and linked (interp interface) first, so functions are in
             the simplified form the generator sees; otherwise only loaded.  */
#include "mir.c"
#include <setjmp.h>
#include <unistd.h>

static jmp_buf err_jmp;
static int err_armed = 0;
static char err_msg[512];

static void MIR_NO_RETURN err_func (MIR_error_type_t t, const char *fmt, ...) {
  va_list ap;
  va_start (ap, fmt);
  vsnprintf (err_msg, sizeof (err_msg), fmt, ap);
  va_end (ap);
  if (err_armed) longjmp (err_jmp, 1 + (int) t);
  printf ("MIRERROR %d %s\n", (int) t, err_msg);
  fflush (stdout);
  _exit (3);
}

static char dummy_target[64];
static void *resolver (const char *name MIR_UNUSED) { return dummy_target; }

static const char *kind_of_code (MIR_insn_code_t code) {
  /* exactly the tests of store_labels_for_duplication / redirect_duplicated_labels */
  if (MIR_any_branch_code_p (code) || code == MIR_LADDR || code == MIR_PRBEQ || code == MIR_PRBNE) {
    if (code == MIR_JMPI) return "jmpi";
    if (code == MIR_SWITCH) return "switch";
    if (code == MIR_LADDR) return "laddr";
    return "branch";
  } else if (code == MIR_LABEL)
    return "label";
  return "other";
}

static void out_ptr (void *p) {
  if (p == NULL)
    printf ("-");
  else
    printf ("@%llx", (unsigned long long) (uintptr_t) p);
}

static void out_hex (const void *p, size_t n) {
  for (size_t i = 0; i < n; i++) printf ("%02x", ((const unsigned char *) p)[i]);
}

static void out_op (MIR_context_t ctx, MIR_op_t *op) {
  switch (op->mode) {
  case MIR_OP_LABEL:
    printf (" L");
    out_ptr (op->u.label);
    break;
  case MIR_OP_REG: printf (" R%u", op->u.reg); break;
  case MIR_OP_MEM:
    printf (" M%s,%u,%u,%u:%lld:%u:%u", MIR_type_str (ctx, op->u.mem.type), op->u.mem.base,
            op->u.mem.index, (unsigned) op->u.mem.scale, (long long) op->u.mem.disp,
            op->u.mem.alias, op->u.mem.nonalias);
    break;
  case MIR_OP_INT: printf (" Xint:%lld", (long long) op->u.i); break;
  case MIR_OP_UINT: printf (" Xuint:%llu", (unsigned long long) op->u.u); break;
  case MIR_OP_FLOAT:
    printf (" Xf:");
    out_hex (&op->u.f, sizeof (float));
    break;
  case MIR_OP_DOUBLE:
    printf (" Xd:");
    out_hex (&op->u.d, sizeof (double));
    break;
  case MIR_OP_LDOUBLE:
    printf (" Xld:");
    out_hex (&op->u.ld, 10);
    break;
  case MIR_OP_REF: {
    const char *n = MIR_item_name (ctx, op->u.ref);
    printf (" Xref:%d:%s", (int) op->u.ref->item_type, n == NULL ? "?" : n);
    break;
  }
  case MIR_OP_STR:
    printf (" Xstr:");
    out_hex (op->u.str.s, op->u.str.len);
    break;
  case MIR_OP_VAR: printf (" Xvar:%u", op->u.var); break;
  case MIR_OP_VAR_MEM:
    printf (" Xvmem:%s,%u,%u,%u:%lld", MIR_type_str (ctx, op->u.var_mem.type), op->u.var_mem.base,
            op->u.var_mem.index, (unsigned) op->u.var_mem.scale, (long long) op->u.var_mem.disp);
    break;
  default: printf (" Xmode%d", (int) op->mode); break;
  }
}

static void out_insn (MIR_context_t ctx, MIR_insn_t insn) {
  printf ("I ");
  out_ptr (insn);
  if ((unsigned) insn->code < MIR_INSN_BOUND)
    printf (" %s", insn_descs[insn->code].name);
  else
    printf (" code%u", (unsigned) insn->code);
  printf (" d=");
  out_ptr (insn->data);
  printf (" n=%u", insn->nops);
  if (insn->code == MIR_LABEL) {
    out_op (ctx, &insn->ops[0]); /* the label number lives in ops[0] although nops == 0 */
  } else {
    for (unsigned i = 0; i < insn->nops; i++) out_op (ctx, &insn->ops[i]);
  }
  printf ("\n");
}

static const char *dash (const char *s) { return s == NULL || s[0] == 0 ? "-" : s; }

static void dump (MIR_context_t ctx, MIR_item_t item, const char *tag) {
  MIR_func_t func = item->u.func;
  func_regs_t fr = func->internal;
  size_t nrd = VARR_LENGTH (reg_desc_t, fr->reg_descs), tab;
  size_t ng = func->global_vars == NULL ? 0 : VARR_LENGTH (MIR_var_t, func->global_vars);

  printf ("%s\n", tag);
  /* original_vars_num is not initialised before the first duplicate: print 0 for D0 */
  printf ("F ovn=%lu ng=%lu ltn=%u lab=%lu\n",
          strcmp (tag, "D0") == 0 ? 0ul : (unsigned long) func->original_vars_num,
          (unsigned long) ng, func->last_temp_num, (unsigned long) curr_label_num);
  for (size_t i = 0; i < VARR_LENGTH (MIR_var_t, func->vars); i++) {
    MIR_var_t v = VARR_GET (MIR_var_t, func->vars, i);
    printf ("V %s %s\n", MIR_type_str (ctx, v.type), v.name);
  }
  for (size_t i = 1; i < nrd; i++) {
    reg_desc_t *rd = &VARR_ADDR (reg_desc_t, fr->reg_descs)[i];
    printf ("RD %s %u %s %s\n", MIR_type_str (ctx, rd->type), rd->reg, dash (rd->name),
            dash (rd->hard_reg_name));
  }
  printf ("N2R");
  for (size_t i = 1; i < nrd; i++)
    if (HTAB_DO (size_t, fr->name2rdn_tab, i, HTAB_FIND, tab) && tab == i) printf (" %lu", (unsigned long) i);
  printf ("\nR2R");
  for (size_t i = 1; i < nrd; i++)
    if (HTAB_DO (size_t, fr->reg2rdn_tab, i, HTAB_FIND, tab) && tab == i) printf (" %lu", (unsigned long) i);
  printf ("\n");
  for (size_t i = 0; i < VARR_LENGTH (MIR_var_t, func->vars); i++) { /* what the API answers */
    MIR_var_t v = VARR_GET (MIR_var_t, func->vars, i);
    err_armed = 1;
    if (setjmp (err_jmp) == 0) {
      MIR_reg_t reg = MIR_reg (ctx, v.name, func);
      MIR_type_t t = MIR_reg_type (ctx, reg, func);
      const char *hrn = MIR_reg_hard_reg_name (ctx, reg, func);
      const char *rn = MIR_reg_name (ctx, reg, func);
      printf ("LK %s %s %u %s %s\n", v.name, MIR_type_str (ctx, t), reg, dash (hrn), rn);
    } else {
      printf ("LK %s ?\n", v.name);
    }
    err_armed = 0;
  }
  printf ("O");
  for (MIR_insn_t i = DLIST_HEAD (MIR_insn_t, func->original_insns); i != NULL;
       i = DLIST_NEXT (MIR_insn_t, i)) {
    printf (" ");
    out_ptr (i);
  }
  printf ("\nW");
  for (MIR_insn_t i = DLIST_HEAD (MIR_insn_t, func->insns); i != NULL;
       i = DLIST_NEXT (MIR_insn_t, i)) {
    printf (" ");
    out_ptr (i);
  }
  printf ("\n");
  for (MIR_insn_t i = DLIST_HEAD (MIR_insn_t, func->original_insns); i != NULL;
       i = DLIST_NEXT (MIR_insn_t, i))
    out_insn (ctx, i);
  for (MIR_insn_t i = DLIST_HEAD (MIR_insn_t, func->insns); i != NULL;
       i = DLIST_NEXT (MIR_insn_t, i))
    out_insn (ctx, i);
  for (MIR_lref_data_t l = func->first_lref; l != NULL; l = l->next) {
    printf ("LR ");
    out_ptr (l->label);
    printf (" ");
    out_ptr (l->label2);
    printf (" ");
    out_ptr (l->orig_label);
    printf (" ");
    out_ptr (l->orig_label2);
    printf ("\n");
  }
  printf ("END\n");
}

/* ---- text of a function item and of the lref items that refer to it ---- */
static char *item_text (MIR_context_t ctx, MIR_item_t item) {
  char *buf = NULL;
  size_t len = 0;
  FILE *f = open_memstream (&buf, &len);
  MIR_output_item (ctx, f, item);
  for (MIR_item_t it = DLIST_HEAD (MIR_item_t, item->module->items); it != NULL;
       it = DLIST_NEXT (MIR_item_t, it))
    if (it->item_type == MIR_lref_data_item) {
      for (MIR_lref_data_t l = item->u.func->first_lref; l != NULL; l = l->next)
        if (l == it->u.lref_data) MIR_output_item (ctx, f, it);
    }
  fclose (f);
  return buf;
}

/* ---- edits ---- */
static size_t wlen (MIR_func_t func) { return DLIST_LENGTH (MIR_insn_t, func->insns); }
static MIR_insn_t wnth (MIR_func_t func, size_t n) {
  MIR_insn_t i = DLIST_HEAD (MIR_insn_t, func->insns);
  while (n-- > 0 && i != NULL) i = DLIST_NEXT (MIR_insn_t, i);
  return i;
}
static MIR_insn_t nth_label (MIR_func_t func, unsigned long k) {
  size_t n = 0;
  for (MIR_insn_t i = DLIST_HEAD (MIR_insn_t, func->insns); i != NULL; i = DLIST_NEXT (MIR_insn_t, i))
    if (i->code == MIR_LABEL) n++;
  if (n == 0) return NULL;
  k %= n;
  for (MIR_insn_t i = DLIST_HEAD (MIR_insn_t, func->insns); i != NULL; i = DLIST_NEXT (MIR_insn_t, i))
    if (i->code == MIR_LABEL && k-- == 0) return i;
  return NULL;
}
static void ins_at (MIR_context_t ctx, MIR_item_t item, unsigned long pos, MIR_insn_t insn) {
  MIR_func_t func = item->u.func;
  size_t len = wlen (func), p = pos % (len + 1);
  if (p == len)
    MIR_append_insn (ctx, item, insn);
  else
    MIR_insert_insn_before (ctx, item, wnth (func, p), insn);
}
static MIR_insn_code_t code_by_name (const char *name) {
  for (unsigned c = 0; c < MIR_INSN_BOUND; c++)
    if (strcmp (insn_descs[c].name, name) == 0) return (MIR_insn_code_t) c;
  return MIR_INSN_BOUND;
}
static MIR_type_t type_by_name (MIR_context_t ctx, const char *name) {
  for (int t = MIR_T_I8; t < MIR_T_BOUND; t++)
    if (strcmp (MIR_type_str (ctx, (MIR_type_t) t), name) == 0) return (MIR_type_t) t;
  return MIR_T_BOUND;
}

static void run_edit (MIR_context_t ctx, MIR_item_t item, char *line) {
  MIR_func_t func = item->u.func;
  char *w[8];
  int n = 0;
  for (char *t = strtok (line, " \n"); t != NULL && n < 8; t = strtok (NULL, " \n")) w[n++] = t;
  if (n == 0) return;
  size_t len = wlen (func);
#define U(i) strtoul (w[i], NULL, 10)
  if (strcmp (w[0], "ins") == 0 && n >= 3) {
    if (strcmp (w[2], "mov") == 0 && n == 5) {
      ins_at (ctx, item, U (1),
              MIR_new_insn (ctx, MIR_MOV, MIR_new_reg_op (ctx, (MIR_reg_t) U (3)),
                            MIR_new_reg_op (ctx, (MIR_reg_t) U (4))));
    } else if (strcmp (w[2], "label") == 0 && n == 3) {
      ins_at (ctx, item, U (1), MIR_new_label (ctx));
    } else if (strcmp (w[2], "jmp") == 0 && n == 4) {
      MIR_insn_t l = nth_label (func, U (3));
      if (l != NULL) ins_at (ctx, item, U (1), MIR_new_insn (ctx, MIR_JMP, MIR_new_label_op (ctx, l)));
    } else if (strcmp (w[2], "bt") == 0 && n == 5) {
      MIR_insn_t l = nth_label (func, U (3));
      if (l != NULL)
        ins_at (ctx, item, U (1),
                MIR_new_insn (ctx, MIR_BT, MIR_new_label_op (ctx, l),
                              MIR_new_reg_op (ctx, (MIR_reg_t) U (4))));
    } else if (strcmp (w[2], "switch") == 0 && n == 6) {
      MIR_insn_t l1 = nth_label (func, U (4)), l2 = nth_label (func, U (5));
      if (l1 != NULL && l2 != NULL) {
        MIR_op_t ops[3];
        ops[0] = MIR_new_reg_op (ctx, (MIR_reg_t) U (3));
        ops[1] = MIR_new_label_op (ctx, l1);
        ops[2] = MIR_new_label_op (ctx, l2);
        ins_at (ctx, item, U (1), MIR_new_insn_arr (ctx, MIR_SWITCH, 3, ops));
      }
    }
  } else if (strcmp (w[0], "del") == 0 && n == 2) {
    if (len != 0) {
      MIR_insn_t i = wnth (func, U (1) % len);
      if (i->code != MIR_LABEL) MIR_remove_insn (ctx, item, i);
    }
  } else if (strcmp (w[0], "move") == 0 && n == 3) {
    if (len != 0) {
      MIR_insn_t i = wnth (func, U (1) % len);
      DLIST_REMOVE (MIR_insn_t, func->insns, i);
      ins_at (ctx, item, U (2), i);
    }
  } else if (strcmp (w[0], "setop") == 0 && n == 5) {
    if (len != 0) {
      MIR_insn_t i = wnth (func, U (1) % len);
      if (i->code != MIR_LABEL && i->nops != 0) {
        unsigned idx = U (2) % i->nops;
        if (strcmp (w[3], "reg") == 0)
          i->ops[idx] = MIR_new_reg_op (ctx, (MIR_reg_t) U (4));
        else if (strcmp (w[3], "int") == 0)
          i->ops[idx] = MIR_new_int_op (ctx, (int64_t) strtoll (w[4], NULL, 10));
        else {
          MIR_insn_t l = nth_label (func, U (4));
          if (l != NULL) i->ops[idx] = MIR_new_label_op (ctx, l);
        }
      }
    }
  } else if (strcmp (w[0], "setdata") == 0 && n == 3) {
    if (len != 0) {
      MIR_insn_t i = wnth (func, U (1) % len);
      i->data = strcmp (w[2], "-") == 0 ? NULL : (void *) nth_label (func, U (2));
    }
  } else if (strcmp (w[0], "setcode") == 0 && n == 3) {
    if (len != 0) {
      MIR_insn_t i = wnth (func, U (1) % len);
      MIR_insn_code_t c = code_by_name (w[2]);
      if (strcmp (kind_of_code (i->code), "other") == 0 && i->nops == 3 && c != MIR_INSN_BOUND
          && strcmp (kind_of_code (c), "other") == 0)
        i->code = c;
    }
  } else if (strcmp (w[0], "newtemp") == 0 && n == 2) {
    err_armed = 1;
    if (setjmp (err_jmp) == 0) _MIR_new_temp_reg (ctx, type_by_name (ctx, w[1]), func);
    err_armed = 0;
  } else if (strcmp (w[0], "addreg") == 0 && n == 3) {
    err_armed = 1;
    if (setjmp (err_jmp) == 0) MIR_new_func_reg (ctx, func, type_by_name (ctx, w[1]), w[2]);
    err_armed = 0;
  } else if (strcmp (w[0], "lref") == 0 && n == 4) {
    size_t nl = 0;
    for (MIR_lref_data_t l = func->first_lref; l != NULL; l = l->next) nl++;
    MIR_insn_t l1 = nth_label (func, U (2));
    if (nl != 0 && l1 != NULL) {
      size_t j = U (1) % nl;
      MIR_lref_data_t l = func->first_lref;
      while (j-- > 0) l = l->next;
      l->label = l1;
      l->label2 = strcmp (w[3], "-") == 0 ? NULL : nth_label (func, U (3));
    }
  }
#undef U
}

#define MAX_SCRIPTS 64
#define MAX_LINES 256
static char *scripts[MAX_SCRIPTS][MAX_LINES];
static int script_len[MAX_SCRIPTS], nscripts = 0;

static char *read_file (const char *name) {
  FILE *f = fopen (name, "rb");
  if (f == NULL) {
    perror (name);
    exit (2);
  }
  fseek (f, 0, SEEK_END);
  long n = ftell (f);
  fseek (f, 0, SEEK_SET);
  char *buf = malloc (n + 1);
  if (fread (buf, 1, n, f) != (size_t) n) exit (2);
  buf[n] = 0;
  fclose (f);
  return buf;
}

int main (int argc, char **argv) {
  if (argc < 3) {
    fprintf (stderr, "usage: c16_struct module.mir script [link]\n");
    return 2;
  }
  int link_p = argc > 3 && strcmp (argv[3], "link") == 0;
  char *text = read_file (argv[1]);
  static char *script;
  script = read_file (argv[2]);
  for (char *l = strtok (script, "\n"); l != NULL; l = strtok (NULL, "\n")) {
    if (l[0] == 'S') {
      if (nscripts < MAX_SCRIPTS) nscripts++;
    } else if (l[0] == 'E' && l[1] == ' ' && nscripts > 0
               && script_len[nscripts - 1] < MAX_LINES) {
      scripts[nscripts - 1][script_len[nscripts - 1]++] = l + 2;
    }
  }
  /* classification table of every opcode */
  for (unsigned c = 0; c < MIR_INSN_BOUND; c++)
    printf ("K %s %s\n", insn_descs[c].name, kind_of_code ((MIR_insn_code_t) c));
  printf ("ENDK\n");

  MIR_context_t ctx = MIR_init ();
  MIR_set_error_func (ctx, err_func);
  MIR_scan_string (ctx, text);
  for (MIR_module_t m = DLIST_HEAD (MIR_module_t, *MIR_get_module_list (ctx)); m != NULL;
       m = DLIST_NEXT (MIR_module_t, m))
    MIR_load_module (ctx, m);
  if (link_p) MIR_link (ctx, MIR_set_interp_interface, resolver);

  int fno = 0;
  for (MIR_module_t m = DLIST_HEAD (MIR_module_t, *MIR_get_module_list (ctx)); m != NULL;
       m = DLIST_NEXT (MIR_module_t, m))
    for (MIR_item_t item = DLIST_HEAD (MIR_item_t, m->items); item != NULL;
         item = DLIST_NEXT (MIR_item_t, item)) {
      if (item->item_type != MIR_func_item) continue;
      MIR_func_t func = item->u.func;
      printf ("FUNC %s %d\n", func->name, fno);
      char *t0 = item_text (ctx, item);
      dump (ctx, item, "D0");
      /* remember the pristine pointers */
      size_t n0 = DLIST_LENGTH (MIR_insn_t, func->insns), k = 0;
      MIR_insn_t *p0 = malloc (sizeof (MIR_insn_t) * (n0 + 1));
      for (MIR_insn_t i = DLIST_HEAD (MIR_insn_t, func->insns); i != NULL;
           i = DLIST_NEXT (MIR_insn_t, i))
        p0[k++] = i;

      if (getenv ("C16_NODUP") != NULL) { /* control run: is a leak there without duplicate/restore? */
        free (t0);
        free (p0);
        fno++;
        continue;
      }
      _MIR_duplicate_func_insns (ctx, item);
      char *t1 = item_text (ctx, item);
      dump (ctx, item, "D1");
      int orig_same = DLIST_LENGTH (MIR_insn_t, func->original_insns) == n0;
      k = 0;
      for (MIR_insn_t i = DLIST_HEAD (MIR_insn_t, func->original_insns); i != NULL && k < n0;
           i = DLIST_NEXT (MIR_insn_t, i))
        if (p0[k++] != i) orig_same = 0;
      int fresh = 1; /* no member of the working list is a pristine instruction */
      for (MIR_insn_t i = DLIST_HEAD (MIR_insn_t, func->insns); i != NULL;
           i = DLIST_NEXT (MIR_insn_t, i))
        for (k = 0; k < n0; k++)
          if (p0[k] == i) fresh = 0;

      if (nscripts > 0) {
        int s = fno % nscripts;
        for (int e = 0; e < script_len[s]; e++) {
          char *copy = strdup (scripts[s][e]);
          run_edit (ctx, item, copy);
          free (copy);
        }
      }
      dump (ctx, item, "D2");

      _MIR_restore_func_insns (ctx, item);
      char *t3 = item_text (ctx, item);
      dump (ctx, item, "D3");
      int rest_same = DLIST_LENGTH (MIR_insn_t, func->insns) == n0;
      k = 0;
      for (MIR_insn_t i = DLIST_HEAD (MIR_insn_t, func->insns); i != NULL && k < n0;
           i = DLIST_NEXT (MIR_insn_t, i))
        if (p0[k++] != i) rest_same = 0;
      printf ("CHK orig_same=%d fresh=%d restored_same=%d text_dup_same=%d text_restore_same=%d\n",
              orig_same, fresh, rest_same, strcmp (t0, t1) == 0, strcmp (t0, t3) == 0);
      if (strcmp (t0, t1) != 0 || strcmp (t0, t3) != 0) {
        printf ("TEXT0<<\n%s>>\nTEXT1<<\n%s>>\nTEXT3<<\n%s>>\n", t0, t1, t3);
      }
      free (t0);
      free (t1);
      free (t3);
      free (p0);
      fno++;
    }
  printf ("DONE %d\n", fno);
  fflush (stdout);
  MIR_finish (ctx);
  free (text);
  return 0;
}
