/* C15 harness: builds one MIR function per input line through the public construction API under a
   longjmp-ing error function and reports whether the checker accepted it or which
   MIR_error_type_t it reported, and at which construction stage.

   Input line (whitespace separated tokens):
     <id> { P <va> <nres> <type>* <nargs> (<type> <size>)* }*
          F <va> <nres> <type>* <nargs> (<type> <name>)*
          { R <type> <name> | G <type> <name> <hard reg name or -> }*  { I <code> <nops> <op>* }*
          [ Z F ... ]*  E
   G = MIR_new_global_func_reg (counts as an R directive for the stage number; `-` = NULL name);
   Z = finish the current function (stage finish) so that another F can follow.
   Every function gets standard registers ri:i64 rf:f rd:d rl:ld declared first unless the
   F directive is written `F!`.
   Operand tokens:
     r.i r.f r.d r.l   declared standard register     r.u   register number that was never declared
     r:<name>          register declared by an R directive or function argument (looked up by number)
     i u f d l         int / uint / float / double / long double immediates
     m.<type#>.<disp>.<base>.<index>   memory; base/index in {0,i,f,d,l,u}
     L                 label (fresh; all c15_labels are appended to the function before finishing)
     ref.p<k>          prototype k of this line;  ref.func ref.import ref.export ref.forward ref.data ref.bss
     s                 string
   Output line:  <id> ok [g=<reg>,<reg>,...]   |   <id> err <MIR_error_type_t value> <stage>
   (g = the register numbers returned by the G directives, in order: register identity)
   stage: P<k> | F | R<k> | I<k> | finish            (k counts from 0)
   The process exits non-zero only on a crash (sanitizer report, failed assert). */
#include "mir.c"
#include <setjmp.h>

static jmp_buf c15_jb;
static volatile int c15_err;

static void MIR_NO_RETURN c15_error (MIR_error_type_t e, const char *format MIR_UNUSED, ...) {
  c15_err = (int) e;
  longjmp (c15_jb, 1);
}

#define MAXTOK 4096
static char *c15_toks[MAXTOK];
static int c15_ntok, tp;

static const char *next (void) {
  if (tp >= c15_ntok) {
    fprintf (stderr, "c15_harness: truncated line\n");
    exit (3);
  }
  return c15_toks[tp++];
}
static long nextl (void) { return strtol (next (), NULL, 10); }

#define MAXP 8
#define MAXL 64
static MIR_item_t c15_protos[MAXP];
static MIR_insn_t c15_labels[MAXL];
static int c15_nlabels;
static MIR_item_t c15_it_func, c15_it_import, c15_it_export, c15_it_forward, c15_it_data, c15_it_bss;
static MIR_reg_t c15_std_i, c15_std_f, c15_std_d, c15_std_l;
static char c15_stage[32];

static MIR_reg_t memreg (char c) {
  switch (c) {
  case '0': return 0;
  case 'i': return c15_std_i;
  case 'f': return c15_std_f;
  case 'd': return c15_std_d;
  case 'l': return c15_std_l;
  case 'u': return 99999;
  default: fprintf (stderr, "c15_harness: bad mem reg %c\n", c); exit (3);
  }
}

static MIR_op_t make_op (MIR_context_t ctx, MIR_func_t func, const char *t) {
  if (strncmp (t, "r:", 2) == 0) return MIR_new_reg_op (ctx, MIR_reg (ctx, t + 2, func));
  if (strcmp (t, "r.i") == 0) return MIR_new_reg_op (ctx, c15_std_i);
  if (strcmp (t, "r.f") == 0) return MIR_new_reg_op (ctx, c15_std_f);
  if (strcmp (t, "r.d") == 0) return MIR_new_reg_op (ctx, c15_std_d);
  if (strcmp (t, "r.l") == 0) return MIR_new_reg_op (ctx, c15_std_l);
  if (strcmp (t, "r.u") == 0) return MIR_new_reg_op (ctx, 99999);
  if (strcmp (t, "i") == 0) return MIR_new_int_op (ctx, 5);
  if (strcmp (t, "u") == 0) return MIR_new_uint_op (ctx, 5);
  if (strcmp (t, "f") == 0) return MIR_new_float_op (ctx, 1.5f);
  if (strcmp (t, "d") == 0) return MIR_new_double_op (ctx, 1.5);
  if (strcmp (t, "l") == 0) return MIR_new_ldouble_op (ctx, 1.5L);
  if (strcmp (t, "s") == 0) {
    MIR_str_t s = {4, "abc"};
    return MIR_new_str_op (ctx, s);
  }
  if (strcmp (t, "L") == 0) {
    if (c15_nlabels >= MAXL) exit (3);
    c15_labels[c15_nlabels] = MIR_new_label (ctx);
    return MIR_new_label_op (ctx, c15_labels[c15_nlabels++]);
  }
  if (strncmp (t, "m.", 2) == 0) {
    int ty;
    long long disp;
    char b, x;
    if (sscanf (t, "m.%d.%lld.%c.%c", &ty, &disp, &b, &x) != 4) {
      fprintf (stderr, "c15_harness: bad mem %s\n", t);
      exit (3);
    }
    return MIR_new_mem_op (ctx, (MIR_type_t) ty, (MIR_disp_t) disp, memreg (b), memreg (x), 1);
  }
  if (strncmp (t, "ref.p", 5) == 0 && t[5] >= '0' && t[5] <= '9') {
    int k = atoi (t + 5);
    if (k >= MAXP || c15_protos[k] == NULL) exit (3);
    return MIR_new_ref_op (ctx, c15_protos[k]);
  }
  if (strcmp (t, "ref.func") == 0) return MIR_new_ref_op (ctx, c15_it_func);
  if (strcmp (t, "ref.import") == 0) return MIR_new_ref_op (ctx, c15_it_import);
  if (strcmp (t, "ref.export") == 0) return MIR_new_ref_op (ctx, c15_it_export);
  if (strcmp (t, "ref.forward") == 0) return MIR_new_ref_op (ctx, c15_it_forward);
  if (strcmp (t, "ref.data") == 0) return MIR_new_ref_op (ctx, c15_it_data);
  if (strcmp (t, "ref.bss") == 0) return MIR_new_ref_op (ctx, c15_it_bss);
  fprintf (stderr, "c15_harness: bad operand token %s\n", t);
  exit (3);
}

static void run_case (void) {
  const char *id = next ();
  MIR_context_t volatile vctx = NULL;
  MIR_context_t ctx;
  MIR_item_t func_item = NULL;
  MIR_func_t func = NULL;
  int np = 0, nr = 0, ni = 0, i, nf = 0, ng = 0;
  MIR_reg_t gregs[32];
  MIR_type_t res[16];
  MIR_var_t vars[16];
  MIR_op_t ops[64];
  int64_t datum = 7;

  c15_nlabels = 0;
  memset (c15_protos, 0, sizeof (c15_protos));
  c15_err = -1;
  strcpy (c15_stage, "init");
  if (setjmp (c15_jb) != 0) {
    printf ("%s err %d %s\n", id, c15_err, c15_stage);
    goto cleanup;
  }
  vctx = ctx = MIR_init ();
  MIR_set_error_func (ctx, c15_error);
  MIR_new_module (ctx, "m");
  c15_it_func = MIR_new_func_arr (ctx, "callee", 0, NULL, 0, NULL);
  MIR_finish_func (ctx);
  c15_it_import = MIR_new_import (ctx, "imp");
  c15_it_export = MIR_new_export (ctx, "callee");
  c15_it_forward = MIR_new_forward (ctx, "fwd");
  c15_it_data = MIR_new_data (ctx, "dat", MIR_T_I64, 1, &datum);
  c15_it_bss = MIR_new_bss (ctx, "bs", 16);
  for (;;) {
    const char *d = next ();
    if (strcmp (d, "E") == 0) break;
    if (strcmp (d, "P") == 0) {
      int va = (int) nextl (), nres = (int) nextl (), nargs;
      char name[16];
      if (np >= MAXP) exit (3);
      for (i = 0; i < nres; i++) res[i] = (MIR_type_t) nextl ();
      nargs = (int) nextl ();
      for (i = 0; i < nargs; i++) {
        vars[i].type = (MIR_type_t) nextl ();
        vars[i].size = (size_t) nextl ();
        vars[i].name = "a";
      }
      sprintf (name, "p%d", np);
      sprintf (c15_stage, "P%d", np);
      c15_protos[np] = va ? MIR_new_vararg_proto_arr (ctx, name, nres, res, nargs, vars)
                      : MIR_new_proto_arr (ctx, name, nres, res, nargs, vars);
      np++;
    } else if (d[0] == 'F') {
      int va = (int) nextl (), nres = (int) nextl (), nargs;
      for (i = 0; i < nres; i++) res[i] = (MIR_type_t) nextl ();
      nargs = (int) nextl ();
      for (i = 0; i < nargs; i++) {
        vars[i].type = (MIR_type_t) nextl ();
        vars[i].name = next ();
        vars[i].size = 8;
      }
      char fname[16];
      sprintf (fname, "f%d", nf++);
      strcpy (c15_stage, "F");
      func_item = va ? MIR_new_vararg_func_arr (ctx, fname, nres, res, nargs, vars)
                     : MIR_new_func_arr (ctx, fname, nres, res, nargs, vars);
      func = func_item->u.func;
      if (d[1] != '!') {
        c15_std_i = MIR_new_func_reg (ctx, func, MIR_T_I64, "ri");
        c15_std_f = MIR_new_func_reg (ctx, func, MIR_T_F, "rf");
        c15_std_d = MIR_new_func_reg (ctx, func, MIR_T_D, "rd");
        c15_std_l = MIR_new_func_reg (ctx, func, MIR_T_LD, "rl");
      }
    } else if (strcmp (d, "R") == 0) {
      MIR_type_t t = (MIR_type_t) nextl ();
      const char *name = next ();
      sprintf (c15_stage, "R%d", nr++);
      MIR_new_func_reg (ctx, func, t, name);
    } else if (strcmp (d, "G") == 0) {
      MIR_type_t t = (MIR_type_t) nextl ();
      const char *name = next ();
      const char *hard = next ();
      sprintf (c15_stage, "R%d", nr++);
      if (ng >= 32) exit (3);
      gregs[ng] = MIR_new_global_func_reg (ctx, func, t, name, strcmp (hard, "-") == 0 ? NULL : hard);
      ng++;
    } else if (strcmp (d, "Z") == 0) {
      strcpy (c15_stage, "labels");
      for (i = 0; i < c15_nlabels; i++) MIR_append_insn (ctx, func_item, c15_labels[i]);
      c15_nlabels = 0;
      strcpy (c15_stage, "finish");
      MIR_finish_func (ctx);
      func_item = NULL;
      func = NULL;
      nr = ni = 0;
    } else if (strcmp (d, "I") == 0) {
      MIR_insn_code_t code = (MIR_insn_code_t) nextl ();
      int nops = (int) nextl ();
      MIR_insn_t insn;
      if (nops > 64) exit (3);
      sprintf (c15_stage, "I%d", ni++);
      for (i = 0; i < nops; i++) ops[i] = make_op (ctx, func, next ());
      insn = MIR_new_insn_arr (ctx, code, nops, ops);
      MIR_append_insn (ctx, func_item, insn);
    } else {
      fprintf (stderr, "c15_harness: bad directive %s\n", d);
      exit (3);
    }
  }
  strcpy (c15_stage, "c15_labels");
  for (i = 0; i < c15_nlabels; i++) MIR_append_insn (ctx, func_item, c15_labels[i]);
  c15_nlabels = 0;
  strcpy (c15_stage, "finish");
  MIR_finish_func (ctx);
  strcpy (c15_stage, "module");
  MIR_finish_module (ctx);
  printf ("%s ok", id);
  for (i = 0; i < ng; i++) printf ("%s%u", i == 0 ? " g=" : ",", (unsigned) gregs[i]);
  printf ("\n");
cleanup:
  ctx = vctx;
  if (ctx != NULL) {
    for (i = 0; i < c15_nlabels; i++) _MIR_free_insn (ctx, c15_labels[i]); /* c15_labels never appended */
    curr_func = NULL;
    curr_module = NULL;
    if (setjmp (c15_jb) == 0) MIR_finish (ctx);
  }
  fflush (stdout);
}

int main (void) {
  static char line[1 << 16];
  while (fgets (line, sizeof (line), stdin) != NULL) {
    char *s;
    c15_ntok = tp = 0;
    for (s = strtok (line, " \t\r\n"); s != NULL && c15_ntok < MAXTOK; s = strtok (NULL, " \t\r\n"))
      c15_toks[c15_ntok++] = s;
    if (c15_ntok == 0) continue;
    run_case ();
  }
  return 0;
}
