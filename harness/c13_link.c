/* C13 harness: replays load/link histories on the real MIR linker (public API only).

   stdin: histories, one operation per line, histories separated by a line `reset`:
     load <id> <decl>...      build a fresh module and MIR_load_module it.  decl = <K><name>:
                                E export, F forward, D function definition (returns <id>),
                                V W X B A Q T Z Y data-like definition (single item or head of a
                                multi-item section, see do_load; reads as <id>), C import used by a direct call,
                                P import used by `mov t,<ref>; call t`, R import used by
                                `mov t,<ref>; mov r,i64:(t)`  (name = one lower-case letter)
     reload <id>              MIR_load_module again on the module object built by `load <id> ...`
     ext <name> <k|N>         MIR_load_external (name, address of object #k), k in 0..9, value 100+k;
                                N = address NULL (shown as 0)
                                (names d,e: an int64 cell; other names: a C function)
     redef <0|1>              MIR_set_func_redef_permission
     link <null|interp|gen|lazy> <names|->   MIR_link; resolver knows exactly <names>, value 200+(c-'a')
     call                     call the entry function of every module whose interface is installed
     (resolver argument of link: `-` = a resolver that returns NULL for everything, `0` = no resolver)
   stdout: one line per operation.  A history ends at its first `err <MIR_error_type_t name>`, except
   that it goes on after a failed link (MIR_undeclared_op_ref_error).
   Each history runs in a forked child with a fresh MIR context. */
#include <stdio.h>
#include <stdlib.h>
#include <string.h>
#include <stdint.h>
#include <setjmp.h>
#include <unistd.h>
#include <sys/wait.h>
#include "mir.h"
#include "mir-gen.h"

const char *__asan_default_options (void) { return "detect_leaks=0:detect_stack_use_after_return=0"; }

static const char *err_names[] = {
  "MIR_no_error", "MIR_syntax_error", "MIR_binary_io_error", "MIR_alloc_error", "MIR_finish_error",
  "MIR_no_module_error", "MIR_nested_module_error", "MIR_no_func_error", "MIR_func_error",
  "MIR_vararg_func_error", "MIR_nested_func_error", "MIR_wrong_param_value_error",
  "MIR_hard_reg_error", "MIR_reserved_name_error", "MIR_import_export_error",
  "MIR_undeclared_func_reg_error", "MIR_repeated_decl_error", "MIR_reg_type_error",
  "MIR_wrong_type_error", "MIR_unique_reg_error", "MIR_undeclared_op_ref_error",
  "MIR_ops_num_error", "MIR_call_op_error", "MIR_unspec_op_error", "MIR_wrong_lref_error",
  "MIR_ret_error", "MIR_op_mode_error", "MIR_out_op_error", "MIR_invalid_insn_error",
  "MIR_ctx_change_error"};

static jmp_buf err_jmp;
static volatile int last_err, cur_is_link;
static void MIR_NO_RETURN err_func (MIR_error_type_t t, const char *fmt, ...) {
  (void) fmt;
  last_err = (int) t;
  longjmp (err_jmp, 1);
}

#define X10(M) M (0) M (1) M (2) M (3) M (4) M (5) M (6) M (7) M (8) M (9)
#define X26(M) X10 (M) M (10) M (11) M (12) M (13) M (14) M (15) M (16) M (17) M (18) M (19) \
  M (20) M (21) M (22) M (23) M (24) M (25)
#define EXTF(i) static int64_t extf_##i (void) { return 100 + i; }
#define RESF(i) static int64_t resf_##i (void) { return 200 + i; }
X10 (EXTF) X26 (RESF)
#define EXTP(i) extf_##i,
#define RESP(i) resf_##i,
typedef int64_t (*fn0_t) (void);
static fn0_t ext_funcs[10] = {X10 (EXTP)};
static fn0_t res_funcs[26] = {X26 (RESP)};
static int64_t ext_cells[10], res_cells[26];

static int data_name_p (int c) { return c == 'd' || c == 'e'; }

/* address -> observable identity */
#define MAX_ADDR 4096
static struct { void *addr; int64_t val; } addr_tab[MAX_ADDR];
static int n_addr;
static void note_addr (void *a, int64_t v) {
  if (n_addr < MAX_ADDR) { addr_tab[n_addr].addr = a; addr_tab[n_addr].val = v; n_addr++; }
}
static int find_addr (void *a, int64_t *v) {
  for (int i = n_addr - 1; i >= 0; i--)
    if (addr_tab[i].addr == a) { *v = addr_tab[i].val; return 1; }
  return 0;
}

#define MAX_MODS 128
#define MAX_IMPS 16
typedef struct {
  int id, done, nimp;
  MIR_module_t m;
  MIR_item_t entry;
  MIR_item_t imp[MAX_IMPS];
  MIR_item_t bss[8]; /* bss heads: (re)filled with <id> after every load of the module */
  int nbss;
  char imp_name[MAX_IMPS], imp_use[MAX_IMPS];
} mod_t;
static mod_t mods[MAX_MODS];
static int n_mods;

static MIR_context_t ctx;
static char resolvable[64];

static void *resolver (const char *name) {
  int c = name[0];
  if (name[1] != 0 || c < 'a' || c > 'z' || strchr (resolvable, c) == NULL) return NULL;
  return data_name_p (c) ? (void *) &res_cells[c - 'a'] : (void *) res_funcs[c - 'a'];
}

#define MAX_DEFS 32
static void do_load (int id, int ndecl, char **decls) {
  mod_t *md = &mods[n_mods];
  MIR_item_t defs[MAX_DEFS], cells[MAX_DEFS], bss[MAX_DEFS];
  int ndefs = 0, ncells = 0, nbss = 0;
  char nm[2] = {0, 0};
  MIR_type_t i64 = MIR_T_I64;
  int64_t v = id;
  memset (md, 0, sizeof (*md));
  md->id = id;
  md->m = MIR_new_module (ctx, "m");
  for (int i = 0; i < ndecl; i++) {
    int k = decls[i][0];
    MIR_item_t it;
    nm[0] = decls[i][1];
    switch (k) {
    case 'E': MIR_new_export (ctx, nm); break;
    case 'F': MIR_new_forward (ctx, nm); break;
    case 'D': {
      MIR_item_t f = MIR_new_func (ctx, nm, 1, &i64, 0);
      MIR_append_insn (ctx, f, MIR_new_ret_insn (ctx, 1, MIR_new_int_op (ctx, id)));
      MIR_finish_func (ctx);
      if (ndefs < MAX_DEFS) defs[ndefs++] = f;
      break;
    }
    case 'V': case 'W': case 'X': case 'B': case 'A': case 'Q': case 'T': case 'Z': case 'Y': {
      /* exported/definable non-function items of every kind; the head item carries the name, the
         anonymous items created right after it belong to the same section (load_bss_data_section):
           V data            W data + data            X data + bss + data
           B bss             A bss + data
           Q ref             T ref + data             (ref -> local cell holding <id>)
           Z expr            Y expr + bss + data      (expr function returns <id>)
         what an importer reads through the head's address is <id> for every kind (bss heads are
         filled with <id> after the load; a ref head yields the cell's address, mapped back) */
      char hn[16];
      int64_t filler = 7000 + id;
      int nfollow = (k == 'W' || k == 'A' || k == 'T') ? 1 : (k == 'X' || k == 'Y') ? 2 : 0;
      MIR_item_t aux = NULL;
      snprintf (hn, sizeof (hn), "%c%d", k == 'Q' || k == 'T' ? 'c' : 'x', i);
      if (k == 'Q' || k == 'T') {
        aux = MIR_new_data (ctx, hn, MIR_T_I64, 1, &v);
        if (ncells < MAX_DEFS) cells[ncells++] = aux;
      } else if (k == 'Z' || k == 'Y') {
        aux = MIR_new_func (ctx, hn, 1, &i64, 0);
        MIR_append_insn (ctx, aux, MIR_new_ret_insn (ctx, 1, MIR_new_int_op (ctx, id)));
        MIR_finish_func (ctx);
      }
      if (k == 'V' || k == 'W' || k == 'X') it = MIR_new_data (ctx, nm, MIR_T_I64, 1, &v);
      else if (k == 'B' || k == 'A') { it = MIR_new_bss (ctx, nm, 8); if (nbss < MAX_DEFS) bss[nbss++] = it; }
      else if (k == 'Q' || k == 'T') it = MIR_new_ref_data (ctx, nm, aux, 0);
      else it = MIR_new_expr_data (ctx, nm, aux);
      if (nfollow == 2) MIR_new_bss (ctx, NULL, 8);
      if (nfollow >= 1) MIR_new_data (ctx, NULL, MIR_T_I64, 1, &filler);
      if (ndefs < MAX_DEFS) defs[ndefs++] = it;
      break;
    }
    case 'C': case 'P': case 'R': {
      int dup = 0;
      it = MIR_new_import (ctx, nm);
      for (int j = 0; j < md->nimp; j++)
        if (md->imp[j] == it) dup = 1;
      if (!dup && md->nimp < MAX_IMPS) {
        md->imp[md->nimp] = it; md->imp_name[md->nimp] = nm[0]; md->imp_use[md->nimp] = (char) k;
        md->nimp++;
      }
      break;
    }
    default: printf ("bad decl %s\n", decls[i]); fflush (stdout); _exit (3);
    }
  }
  { /* entry (buf): stores what every import yields into buf[i] */
    MIR_item_t proto = MIR_new_proto (ctx, "p0", 1, &i64, 0);
    MIR_item_t f = MIR_new_func (ctx, "entry", 0, NULL, 1, MIR_T_I64, "buf");
    MIR_func_t fu = f->u.func;
    MIR_reg_t buf = MIR_reg (ctx, "buf", fu);
    MIR_reg_t r = MIR_new_func_reg (ctx, fu, MIR_T_I64, "r");
    MIR_reg_t t = MIR_new_func_reg (ctx, fu, MIR_T_I64, "t");
    for (int i = 0; i < md->nimp; i++) {
      MIR_op_t ref = MIR_new_ref_op (ctx, md->imp[i]);
      switch (md->imp_use[i]) {
      case 'C':
        MIR_append_insn (ctx, f, MIR_new_call_insn (ctx, 3, MIR_new_ref_op (ctx, proto), ref,
                                                    MIR_new_reg_op (ctx, r)));
        break;
      case 'P':
        MIR_append_insn (ctx, f, MIR_new_insn (ctx, MIR_MOV, MIR_new_reg_op (ctx, t), ref));
        MIR_append_insn (ctx, f, MIR_new_call_insn (ctx, 3, MIR_new_ref_op (ctx, proto),
                                                    MIR_new_reg_op (ctx, t), MIR_new_reg_op (ctx, r)));
        break;
      default:
        MIR_append_insn (ctx, f, MIR_new_insn (ctx, MIR_MOV, MIR_new_reg_op (ctx, t), ref));
        MIR_append_insn (ctx, f, MIR_new_insn (ctx, MIR_MOV, MIR_new_reg_op (ctx, r),
                                               MIR_new_mem_op (ctx, MIR_T_I64, 0, t, 0, 1)));
        /* the address itself goes to the second half of buf: it identifies the definition even
           while its content (ref/expr data are filled by MIR_link) is not there yet */
        MIR_append_insn (ctx, f, MIR_new_insn (ctx, MIR_MOV,
                                               MIR_new_mem_op (ctx, MIR_T_I64, 8 * (MAX_IMPS + 1 + i), buf, 0, 1),
                                               MIR_new_reg_op (ctx, t)));
        break;
      }
      MIR_append_insn (ctx, f, MIR_new_insn (ctx, MIR_MOV,
                                             MIR_new_mem_op (ctx, MIR_T_I64, 8 * i, buf, 0, 1),
                                             MIR_new_reg_op (ctx, r)));
    }
    MIR_finish_func (ctx);
    md->entry = f;
  }
  MIR_finish_module (ctx);
  n_mods++; /* the module exists from now on (it is only queued if the load succeeds) */
  /* MIR_load_module may fail in the middle (repeated_decl): addresses are noted by the error
     path as well, but the history ends there anyway */
  MIR_load_module (ctx, md->m);
  for (int i = 0; i < ndefs; i++) note_addr (defs[i]->addr, id);
  for (int i = 0; i < ncells; i++) note_addr (cells[i]->addr, id);
  for (int i = 0; i < nbss; i++) {
    *(int64_t *) bss[i]->addr = id;
    if (md->nbss < 8) md->bss[md->nbss++] = bss[i];
  }
  printf ("ok\n");
}

/* `reload <id>`: MIR_load_module on a module object that has been loaded before */
static void do_reload (int id) {
  mod_t *md = NULL;
  for (int i = 0; i < n_mods; i++)
    if (mods[i].id == id) md = &mods[i];
  if (md == NULL) { printf ("bad reload %d\n", id); fflush (stdout); _exit (3); }
  md->done = 0; /* its thunks are redirected to undefined_interface until the next link */
  MIR_load_module (ctx, md->m);
  for (int i = 0; i < md->nbss; i++) *(int64_t *) md->bss[i]->addr = id;
  printf ("ok\n");
}

static void dump_binds (void) {
  for (int i = 0; i < n_mods; i++) {
    mod_t *md = &mods[i];
    printf (" m%d:%c:", md->id, md->done ? 'd' : 'q');
    for (int j = 0; j < md->nimp; j++) {
      int64_t v;
      void *a = md->imp[j]->addr;
      if (j) printf (",");
      if (a == NULL) printf (md->imp[j]->ref_def == NULL ? "%c=?" : "%c=0", md->imp_name[j]);
      else if (find_addr (a, &v)) printf ("%c=%ld", md->imp_name[j], (long) v);
      else printf ("%c=!", md->imp_name[j]);
    }
  }
}

static void do_link (const char *iface, const char *names) {
  void (*set) (MIR_context_t, MIR_item_t) = NULL;
  if (strcmp (iface, "interp") == 0) set = MIR_set_interp_interface;
  else if (strcmp (iface, "gen") == 0) set = MIR_set_gen_interface;
  else if (strcmp (iface, "lazy") == 0) set = MIR_set_lazy_gen_interface;
  else if (strcmp (iface, "null") != 0) { printf ("bad iface\n"); fflush (stdout); _exit (3); }
  strncpy (resolvable, strcmp (names, "-") == 0 || strcmp (names, "0") == 0 ? "" : names,
           sizeof (resolvable) - 1);
  resolvable[sizeof (resolvable) - 1] = 0;
  MIR_link (ctx, set, strcmp (names, "0") == 0 ? NULL : resolver); /* "0": no resolver at all */
  if (set != NULL)
    for (int i = 0; i < n_mods; i++) mods[i].done = 1;
  printf ("ok");
  dump_binds ();
  printf ("\n");
}

static void do_call (void) {
  static char out[1 << 16];
  size_t len = 0;
  out[0] = 0;
  for (int i = 0; i < n_mods; i++) {
    mod_t *md = &mods[i];
    int64_t buf[2 * (MAX_IMPS + 1)];
    if (!md->done) continue;
    for (int j = 0; j < 2 * (MAX_IMPS + 1); j++) buf[j] = -1;
    ((void (*) (int64_t *)) md->entry->addr) (buf);
    len += snprintf (out + len, sizeof (out) - len, " m%d:", md->id);
    for (int j = 0; j < md->nimp; j++) {
      int64_t idv, m2;
      if (md->imp_use[j] == 'R') {
        /* identity of the address read; the content must equal it (a ref head yields the address of
           a cell holding it) as soon as the defining module has been through an interface link */
        int64_t content = buf[j], linked = 0;
        if (!find_addr ((void *) buf[MAX_IMPS + 1 + j], &idv)) {
          len += snprintf (out + len, sizeof (out) - len, "%s%c=!", j ? "," : "", md->imp_name[j]);
          continue;
        }
        if (idv >= 100) linked = 1;
        for (int q = 0; q < n_mods; q++)
          if (mods[q].id == idv && mods[q].done) linked = 1;
        if (linked && content != idv && !(find_addr ((void *) content, &m2) && m2 == idv)) {
          len += snprintf (out + len, sizeof (out) - len, "%s%c=%ld!%ld", j ? "," : "", md->imp_name[j],
                           (long) idv, (long) content);
          continue;
        }
        buf[j] = idv;
      }
      len += snprintf (out + len, sizeof (out) - len, "%s%c=%ld", j ? "," : "", md->imp_name[j],
                       (long) buf[j]);
    }
  }
  printf ("ok%s\n", out);
}

static void run_history (char **lines, int n) {
  for (int i = 0; i < 10; i++) { ext_cells[i] = 100 + i; note_addr (&ext_cells[i], 100 + i); note_addr ((void *) ext_funcs[i], 100 + i); }
  for (int i = 0; i < 26; i++) { res_cells[i] = 200 + i; note_addr (&res_cells[i], 200 + i); note_addr ((void *) res_funcs[i], 200 + i); }
  ctx = MIR_init ();
  MIR_set_error_func (ctx, err_func);
  MIR_gen_init (ctx);
  for (volatile int li = 0; li < n; li++) {
    char *tok[64];
    int nt = 0;
    for (char *p = strtok (lines[li], " \t\r\n"); p != NULL && nt < 64; p = strtok (NULL, " \t\r\n"))
      tok[nt++] = p;
    if (nt == 0) continue;
    if (setjmp (err_jmp)) {
      printf ("err %s\n", last_err >= 0 && last_err < 30 ? err_names[last_err] : "?");
      fflush (stdout);
      /* a failed link is survivable (the caller may load the missing name and link again) */
      if (cur_is_link && last_err == (int) MIR_undeclared_op_ref_error) continue;
      _exit (0);
    }
    cur_is_link = strcmp (tok[0], "link") == 0;
    if (strcmp (tok[0], "load") == 0 && nt >= 2) do_load (atoi (tok[1]), nt - 2, tok + 2);
    else if (strcmp (tok[0], "reload") == 0 && nt == 2) do_reload (atoi (tok[1]));
    else if (strcmp (tok[0], "ext") == 0 && nt == 3) {
      int c = tok[1][0], k = atoi (tok[2]) % 10;
      MIR_load_external (ctx, tok[1],
                         tok[2][0] == 'N' ? NULL /* `ext <name> N`: address NULL */
                         : data_name_p (c) ? (void *) &ext_cells[k]
                                           : (void *) ext_funcs[k]);
      printf ("ok\n");
    } else if (strcmp (tok[0], "redef") == 0 && nt == 2) {
      MIR_set_func_redef_permission (ctx, atoi (tok[1]));
      printf ("ok\n");
    } else if (strcmp (tok[0], "link") == 0 && nt == 3) do_link (tok[1], tok[2]);
    else if (strcmp (tok[0], "call") == 0) do_call ();
    else { printf ("bad op %s\n", tok[0]); fflush (stdout); _exit (3); }
    fflush (stdout);
  }
  fflush (stdout);
  _exit (0);
}

int main (void) {
  static char *lines[1 << 22];
  size_t n = 0, cap = 0;
  char *line = NULL;
  ssize_t len;
  while ((len = getline (&line, &cap, stdin)) >= 0 && n < (1u << 22)) lines[n++] = strdup (line);
  size_t i = 0;
  while (i < n) {
    size_t j = i;
    while (j < n && strncmp (lines[j], "reset", 5) != 0) j++;
    fflush (stdout);
    pid_t pid = fork ();
    if (pid == 0) run_history (lines + i, (int) (j - i));
    int st = 0;
    waitpid (pid, &st, 0);
    if (!WIFEXITED (st) || WEXITSTATUS (st) != 0) {
      if (WIFSIGNALED (st)) printf ("crash signal %d\n", WTERMSIG (st));
      else printf ("crash exit %d\n", WEXITSTATUS (st));
    }
    printf ("reset\n");
    i = j + 1;
  }
  return 0;
}
