/* C14 harness: builds modules through the public API from a line protocol on stdin, loads and links
   them, and prints for every data/bss/ref/lref/expr item its section, `item->addr - head->addr` and the
   bytes found there.  The same input lines are read by the Lean driver `mirdrv_c14`; outputs are diffed
   by checks/c14.py.  Compiled together with $REPO/mir.c and $REPO/mir-gen.c (separate translation
   units); only the public API and the public item structs of mir.h are used.  All MIR allocations go
   through an allocator that fills new blocks with 0xA5 and remembers the requested sizes, so a missing
   initialisation and the size of every section block are observable.

   case <id> <interp|gen|lazy|regen|bb> [<flag>{,<flag>}]
       flags: preext  - every import name is first registered with MIR_load_external (external-only names twice,
                        a decoy address first): a later registration / module export of the name must win
              postext - after the modules are loaded every import name is registered again with another
                        external address, which must win over the module export
              reload  - after load+link the bytes of all data/bss/ref/expr items are overwritten (as a running
                        program would) and the same modules are loaded and linked a second time: every item must be
                        initialised again (bss to zero)
   import <name> | forward <name> | export <name> | proto <name> | func <name>
   efunc <name> <ty> <decimal bit pattern>      expression function returning that constant
   lfunc <name> <nlab> [<nbase>]                function with labels 0..nlab-1 (`ret 100+j`), entered by jmpi;
                                                base-only labels b0..b<nbase-1>: `bj: ret 200+j` is placed right
                                                after label j's `ret`, so no branch or fall-through reaches it and
                                                only a difference-form lref (as its second label) mentions it
   data <name|-> <ty> <nel> <hex|->
   bss <name|-> <len>
   ref <name|-> <k> <disp>                      k = index of an earlier line (item, func, import, forward, export)
   expr <name|-> <k>                            k = index of an earlier efunc line
   lref <name|-> <k> <lab> <lab2|b<j>|-> <disp> k = index of an lfunc line (earlier or later)
   afunc <name> <k> <disp>                      expression function returning (address of line k's item) + disp;
                                                an `expr` line may refer to it (printed as delta like a ref)
   module <a-first|b-first>                     the following lines form a second module; an import there whose
                                                name is defined (and exported) in the first module must resolve
                                                to that definition; the token gives the order of MIR_load_module
   end
*/
#include "mir.h"
#include "mir-gen.h"
#include <stdio.h>
#include <stdlib.h>
#include <string.h>
#include <stdarg.h>
#include <setjmp.h>
#include <inttypes.h>

/* ---------------------------------------------------------------- allocator: poisons, records sizes */
typedef struct {
  void *p;
  size_t size;
} arec_t;
static arec_t *arecs;
static size_t n_arecs, cap_arecs;

static void arec_add (void *p, size_t size) {
  if (n_arecs == cap_arecs) {
    cap_arecs = cap_arecs ? cap_arecs * 2 : 4096;
    arecs = realloc (arecs, cap_arecs * sizeof (arec_t));
  }
  arecs[n_arecs].p = p;
  arecs[n_arecs].size = size;
  n_arecs++;
}
static long arec_size (void *p) {
  for (size_t i = n_arecs; i > 0; i--)
    if (arecs[i - 1].p == p) return (long) arecs[i - 1].size;
  return -1;
}
static void *h_malloc (size_t size, void *ud) {
  void *p = malloc (size);
  (void) ud;
  if (p != NULL) {
    memset (p, 0xA5, size);
    arec_add (p, size);
  }
  return p;
}
static void *h_calloc (size_t n, size_t s, void *ud) {
  (void) ud;
  return calloc (n, s);
}
static void *h_realloc (void *p, size_t old, size_t new, void *ud) {
  (void) ud;
  (void) old;
  return realloc (p, new);
}
static void h_free (void *p, void *ud) {
  (void) ud;
  free (p);
}
static struct MIR_alloc h_alloc = {h_malloc, h_calloc, h_realloc, h_free, NULL};

/* ---------------------------------------------------------------- case storage */
#define MAX_LINES 512
#define MAX_TOK 8
#define MAX_LAB 8
typedef struct {
  char *tok[MAX_TOK];
  int ntok;
  MIR_item_t item;
  MIR_label_t labs[MAX_LAB], blabs[MAX_LAB];
  int nlab, nbase;
  int mod; /* 0 = first module, 1 = second */
} cline_t;
static cline_t lines[MAX_LINES];
static int nlines;
static char ext_area[MAX_LINES][16], ext_area2[MAX_LINES][16];
static int preext_p, postext_p, reload_p;

static jmp_buf err_jmp;
static char err_msg[512];
static void MIR_NO_RETURN err_func (MIR_error_type_t t, const char *fmt, ...) {
  va_list ap;
  char buf[400];
  va_start (ap, fmt);
  vsnprintf (buf, sizeof (buf), fmt, ap);
  va_end (ap);
  snprintf (err_msg, sizeof (err_msg), "%d %s", (int) t, buf);
  longjmp (err_jmp, 1);
}

static int own_type_size (const char *ty) { /* independent of _MIR_type_size */
  if (!strcmp (ty, "i8") || !strcmp (ty, "u8")) return 1;
  if (!strcmp (ty, "i16") || !strcmp (ty, "u16")) return 2;
  if (!strcmp (ty, "i32") || !strcmp (ty, "u32") || !strcmp (ty, "f")) return 4;
  if (!strcmp (ty, "i64") || !strcmp (ty, "u64") || !strcmp (ty, "d") || !strcmp (ty, "p")) return 8;
  if (!strcmp (ty, "ld")) return 16;
  return -1;
}
static MIR_type_t mir_type (const char *ty) {
  static const char *names[] = {"i8", "u8", "i16", "u16", "i32", "u32", "i64", "u64", "f", "d", "ld", "p"};
  static const MIR_type_t types[] = {MIR_T_I8,  MIR_T_U8,  MIR_T_I16, MIR_T_U16, MIR_T_I32, MIR_T_U32,
                                     MIR_T_I64, MIR_T_U64, MIR_T_F,   MIR_T_D,   MIR_T_LD,  MIR_T_P};
  for (int i = 0; i < 12; i++)
    if (!strcmp (ty, names[i])) return types[i];
  fprintf (stderr, "bad type %s\n", ty);
  exit (2);
}
static const char *opt_name (const char *s) { return strcmp (s, "-") == 0 ? NULL : s; }
static int hexv (int c) {
  return c >= '0' && c <= '9' ? c - '0' : c >= 'a' && c <= 'f' ? c - 'a' + 10 : c >= 'A' && c <= 'F' ? c - 'A' + 10 : 0;
}
static unsigned __int128 parse_u128 (const char *s) {
  unsigned __int128 v = 0;
  for (; *s >= '0' && *s <= '9'; s++) v = v * 10 + (unsigned) (*s - '0');
  return v;
}
static int is_kind (int i, const char *k) { return strcmp (lines[i].tok[0], k) == 0; }
static int data_kind_p (int i) {
  return is_kind (i, "data") || is_kind (i, "bss") || is_kind (i, "ref") || is_kind (i, "expr")
         || is_kind (i, "lref");
}

static void build_item (MIR_context_t ctx, int i) {
  cline_t *l = &lines[i];
  const char *k = l->tok[0];
  if (!strcmp (k, "import")) {
    l->item = MIR_new_import (ctx, l->tok[1]);
  } else if (!strcmp (k, "forward")) {
    l->item = MIR_new_forward (ctx, l->tok[1]);
  } else if (!strcmp (k, "export")) {
    l->item = MIR_new_export (ctx, l->tok[1]);
  } else if (!strcmp (k, "proto")) {
    l->item = MIR_new_proto_arr (ctx, l->tok[1], 0, NULL, 0, NULL);
  } else if (!strcmp (k, "func")) {
    MIR_type_t rt = MIR_T_I64;
    l->item = MIR_new_func_arr (ctx, l->tok[1], 1, &rt, 0, NULL);
    MIR_append_insn (ctx, l->item, MIR_new_ret_insn (ctx, 1, MIR_new_int_op (ctx, 7)));
    MIR_finish_func (ctx);
  } else if (!strcmp (k, "efunc")) {
    MIR_type_t rt = mir_type (l->tok[2]);
    unsigned __int128 v = parse_u128 (l->tok[3]);
    MIR_op_t op;
    l->item = MIR_new_func_arr (ctx, l->tok[1], 1, &rt, 0, NULL);
    if (rt == MIR_T_F) {
      float f;
      uint32_t b = (uint32_t) v;
      memcpy (&f, &b, 4);
      op = MIR_new_float_op (ctx, f);
    } else if (rt == MIR_T_D) {
      double d;
      uint64_t b = (uint64_t) v;
      memcpy (&d, &b, 8);
      op = MIR_new_double_op (ctx, d);
    } else if (rt == MIR_T_LD) {
      long double ld = 0;
      memcpy (&ld, &v, 10);
      op = MIR_new_ldouble_op (ctx, ld);
    } else {
      op = MIR_new_int_op (ctx, (int64_t) (uint64_t) v);
    }
    MIR_append_insn (ctx, l->item, MIR_new_ret_insn (ctx, 1, op));
    MIR_finish_func (ctx);
  } else if (!strcmp (k, "afunc")) {
    MIR_type_t rt = MIR_T_P;
    MIR_reg_t r;
    l->item = MIR_new_func_arr (ctx, l->tok[1], 1, &rt, 0, NULL);
    r = MIR_new_func_reg (ctx, l->item->u.func, MIR_T_I64, "r");
    MIR_append_insn (ctx, l->item,
                     MIR_new_insn (ctx, MIR_ADD, MIR_new_reg_op (ctx, r),
                                   MIR_new_ref_op (ctx, lines[atoi (l->tok[2])].item),
                                   MIR_new_int_op (ctx, strtoll (l->tok[3], NULL, 10))));
    MIR_append_insn (ctx, l->item, MIR_new_ret_insn (ctx, 1, MIR_new_reg_op (ctx, r)));
    MIR_finish_func (ctx);
  } else if (!strcmp (k, "lfunc")) {
    MIR_type_t rt = MIR_T_I64;
    MIR_var_t arg = {MIR_T_I64, "a", 0};
    MIR_label_t lz = MIR_new_label (ctx);
    MIR_reg_t a;
    l->item = MIR_new_func_arr (ctx, l->tok[1], 1, &rt, 1, &arg);
    a = MIR_reg (ctx, "a", l->item->u.func);
    MIR_append_insn (ctx, l->item,
                     MIR_new_insn (ctx, MIR_BEQ, MIR_new_label_op (ctx, lz), MIR_new_reg_op (ctx, a),
                                   MIR_new_int_op (ctx, 0)));
    MIR_append_insn (ctx, l->item, MIR_new_insn (ctx, MIR_JMPI, MIR_new_reg_op (ctx, a)));
    MIR_append_insn (ctx, l->item, lz);
    MIR_append_insn (ctx, l->item, MIR_new_ret_insn (ctx, 1, MIR_new_int_op (ctx, -1)));
    for (int j = 0; j < l->nlab; j++) {
      MIR_append_insn (ctx, l->item, l->labs[j]);
      MIR_append_insn (ctx, l->item, MIR_new_ret_insn (ctx, 1, MIR_new_int_op (ctx, 100 + j)));
      if (j < l->nbase) { /* code nothing jumps or falls into */
        MIR_append_insn (ctx, l->item, l->blabs[j]);
        MIR_append_insn (ctx, l->item, MIR_new_ret_insn (ctx, 1, MIR_new_int_op (ctx, 200 + j)));
      }
    }
    MIR_finish_func (ctx);
  } else if (!strcmp (k, "data")) {
    MIR_type_t t = mir_type (l->tok[2]);
    size_t nel = strtoull (l->tok[3], NULL, 10), len = nel * (size_t) own_type_size (l->tok[2]);
    uint8_t *buf = malloc (len); /* exact size: an over-read is an ASan report */
    const char *h = l->tok[4];
    for (size_t j = 0; j < len; j++) buf[j] = (uint8_t) (hexv (h[2 * j]) * 16 + hexv (h[2 * j + 1]));
    l->item = MIR_new_data (ctx, opt_name (l->tok[1]), t, nel, buf);
    free (buf);
  } else if (!strcmp (k, "bss")) {
    l->item = MIR_new_bss (ctx, opt_name (l->tok[1]), strtoull (l->tok[2], NULL, 10));
  } else if (!strcmp (k, "ref")) {
    int t = atoi (l->tok[2]);
    l->item = MIR_new_ref_data (ctx, opt_name (l->tok[1]), lines[t].item, strtoll (l->tok[3], NULL, 10));
  } else if (!strcmp (k, "expr")) {
    int t = atoi (l->tok[2]);
    l->item = MIR_new_expr_data (ctx, opt_name (l->tok[1]), lines[t].item);
  } else if (!strcmp (k, "lref")) {
    int t = atoi (l->tok[2]);
    MIR_label_t lab = lines[t].labs[atoi (l->tok[3])];
    MIR_label_t lab2 = strcmp (l->tok[4], "-") == 0 ? NULL
                       : l->tok[4][0] == 'b'        ? lines[t].blabs[atoi (l->tok[4] + 1)]
                                                    : lines[t].labs[atoi (l->tok[4])];
    l->item = MIR_new_lref_data (ctx, opt_name (l->tok[1]), lab, lab2, strtoll (l->tok[5], NULL, 10));
  } else {
    fprintf (stderr, "unknown line kind %s\n", k);
    exit (2);
  }
}

static int find_def (const char *name) {
  for (int i = 0; i < nlines; i++)
    if ((data_kind_p (i) || is_kind (i, "func") || is_kind (i, "efunc") || is_kind (i, "lfunc"))
        && strcmp (lines[i].tok[1], name) == 0)
      return i;
  return -1;
}

/* address the harness expects a reference to line t to denote (computed without MIR_link's help) */
static char *target_addr (int t) {
  if (is_kind (t, "forward") || is_kind (t, "export")) { /* a declaration: the address of the definition */
    int d = find_def (lines[t].tok[1]);
    return d < 0 ? NULL : lines[d].item->addr;
  }
  if (is_kind (t, "import")) { /* the definition in the other module of the case, else the external */
    int d = find_def (lines[t].tok[1]);
    if (postext_p) return ext_area2[t]; /* the latest registration of the name */
    return d >= 0 && lines[d].mod != lines[t].mod ? (char *) lines[d].item->addr : ext_area[t];
  }
  return lines[t].item->addr;
}

static int target_addr_is_external (int t) {
  int d = find_def (lines[t].tok[1]);
  return !(d >= 0 && lines[d].mod != lines[t].mod);
}

static int case_item_p (MIR_item_t item) {
  for (int i = 0; i < nlines; i++)
    if (lines[i].item == item) return 1;
  return 0;
}

/* position of an item among the items the case created (MIR_link may add named constant data items of
   its own anywhere in the list, e.g. before the function that uses a float constant; they are their own
   sections and are not counted) */
static int item_pos (MIR_module_t m, MIR_item_t item) {
  int pos = 0;
  for (MIR_item_t it = DLIST_HEAD (MIR_item_t, m->items); it != NULL; it = DLIST_NEXT (MIR_item_t, it)) {
    if (it == item) return pos;
    if (case_item_p (it)) pos++;
  }
  return -1;
}

/* engine `regen`: the function is generated and called first, then prepared and run by the interpreter
   (the lref cells must then hold what the LAST preparation needs) */
static MIR_context_t call_ctx;
static int interp_after_gen_p;
static int64_t call_lfunc (MIR_item_t f, int64_t x) {
  if (interp_after_gen_p) {
    MIR_val_t r, a;
    a.i = x;
    r.i = 0;
    MIR_interp_arr (call_ctx, f, &r, 1, &a);
    return r.i;
  }
  return ((int64_t (*) (int64_t)) f->addr) (x);
}

/* is the lref of line i on the list of its function (built by link_module_lrefs at load)?  Only
   listed lrefs are ever written by the engines. */
static int lref_registered_p (int i) {
  MIR_func_t func = lines[atoi (lines[i].tok[2])].item->u.func;
  for (MIR_lref_data_t lr = func->first_lref; lr != NULL; lr = lr->next)
    if (lr == lines[i].item->u.lref_data) return 1;
  return 0;
}

/* value of a single-label lref to (func line t, label lab) minus its disp, if the case has one */
static int label_addr (int t, int lab, int64_t *res) {
  for (int i = 0; i < nlines; i++)
    if (is_kind (i, "lref") && atoi (lines[i].tok[2]) == t && atoi (lines[i].tok[3]) == lab
        && strcmp (lines[i].tok[4], "-") == 0 && lref_registered_p (i)) {
      int64_t v;
      memcpy (&v, lines[i].item->addr, 8);
      *res = v - strtoll (lines[i].tok[5], NULL, 10);
      return 1;
    }
  return 0;
}

/* section heads of a module, among the items the case created */
static void print_secs (MIR_module_t m) {
  int pos = 0;
  for (MIR_item_t it = DLIST_HEAD (MIR_item_t, m->items); it != NULL; it = DLIST_NEXT (MIR_item_t, it)) {
    if (!case_item_p (it)) continue;
    if (it->section_head_p) printf ("sec %d size=%ld\n", pos, arec_size (it->addr));
    pos++;
  }
}

static int own_item_size (int i) {
  cline_t *l = &lines[i];
  if (is_kind (i, "data")) return atoi (l->tok[3]) * own_type_size (l->tok[2]);
  if (is_kind (i, "bss")) return atoi (l->tok[2]);
  if (is_kind (i, "expr"))
    return is_kind (atoi (l->tok[2]), "afunc") ? 8 : own_type_size (lines[atoi (l->tok[2])].tok[2]);
  return 8;
}

static void load_and_link (MIR_context_t ctx, MIR_module_t *mods, int nmods, int b_first_p,
                           const char *engine, int gen_p, int bb_p) {
  if (nmods == 2 && b_first_p) MIR_load_module (ctx, mods[1]);
  MIR_load_module (ctx, mods[0]);
  if (nmods == 2 && !b_first_p) MIR_load_module (ctx, mods[1]);
  if (postext_p)
    for (int i = 0; i < nlines; i++)
      if (is_kind (i, "import")) MIR_load_external (ctx, lines[i].tok[1], ext_area2[i]);
  /* every engine walks func->first_lref to its NULL end: a cyclic list would hang MIR_link / the first call */
  for (int i = 0; i < nlines; i++)
    if (is_kind (i, "lfunc")) {
      MIR_lref_data_t slow = lines[i].item->u.func->first_lref, fast = slow;
      while (fast != NULL && fast->next != NULL) {
        slow = slow->next;
        fast = fast->next->next;
        if (slow == fast) {
          snprintf (err_msg, sizeof (err_msg), "lref-list-cyclic after MIR_load_module (func %s)", lines[i].tok[1]);
          longjmp (err_jmp, 1);
        }
      }
    }
  MIR_link (ctx,
            !gen_p                          ? MIR_set_interp_interface
            : strcmp (engine, "lazy") == 0 ? MIR_set_lazy_gen_interface
            : bb_p                         ? MIR_set_lazy_bb_gen_interface
                                           : MIR_set_gen_interface,
            NULL);
  /* make every lfunc ready for execution (interp and lazy gen prepare on first call) */
  for (int i = 0; i < nlines; i++)
    if (is_kind (i, "lfunc") && call_lfunc (lines[i].item, 0) != -1) printf ("lfunc %d wrong result\n", i);
}

static void run_case (const char *id, const char *engine) {
  MIR_context_t ctx;
  MIR_module_t m, mods[2] = {NULL, NULL};
  int nmods = 1, b_first_p = 0;
  int gen_p = strcmp (engine, "interp") != 0;
  int regen_p = strcmp (engine, "regen") == 0, bb_p = strcmp (engine, "bb") == 0;

  interp_after_gen_p = 0;
  printf ("case %s\n", id);
  n_arecs = 0;
  ctx = MIR_init2 (&h_alloc, NULL);
  if (setjmp (err_jmp)) {
    printf ("error %s\nend\n", err_msg);
    return; /* the context is abandoned */
  }
  MIR_set_error_func (ctx, err_func);
  for (int i = 0; i < nlines; i++)
    if (is_kind (i, "lfunc")) {
      lines[i].nlab = atoi (lines[i].tok[2]);
      lines[i].nbase = lines[i].ntok > 3 ? atoi (lines[i].tok[3]) : 0;
      for (int j = 0; j < lines[i].nlab; j++) lines[i].labs[j] = MIR_new_label (ctx);
      for (int j = 0; j < lines[i].nbase; j++) lines[i].blabs[j] = MIR_new_label (ctx);
    }
  mods[0] = MIR_new_module (ctx, "m");
  for (int i = 0; i < nlines; i++) {
    lines[i].mod = nmods - 1;
    if (is_kind (i, "module")) {
      MIR_finish_module (ctx);
      mods[1] = MIR_new_module (ctx, "m2");
      nmods = 2;
      b_first_p = strcmp (lines[i].tok[1], "b-first") == 0;
      lines[i].mod = 1;
      continue;
    }
    build_item (ctx, i);
  }
  MIR_finish_module (ctx);
  for (int i = 0; i < nlines; i++)
    if (is_kind (i, "import")) {
      if (target_addr_is_external (i)) {
        if (preext_p) MIR_load_external (ctx, lines[i].tok[1], ext_area2[i]); /* decoy, replaced next */
        MIR_load_external (ctx, lines[i].tok[1], ext_area[i]);
      } else if (preext_p) {
        MIR_load_external (ctx, lines[i].tok[1], ext_area[i]); /* hidden by the module export later */
      }
    }
  if (gen_p) MIR_gen_init (ctx);
  load_and_link (ctx, mods, nmods, b_first_p, engine, gen_p, bb_p);
  if (reload_p) {
    /* what a running program does to its data, then the same modules once more */
    for (int i = 0; i < nlines; i++)
      if (data_kind_p (i) && !is_kind (i, "lref")) memset (lines[i].item->addr, 0x5C, (size_t) own_item_size (i));
    load_and_link (ctx, mods, nmods, b_first_p, engine, gen_p, bb_p);
  }
  if (regen_p) {
    call_ctx = ctx;
    interp_after_gen_p = 1;
    gen_p = 0;
    for (int i = 0; i < nlines; i++)
      if (is_kind (i, "lfunc") && call_lfunc (lines[i].item, 0) != -1) printf ("lfunc %d wrong result (interp after gen)\n", i);
  }
  for (int i = 0; i < nlines; i++) {
    cline_t *l = &lines[i];
    MIR_item_t item = l->item, head;
    int pos, hpos, size;
    uint8_t *p;
    if (is_kind (i, "module")) {
      print_secs (mods[0]);
      printf ("module\n");
      continue;
    }
    m = mods[l->mod];
    pos = item_pos (m, item);
    p = item->addr;
    if (!data_kind_p (i)) {
      printf ("other %d\n", pos);
      continue;
    }
    for (head = item; head != NULL && !head->section_head_p; head = DLIST_PREV (MIR_item_t, head))
      ;
    hpos = head == NULL ? -1 : item_pos (m, head);
    if (is_kind (i, "data"))
      size = atoi (l->tok[3]) * own_type_size (l->tok[2]);
    else if (is_kind (i, "bss"))
      size = atoi (l->tok[2]);
    else if (is_kind (i, "expr"))
      size = is_kind (atoi (l->tok[2]), "afunc") ? 8 : own_type_size (lines[atoi (l->tok[2])].tok[2]);
    else
      size = 8;
    printf ("item %d %s sec=%d off=%lld size=%d ", pos, l->tok[0], hpos,
            head == NULL ? -1LL : (long long) (p - (uint8_t *) head->addr), size);
    if (is_kind (i, "ref")) {
      int64_t v;
      memcpy (&v, p, 8);
      if (item->u.ref_data->load_addr != item->addr) printf ("load_addr=bad ");
      printf ("delta=%" PRId64 "\n", (int64_t) ((uint64_t) v - (uint64_t) target_addr (atoi (l->tok[2]))));
    } else if (is_kind (i, "expr") && is_kind (atoi (l->tok[2]), "afunc")) {
      int64_t v;
      memcpy (&v, p, 8);
      if (item->u.expr_data->load_addr != item->addr) printf ("load_addr=bad ");
      printf ("delta=%" PRId64 "\n",
              (int64_t) ((uint64_t) v - (uint64_t) target_addr (atoi (lines[atoi (l->tok[2])].tok[2]))));
    } else if (is_kind (i, "lref")) {
      int t = atoi (l->tok[2]), lab = atoi (l->tok[3]);
      int64_t v, disp = strtoll (l->tok[5], NULL, 10);
      const char *verdict;
      memcpy (&v, p, 8);
      if (item->u.lref_data->load_addr != item->addr) printf ("load_addr=bad ");
      if (!lref_registered_p (i)) {
        verdict = "unregistered"; /* the slot is never written: do not jump through it */
      } else if (strcmp (l->tok[4], "-") == 0) {
        verdict = call_lfunc (lines[t].item, v - disp) == 100 + lab ? "ok" : "bad";
      } else if (l->tok[4][0] == 'b') {
        /* the base label has no address of its own to compare with (a probe would make it reachable):
           the address the cell implies for it must lie between the two ordinary labels around it
           (interp and whole-function generators keep the code order; bb versions have no order) */
        int j = atoi (l->tok[4] + 1);
        int64_t a1, lo, hi;
        if (!label_addr (t, lab, &a1) || !label_addr (t, j, &lo)) {
          verdict = "unverified";
        } else {
          int64_t ax = a1 - (v - disp); /* the difference is in bytes under every engine */
          verdict = bb_p                                                                    ? "ok"
                    : ax > lo && (!(j + 1 < lines[t].nlab && label_addr (t, j + 1, &hi)) || ax < hi) ? "ok"
                                                                                             : "bad";
        }
      } else {
        /* engine-independent: the cell is the difference IN BYTES of the two label addresses the same
           engine hands out, plus disp; and a jmpi through address(label2) + difference reaches label */
        int64_t a1, a2;
        if (!label_addr (t, lab, &a1) || !label_addr (t, atoi (l->tok[4]), &a2))
          verdict = "unverified";
        else
          verdict = a1 - a2 == v - disp && call_lfunc (lines[t].item, a2 + (v - disp)) == 100 + lab ? "ok"
                                                                                                     : "bad";
      }
      printf ("lref=%s\n", verdict);
    } else {
      int shown = size;
      if (is_kind (i, "expr")) {
        if (item->u.expr_data->load_addr != item->addr) printf ("load_addr=bad ");
        if (strcmp (lines[atoi (l->tok[2])].tok[2], "ld") == 0) shown = 10;
      }
      printf ("bytes=");
      for (int j = 0; j < shown; j++) printf ("%02x", p[j]);
      for (int j = shown; j < size; j++) printf ("??");
      printf ("\n");
    }
  }
  print_secs (mods[nmods - 1]);
  printf ("end\n");
  fflush (stdout);
  if (gen_p || regen_p) MIR_gen_finish (ctx);
  MIR_finish (ctx);
}

int main (void) {
  static char buf[1 << 16];
  char id[64] = "", engine[16] = "";
  int in_case = 0;
  while (fgets (buf, sizeof (buf), stdin) != NULL) {
    char *tok[MAX_TOK];
    int n = 0;
    for (char *s = strtok (buf, " \t\r\n"); s != NULL && n < MAX_TOK; s = strtok (NULL, " \t\r\n")) tok[n++] = s;
    if (n == 0) continue;
    if (strcmp (tok[0], "case") == 0 && n >= 3) {
      const char *flags = n >= 4 ? tok[3] : "";
      preext_p = strstr (flags, "preext") != NULL;
      postext_p = strstr (flags, "postext") != NULL;
      reload_p = strstr (flags, "reload") != NULL;
      for (int i = 0; i < nlines; i++)
        for (int j = 0; j < lines[i].ntok; j++) free (lines[i].tok[j]);
      nlines = 0;
      snprintf (id, sizeof (id), "%s", tok[1]);
      snprintf (engine, sizeof (engine), "%s", tok[2]);
      in_case = 1;
    } else if (strcmp (tok[0], "end") == 0) {
      if (in_case) run_case (id, engine);
      in_case = 0;
    } else if (in_case && nlines < MAX_LINES) {
      memset (&lines[nlines], 0, sizeof (cline_t));
      lines[nlines].ntok = n;
      for (int j = 0; j < n; j++) lines[nlines].tok[j] = strdup (tok[j]);
      nlines++;
    }
  }
  return 0;
}
