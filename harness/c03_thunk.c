/* C03 T2 harness: the real thunk codec and the real interface bookkeeping, observed from outside.

   One translation unit with the repository's mir-gen.c (the two generation hooks and the bb wrapper
   are `static` there); mir.c is linked as a second unit.

   usage: c03_thunk codec < plan        thunk bytes / _MIR_get_thunk_addr / executing the thunk
          c03_thunk hist <file.mir> < plan   API histories on real modules
          c03_thunk regs < plan         register contract of the lazy wrapper and the bb wrapper

   codec plan:
     ctx <base>             new context whose code pages are mapped at <base> (hex; 0 = anywhere);
                            8 thunks are taken from _MIR_get_thunk            -> `thunks a0 .. a7`
     r <i> rel|abs <v>      _MIR_redirect_thunk (thunk i, to) with to = a+5+v | v; bytes read back
                            -> `redir <a> <to> <13 bytes> <_MIR_get_thunk_addr>`
     x <i> rel|abs <v>      the same, then a landing pad `mov $id,%eax; ret` is mapped at `to` (when the
                            page is free) and the thunk is CALLED
                            -> `exec <a> <to> <bytes> <get> ok|wrong:<v>|crash:<sig>|skip`
   hist plan (functions are `f<k>: func i64, i64:x`, modules in file order):
     load <m> | reload <m> | link <iface> | set <iface> <f> | call <f> <x> [callees] | gen <f> | redef <0|1> | opt <n>
     every command prints the event(s) in the vocabulary of mirdrv_c03 (`u`, `ev ...` with the addresses
     the library really produced, `show`) followed by `st` lines describing what is really in memory
     (kind = classification of the code found at the thunk's destination), `ret <f> <x> <value>` for calls.
   All output is compared with the Lean model by checks/c03.py. */
#define _GNU_SOURCE
#include <stdarg.h>
#include "mir-gen.c"
#include <sys/mman.h>
#include <signal.h>
#include <setjmp.h>
#include <unistd.h>

#define MMAP_FAIL ((void *) -1)

/* ------------------------------------------------------------------ code allocator with a hint */
static uintptr_t map_hint;
static void *hint_map (size_t len, void *ud) {
  void *p = MMAP_FAIL;
  (void) ud;
  if (map_hint != 0) {
    p = mmap ((void *) map_hint, len, PROT_READ | PROT_WRITE | PROT_EXEC,
              MAP_PRIVATE | MAP_ANONYMOUS | MAP_FIXED_NOREPLACE, -1, 0);
    map_hint += (len + 0xffff) & ~(uintptr_t) 0xffff;
  }
  if (p == MMAP_FAIL) p = mmap (NULL, len, PROT_READ | PROT_WRITE | PROT_EXEC, MAP_PRIVATE | MAP_ANONYMOUS, -1, 0);
  return p == MMAP_FAIL ? NULL : p;
}
static int hint_unmap (void *a, size_t len, void *ud) { (void) ud; return munmap (a, len); }
static int hint_protect (void *a, size_t len, MIR_mem_protect_t prot, void *ud) {
  (void) ud;
  return mprotect (a, len, prot == PROT_WRITE_EXEC ? (PROT_WRITE | PROT_EXEC | PROT_READ) : (PROT_READ | PROT_EXEC));
}
static struct MIR_code_alloc hint_alloc = {hint_map, hint_unmap, hint_protect, NULL};

/* ------------------------------------------------------------------ crash containment */
static sigjmp_buf crash_env;
static volatile int in_call;
static void on_sig (int sig) {
  if (in_call) siglongjmp (crash_env, sig);
  printf ("E signal %d outside a guarded call\n", sig);
  fflush (stdout);
  _exit (70 + sig % 20);
}
static void install_handlers (void) {
  static char altstack[1 << 16];
  stack_t ss = {.ss_sp = altstack, .ss_size = sizeof (altstack), .ss_flags = 0};
  sigaltstack (&ss, NULL);
  struct sigaction sa;
  memset (&sa, 0, sizeof (sa));
  sa.sa_handler = on_sig;
  sa.sa_flags = SA_NODEFER | SA_ONSTACK;
  sigaction (SIGSEGV, &sa, NULL); sigaction (SIGILL, &sa, NULL); sigaction (SIGBUS, &sa, NULL);
  sigaction (SIGFPE, &sa, NULL); sigaction (SIGALRM, &sa, NULL); sigaction (SIGABRT, &sa, NULL);
  sigaction (SIGTRAP, &sa, NULL);
}

static int err_seen;
static char err_text[200];
static sigjmp_buf err_env;
static int err_catch;
static MIR_NO_RETURN void err_func (MIR_error_type_t t, const char *fmt, ...) {
  va_list ap;
  va_start (ap, fmt);
  vsnprintf (err_text, sizeof (err_text), fmt, ap);
  va_end (ap);
  err_seen = (int) t + 1;
  if (err_catch) siglongjmp (err_env, 1);
  printf ("E mir-error %d %s\n", (int) t, err_text);
  fflush (stdout);
  exit (3);
}

static void hex_bytes (const uint8_t *p, int n) {
  for (int i = 0; i < n; i++) printf ("%02x", p[i]);
}

/* independent decoder of the two thunk encodings (what the CPU does) */
static int decode_thunk (const uint8_t *t, uint64_t *target) {
  if (t[0] == 0xe9) {
    int32_t rel;
    memcpy (&rel, t + 1, 4);
    *target = (uint64_t) (uintptr_t) t + 5 + (uint64_t) (int64_t) rel;
    return 1;
  }
  if (t[0] == 0x49 && t[1] == 0xbb && t[10] == 0x41 && t[11] == 0xff && t[12] == 0xe3) {
    memcpy (target, t + 2, 8);
    return 1;
  }
  return 0;
}

/* ================================================================== codec mode */
#define NTH 8
static int codec_mode (void) {
  MIR_context_t ctx = NULL;
  uint8_t *th[NTH];
  char *line = NULL;
  size_t cap = 0;
  int exec_id = 0x1000;
  while (getline (&line, &cap, stdin) > 0) {
    char cmd[16], kind[16];
    unsigned long long v;
    int i;
    if (sscanf (line, "ctx %llx", &v) == 1) {
      map_hint = (uintptr_t) v;
      ctx = MIR_init2 (NULL, &hint_alloc);
      MIR_set_error_func (ctx, err_func);
      printf ("thunks");
      for (int k = 0; k < NTH; k++) {
        th[k] = _MIR_get_thunk (ctx);
        printf (" %llx", (unsigned long long) (uintptr_t) th[k]);
      }
      printf ("\n");
    } else if (sscanf (line, "%15s %d %15s %llx", cmd, &i, kind, &v) == 4 && ctx != NULL && i >= 0 && i < NTH) {
      uint8_t *a = th[i];
      uint64_t to = !strcmp (kind, "rel") ? (uint64_t) (uintptr_t) a + 5 + (uint64_t) v : (uint64_t) v;
      _MIR_redirect_thunk (ctx, a, (void *) (uintptr_t) to);
      void *got = _MIR_get_thunk_addr (ctx, a);
      int ex = !strcmp (cmd, "x");
      printf ("%s %llx %llx ", ex ? "exec" : "redir", (unsigned long long) (uintptr_t) a, (unsigned long long) to);
      hex_bytes (a, 13);
      printf (" %llx", (unsigned long long) (uintptr_t) got);
      if (ex) {
        /* landing pad exactly at `to` */
        uintptr_t pg = (uintptr_t) to & ~(uintptr_t) 0xfff;
        size_t plen = (((uintptr_t) to + 6 + 0xfff) & ~(uintptr_t) 0xfff) - pg;
        void *m = MMAP_FAIL;
        if (to >= 0x10000 && to < 0x7fffffff0000ull)
          m = mmap ((void *) pg, plen, PROT_READ | PROT_WRITE | PROT_EXEC,
                    MAP_PRIVATE | MAP_ANONYMOUS | MAP_FIXED_NOREPLACE, -1, 0);
        if (m == MMAP_FAIL || (uintptr_t) m != pg) {
          if (m != MMAP_FAIL) munmap (m, plen);
          printf (" skip\n");
        } else {
          int id = exec_id++;
          uint8_t *p = (uint8_t *) (uintptr_t) to;
          p[0] = 0xb8; memcpy (p + 1, &id, 4); p[5] = 0xc3;
          int sg, r = 0;
          in_call = 1;
          alarm (5);
          if ((sg = sigsetjmp (crash_env, 1)) == 0) {
            r = ((int (*) (void)) a) ();
            alarm (0); in_call = 0;
            if (r == id) printf (" ok\n"); else printf (" wrong:%x\n", r);
          } else {
            alarm (0); in_call = 0;
            printf (" crash:%d\n", sg);
          }
          munmap (m, plen);
        }
      } else
        printf ("\n");
    } else {
      printf ("E bad-line %s", line);
    }
    fflush (stdout);
  }
  return 0;
}

/* ================================================================== history mode */
#define MAXF 64
static MIR_context_t hctx;
static MIR_item_t fitem[MAXF];
static void *first_addr[MAXF];
static int nf_seen;
static MIR_module_t mods[16];
static int nmods;
static uint64_t undef_addr;
static int have_undef;
static void *shim_handler; /* all interpreter shims must share one handler */

static int func_id (MIR_item_t it) { return atoi (it->u.func->name + 1); }

static const char *classify (int f, uint64_t to) {
  MIR_item_t it = fitem[f];
  gen_ctx_t gen_ctx = *gen_ctx_loc (hctx);
  const uint8_t *p = (const uint8_t *) (uintptr_t) to;
  void *q;
  if (have_undef && to == undef_addr) return "undefined";
  if (it->u.func->machine_code != NULL && to == (uint64_t) (uintptr_t) it->u.func->call_addr) return "code";
  /* _MIR_get_wrapper: push rsi; push rdi; movabs item,%rsi; movabs ctx,%rdi; movabs hook,%r10; jmp rel32 */
  if (p[0] == 0x56 && p[1] == 0x57 && p[2] == 0x48 && p[3] == 0xbe && p[12] == 0x48 && p[13] == 0xbf
      && p[22] == 0x49 && p[23] == 0xba && p[32] == 0xe9) {
    memcpy (&q, p + 4, 8);
    if (q != (void *) it) return "wrapper-of-other-func";
    memcpy (&q, p + 14, 8);
    if (q != (void *) hctx) return "wrapper-of-other-ctx";
    memcpy (&q, p + 24, 8);
    if (q == (void *) generate_func_and_redirect_to_func_code) return "lazywrap";
    if (q == (void *) generate_func_and_redirect_to_bb_gen) return "bbwrap";
    return "wrapper-unknown-hook";
  }
  /* _MIR_get_interp_shim: push rbx; save_pat...; ... movabs ctx,%rdi; movabs item,%rsi; movabs handler,%rax; call *%rax */
  if (p[0] == 0x53) {
    for (int i = 1; i < 260; i++)
      if (p[i] == 0x48 && p[i + 1] == 0xbf && p[i + 10] == 0x48 && p[i + 11] == 0xbe && p[i + 20] == 0x48
          && p[i + 21] == 0xb8 && p[i + 30] == 0xff && p[i + 31] == 0xd0) {
        memcpy (&q, p + i + 2, 8);
        if (q != (void *) hctx) return "shim-of-other-ctx";
        memcpy (&q, p + i + 12, 8);
        if (q != (void *) it) return "shim-of-other-func";
        memcpy (&q, p + i + 22, 8);
        if (shim_handler == NULL) shim_handler = q;
        if (q != shim_handler) return "shim-other-handler";
        return "shim";
      }
  }
  /* _MIR_get_bb_thunk: movabs bb_version,%r10; jmp rel32 (to the bb wrapper), or, once the first
     bb version exists, `jmp rel32` to its code (_MIR_replace_bb_thunk) */
  if (gen_ctx != NULL && p[0] == 0x49 && p[1] == 0xba && p[10] == 0xe9) {
    int32_t rel;
    memcpy (&rel, p + 11, 4);
    if ((uintptr_t) p + 15 + (int64_t) rel == (uintptr_t) bb_wrapper) {
      bb_version_t bv;
      memcpy (&bv, p + 2, 8);
      if (it->data == NULL) return "bbthunk-without-stubs";
      if (bv->bb_stub != &((struct bb_stub *) it->data)[0]) return "bbthunk-of-other-bb";
      return "bbthunk";
    }
  }
  /* (item->data is also used by the interpreter: it is read as bb stubs only when the destination is a bare jump) */
  if (it->data != NULL && gen_ctx != NULL && p[0] == 0xe9) {
    bb_version_t bv = DLIST_HEAD (bb_version_t, ((struct bb_stub *) it->data)[0].bb_versions);
    /* after the first bb version was generated the bb thunk is overwritten by `jmp rel32` to its code */
    if (bv != NULL && bv->machine_code != NULL && p[0] == 0xe9) {
      int32_t rel;
      memcpy (&rel, p + 1, 4);
      if ((uintptr_t) p + 5 + (int64_t) rel == (uintptr_t) bv->machine_code) return "bbthunk";
    }
  }
  return "unknown";
}

static void print_state (void) {
  printf ("show\n");
  for (int f = 0; f < MAXF; f++) {
    MIR_item_t it = fitem[f];
    if (it == NULL || first_addr[f] == NULL) continue;
    uint8_t *a = it->addr;
    uint64_t tgt = 0;
    int ok = decode_thunk (a, &tgt);
    uint64_t got = (uint64_t) (uintptr_t) _MIR_get_thunk_addr (hctx, a);
    printf ("st %d addr=%llx bytes=", f, (unsigned long long) (uintptr_t) a);
    hex_bytes (a, 13);
    printf (" kind=%s mc=", ok ? classify (f, tgt) : "undecodable");
    if (it->u.func->machine_code == NULL) printf ("none"); else printf ("%llx", (unsigned long long) (uintptr_t) it->u.func->machine_code);
    if (ok) printf (" target=%llx", (unsigned long long) tgt); else printf (" target=none");
    printf (" get=%llx adm=1", (unsigned long long) got);
    if (a != first_addr[f]) printf (" ADDR-CHANGED-from-%llx", (unsigned long long) (uintptr_t) first_addr[f]);
    printf ("\n");
  }
  printf ("end\n");
}

static void do_load (int m) {
  MIR_load_module (hctx, mods[m]);
  for (MIR_item_t it = DLIST_HEAD (MIR_item_t, mods[m]->items); it != NULL && !have_undef; it = DLIST_NEXT (MIR_item_t, it))
    if (it->item_type == MIR_func_item) {
      have_undef = 1;
      undef_addr = (uint64_t) (uintptr_t) _MIR_get_thunk_addr (hctx, it->addr);
      /* behavioural check: calling a loaded, unlinked function must report the undefined interface
         (undefined_interface takes the context from the first argument register, mir.c:1796) */
      err_catch = 1; err_seen = 0;
      if (sigsetjmp (err_env, 1) == 0) ((int64_t (*) (void *)) it->addr) ((void *) hctx);
      err_catch = 0;
      printf ("u %llx %s\n", (unsigned long long) undef_addr,
              err_seen == MIR_call_op_error + 1 && strstr (err_text, "undefined call interface") ? "undefined-interface-reported"
                                                                                                 : "NOT-REPORTED");
    }
  printf ("ev load");
  for (MIR_item_t it = DLIST_HEAD (MIR_item_t, mods[m]->items); it != NULL; it = DLIST_NEXT (MIR_item_t, it))
    if (it->item_type == MIR_func_item) {
      int f = func_id (it);
      fitem[f] = it;
      if (first_addr[f] == NULL) first_addr[f] = it->addr;
      printf (" %d:%llx", f, (unsigned long long) (uintptr_t) it->addr);
    }
  printf ("\n");
}

static uint64_t cur_target (int f) {
  uint64_t t = 0;
  decode_thunk (fitem[f]->addr, &t);
  return t;
}

static void (*iface_fn (const char *s)) (MIR_context_t, MIR_item_t) {
  if (!strcmp (s, "interp")) return MIR_set_interp_interface;
  if (!strcmp (s, "gen")) return MIR_set_gen_interface;
  if (!strcmp (s, "lazy")) return MIR_set_lazy_gen_interface;
  if (!strcmp (s, "bb")) return MIR_set_lazy_bb_gen_interface;
  return NULL;
}

static int hist_mode (const char *file) {
  FILE *fp = fopen (file, "rb");
  if (!fp) { perror (file); return 2; }
  fseek (fp, 0, SEEK_END); long n = ftell (fp); fseek (fp, 0, SEEK_SET);
  char *text = malloc (n + 1);
  if (fread (text, 1, n, fp) != (size_t) n) return 2;
  text[n] = 0; fclose (fp);
  map_hint = 0;
  hctx = MIR_init2 (NULL, &hint_alloc);
  MIR_set_error_func (hctx, err_func);
  MIR_gen_init (hctx);
  MIR_scan_string (hctx, text);
  for (MIR_module_t m = DLIST_HEAD (MIR_module_t, *MIR_get_module_list (hctx)); m != NULL; m = DLIST_NEXT (MIR_module_t, m))
    mods[nmods++] = m;
  char *line = NULL; size_t cap = 0;
  while (getline (&line, &cap, stdin) > 0) {
    char a[32], b[32]; int f; long long x; int k;
    if (sscanf (line, "load %d", &k) == 1 || sscanf (line, "reload %d", &k) == 1) {
      do_load (k);
    } else if (sscanf (line, "redef %d", &k) == 1) {
      MIR_set_func_redef_permission (hctx, k);
      continue;
    } else if (sscanf (line, "opt %d", &k) == 1) {
      MIR_gen_set_optimize_level (hctx, k);
      continue;
    } else if (sscanf (line, "link %31s", a) == 1 && iface_fn (a) != NULL) {
      /* which functions are waiting: every function of modules_to_link */
      MIR_link (hctx, iface_fn (a), NULL);
      printf ("ev link %s", a);
      for (int g = 0; g < MAXF; g++)
        if (fitem[g] != NULL && first_addr[g] != NULL) printf (" %d:%llx", g, (unsigned long long) cur_target (g));
      printf ("\n");
    } else if (sscanf (line, "set %31s %d", a, &f) == 2 && iface_fn (a) != NULL && fitem[f] != NULL) {
      iface_fn (a) (hctx, fitem[f]);
      if (!strcmp (a, "gen")) MIR_set_gen_interface (hctx, NULL);
      printf ("ev set %s %d %llx\n", a, f, (unsigned long long) cur_target (f));
    } else if (sscanf (line, "gen %d", &f) == 1 && fitem[f] != NULL) {
      MIR_gen (hctx, fitem[f]);
      printf ("ev gen %d %llx\n", f, (unsigned long long) (uintptr_t) fitem[f]->u.func->machine_code);
    } else if (sscanf (line, "call %d %lld", &f, &x) == 2 && fitem[f] != NULL) {
      int sg; int64_t r = 0;
      in_call = 1; alarm (10);
      if ((sg = sigsetjmp (crash_env, 1)) == 0) {
        r = ((int64_t (*) (int64_t)) fitem[f]->addr) ((int64_t) x);
        alarm (0); in_call = 0;
        printf ("ret %d %lld %lld\n", f, x, (long long) r);
      } else {
        alarm (0); in_call = 0;
        printf ("ret %d %lld crash:%d\n", f, x, sg);
      }
      /* the address of what was generated by the call, if anything: machine code or the bb thunk;
         the same for the (static) callees listed after <x>, in call order */
      {
        int fs[16], nfs = 0, pos = 0, g;
        char *q = line;
        fs[nfs++] = f;
        if (sscanf (q, "call %*d %*d%n", &pos) >= 0 && pos > 0) {
          q += pos;
          while (nfs < 16 && sscanf (q, " %d%n", &g, &pos) == 1) { fs[nfs++] = g; q += pos; }
        }
        for (int j = 0; j < nfs; j++) {
          g = fs[j];
          if (g < 0 || g >= MAXF || fitem[g] == NULL) continue;
          printf ("ev call %d %llx\n", g,
                  (unsigned long long) (fitem[g]->u.func->machine_code != NULL ? (uint64_t) (uintptr_t) fitem[g]->u.func->machine_code
                                                                              : cur_target (g)));
        }
      }
    } else {
      (void) b;
      printf ("E bad-line %s", line);
      continue;
    }
    print_state ();
    fflush (stdout);
  }
  return 0;
}

/* ================================================================== register contracts */
struct c03_regs {
  uint64_t gpr[16];    /* rax rcx rdx rbx rsp rbp rsi rdi r8..r15 (hardware numbering) */
  uint64_t xmm[16][2]; /* xmm0..xmm15 */
  uint64_t stk[4];     /* four stack words above the return address */
};
extern void c03_invoke (void *target, const struct c03_regs *in, struct c03_regs *after);
extern void c03_probe (void);
extern void c03_trash (void);
extern struct c03_regs c03_seen;
extern uint64_t c03_seen_valid;

static int hook_calls;
static void *trash_hook2 (void *a, void *b) {
  (void) a; (void) b;
  hook_calls++;
  c03_trash ();
  return (void *) c03_probe;
}

static const char *gpr_name[16] = {"rax", "rcx", "rdx", "rbx", "rsp", "rbp", "rsi", "rdi", "r8", "r9", "r10", "r11", "r12", "r13", "r14", "r15"};

static int regs_mode (void) {
  char *line = NULL; size_t cap = 0;
  map_hint = 0;
  MIR_context_t ctx = MIR_init2 (NULL, &hint_alloc);
  MIR_set_error_func (ctx, err_func);
  MIR_gen_init (ctx);
  /* a function item for the lazy wrapper (never generated: our hook replaces the generator) */
  MIR_scan_string (ctx, "mr: module\nfr: func i64, i64:x\n ret x\n endfunc\n endmodule\n");
  MIR_module_t m = DLIST_HEAD (MIR_module_t, *MIR_get_module_list (ctx));
  MIR_item_t it = DLIST_HEAD (MIR_item_t, m->items);
  void *fwrap = _MIR_get_wrapper (ctx, it, trash_hook2);
  void *bbw = _MIR_get_bb_wrapper (ctx, (void *) 0x1234, trash_hook2);
  void *bbt = _MIR_get_bb_thunk (ctx, (void *) 0x5678, bbw);
  void *thunk = _MIR_get_thunk (ctx);
  while (getline (&line, &cap, stdin) > 0) {
    char what[16]; unsigned long long seed;
    if (sscanf (line, "%15s %llx", what, &seed) != 2) continue;
    struct c03_regs in, after;
    uint64_t s = seed;
    for (int i = 0; i < 16; i++) { s = s * 6364136223846793005ull + 1442695040888963407ull; in.gpr[i] = s ^ (s >> 29); }
    for (int i = 0; i < 16; i++)
      for (int j = 0; j < 2; j++) { s = s * 6364136223846793005ull + 1442695040888963407ull; in.xmm[i][j] = s ^ (s >> 31); }
    for (int i = 0; i < 4; i++) { s = s * 6364136223846793005ull + 1442695040888963407ull; in.stk[i] = s; }
    void *target;
    int bb = !strcmp (what, "bb");
    if (bb) target = bbt;
    else if (!strcmp (what, "lazy")) target = fwrap;
    else if (!strcmp (what, "thunk")) { _MIR_redirect_thunk (ctx, thunk, fwrap); target = thunk; }
    else { printf ("E bad-line %s", line); continue; }
    c03_seen_valid = 0;
    hook_calls = 0;
    memset (&after, 0, sizeof (after));
    int sg;
    in_call = 1; alarm (5);
    if ((sg = sigsetjmp (crash_env, 1)) == 0) {
      c03_invoke (target, &in, &after);
      alarm (0); in_call = 0;
    } else {
      alarm (0); in_call = 0;
      printf ("regs %s %llx crash:%d\n", what, seed, sg);
      continue;
    }
    printf ("regs %s %llx hook=%d probe=%d", what, seed, hook_calls, (int) c03_seen_valid);
    /* registers that must arrive unchanged at the destination */
    /* lazy wrapper: argument registers rdi rsi rdx rcx r8 r9, rax (vararg count), callee-saved rbx rbp r12-r15,
       xmm0-7; bb wrapper: everything except r10 (xmm8-15 are reported separately, see checks/c03.py) */
    for (int i = 0; i < 16; i++) {
      if (i == 4) continue; /* rsp compared separately */
      int must = bb ? (i != 10) : (i != 10 && i != 11);
      if (c03_seen.gpr[i] != in.gpr[i]) printf (" %s%s", must ? "LOST:" : "clobbered:", gpr_name[i]);
    }
    for (int i = 0; i < 16; i++) {
      int lost = c03_seen.xmm[i][0] != in.xmm[i][0] || c03_seen.xmm[i][1] != in.xmm[i][1];
      if (lost) printf (" %sxmm%d", i < 8 ? "LOST:" : "clobbered:", i);
    }
    if (c03_seen.gpr[4] != after.gpr[4]) printf (" LOST:rsp");   /* stack pointer at the destination = at the call */
    for (int i = 0; i < 4; i++) if (c03_seen.stk[i] != in.stk[i]) printf (" LOST:stack%d", i);
    /* callee-saved registers after return */
    static const int cs[] = {3, 5, 12, 13, 14, 15};
    for (int i = 0; i < 6; i++) if (after.gpr[cs[i]] != in.gpr[cs[i]]) printf (" LOST-after-return:%s", gpr_name[cs[i]]);
    printf ("\n");
    fflush (stdout);
  }
  return 0;
}

int main (int argc, char **argv) {
  install_handlers ();
  if (argc >= 2 && !strcmp (argv[1], "codec")) return codec_mode ();
  if (argc >= 3 && !strcmp (argv[1], "hist")) return hist_mode (argv[2]);
  if (argc >= 2 && !strcmp (argv[1], "regs")) return regs_mode ();
  fprintf (stderr, "usage: c03_thunk codec | hist <file.mir> | regs\n");
  return 2;
}
