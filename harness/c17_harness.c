/* C17 harness: runs API histories of the real MIR library under a *checking* MIR_alloc and a
   *checking* MIR_code_alloc and writes the allocator event trace that `mirdrv_c17 ledger` judges.

     c17_harness <trace-file> <step>...

   Built as one executable from this file (which #includes mir.c to reach its statics), mir-gen.c and
   c2mir/c2mir.c of $VERIF_REPO, all with -fno-omit-frame-pointer, linked -no-pie.

   Checking general purpose allocator: every block has a header and 32 guard bytes behind it, fresh
   memory is filled with 0xCD, freed memory with 0xDD and parked in a quarantine whose pattern is
   verified when the block leaves it (write after free); realloc always moves; every call is logged
   (`m`, `c`, `r` with the *reported* old size, `f`).
   Checking code allocator: regions are mapped PROT_READ|PROT_EXEC; write access only after a
   PROT_WRITE_EXEC request; at a PROT_READ_EXEC request (and at unmap) the region is compared with a
   shadow copy and every changed byte run is logged as an observed write `W`; a store to a page that
   is not write-enabled faults and is logged from the SIGSEGV handler.
   libc interposition: this executable defines malloc/calloc/realloc/free.  A call whose return
   address lies in the executable's text is a direct use of the libc allocator *by library code*
   (the harness itself only uses __libc_*): logged as `R fn ptr size caller`.  A libc free/realloc
   of a block owned by the checking allocator is logged the same way and the block is released
   through the checking allocator so that the run can continue. */
#define _GNU_SOURCE
#include <stdio.h>
#include <stdlib.h>
#include <string.h>
#include <stdint.h>
#include <stdarg.h>
#include <unistd.h>
#include <fcntl.h>
#include <signal.h>
#include <setjmp.h>
#include <dlfcn.h>
#include <errno.h>
#include <sys/stat.h>
#include <ucontext.h>

/* the library first (its statics are reachable, and it sees the same header order as in its own build) */
#include "mir.c"
#include "mir-gen.h"
#include "c2mir/c2mir.h"
#include <sys/mman.h>

#ifdef H_ASAN
/* AddressSanitizer flavour: no libc interposition (ASan owns malloc); every block of the checking
   allocator is its own ASan allocation and is returned at once, so that any later read or write of it
   by the library is reported by ASan as heap-use-after-free */
#define __libc_malloc malloc
#define __libc_calloc calloc
#define __libc_realloc realloc
#define __libc_free free
#else
extern void *__libc_malloc (size_t);
extern void *__libc_calloc (size_t, size_t);
extern void *__libc_realloc (void *, size_t);
extern void __libc_free (void *);
#endif
extern char __executable_start[];
extern char etext[];

/* ------------------------------------------------------------------ trace output */
static int h_tfd = -1;
static char h_tbuf[1 << 20];
static size_t h_tpos;
static unsigned long h_nev;

static void h_flush (void) {
  size_t off = 0;
  while (h_tfd >= 0 && off < h_tpos) {
    ssize_t n = write (h_tfd, h_tbuf + off, h_tpos - off);
    if (n <= 0) break;
    off += (size_t) n;
  }
  h_tpos = 0;
}

static void h_putc (char c) {
  if (h_tpos >= sizeof (h_tbuf)) h_flush ();
  h_tbuf[h_tpos++] = c;
}

static void h_putu (uint64_t v) {
  char tmp[24];
  int n = 0;
  do {
    tmp[n++] = (char) ('0' + v % 10);
    v /= 10;
  } while (v != 0);
  while (n > 0) h_putc (tmp[--n]);
}

static void h_puts (const char *s) {
  while (*s) h_putc (*s++);
}

/* tag followed by n numbers */
static void h_ev (const char *tag, int n, uint64_t a, uint64_t b, uint64_t c, uint64_t d) {
  uint64_t v[4] = {a, b, c, d};
  if (h_tfd < 0) return;
  h_puts (tag);
  for (int i = 0; i < n; i++) {
    h_putc (' ');
    h_putu (v[i]);
  }
  h_putc ('\n');
  h_nev++;
}

static void h_label (const char *s) {
  if (h_tfd < 0) return;
  h_puts ("# ");
  for (; *s; s++) h_putc (*s == ' ' || *s == '\n' ? '_' : *s);
  h_putc ('\n');
}

static void h_die (int code, const char *fmt, ...) {
  va_list ap;
  va_start (ap, fmt);
  fprintf (stderr, "c17_harness: ");
  vfprintf (stderr, fmt, ap);
  fprintf (stderr, "\n");
  va_end (ap);
  h_flush ();
  _exit (code);
}

/* ------------------------------------------------------------------ block table of the checking allocator */
#define H_NSTACK 6
typedef struct {
  uintptr_t key; /* user pointer; 0 = empty, 1 = tombstone */
  size_t size;
  uintptr_t stack[H_NSTACK];
} h_ent_t;

#define H_TAB_BITS 23
#define H_TAB_SIZE ((size_t) 1 << H_TAB_BITS)
static h_ent_t *h_tab;
static size_t h_tab_used, h_tab_live;

static size_t h_hash (uintptr_t p) { return (size_t) ((p >> 4) * 0x9E3779B97F4A7C15ull) >> (64 - H_TAB_BITS); }

static void h_tab_init (void) {
  h_tab = mmap (NULL, H_TAB_SIZE * sizeof (h_ent_t), PROT_READ | PROT_WRITE, MAP_PRIVATE | MAP_ANONYMOUS, -1, 0);
  if (h_tab == (void *) -1) h_die (2, "cannot map block table");
}

static h_ent_t *h_tab_find (const void *p) {
  if (h_tab == NULL || p == NULL) return NULL;
  for (size_t i = h_hash ((uintptr_t) p);; i = (i + 1) & (H_TAB_SIZE - 1)) {
    if (h_tab[i].key == (uintptr_t) p) return &h_tab[i];
    if (h_tab[i].key == 0) return NULL;
  }
}

static h_ent_t *h_tab_add (void *p, size_t size) {
  if (h_tab_used * 2 > H_TAB_SIZE) h_die (2, "block table full");
  for (size_t i = h_hash ((uintptr_t) p);; i = (i + 1) & (H_TAB_SIZE - 1))
    if (h_tab[i].key <= 1) {
      if (h_tab[i].key == 0) h_tab_used++;
      h_tab[i].key = (uintptr_t) p;
      h_tab[i].size = size;
      h_tab_live++;
      return &h_tab[i];
    }
}

static void h_tab_del (h_ent_t *e) {
  e->key = 1;
  h_tab_live--;
}

/* return addresses of the callers, by frame pointers (everything is built -fno-omit-frame-pointer) */
static void __attribute__ ((noinline)) h_stack (uintptr_t *out) {
  uintptr_t *fp = (uintptr_t *) __builtin_frame_address (0);
  int n = 0;
  for (int i = 0; i < H_NSTACK; i++) out[i] = 0;
  for (int depth = 0; depth < 24 && n < H_NSTACK; depth++) {
    uintptr_t *next = (uintptr_t *) fp[0];
    uintptr_t ra = fp[1];
    if (depth >= 1) out[n++] = ra; /* skip the checking allocator's own frame */
    if (next <= fp || ((uintptr_t) next & 7) != 0 || (uintptr_t) next - (uintptr_t) fp > (1u << 20)) break;
    fp = next;
  }
}

/* ------------------------------------------------------------------ checking MIR_alloc */
#define H_HDR 32
#define H_GUARD 32
#define H_MAGIC 0xC17A110CC17A110Cull
static size_t h_quar_bytes;
#define H_QUAR_MAX ((size_t) 64 << 20)
#define H_QUAR_N (1u << 18)
static struct {
  uint8_t *raw;
  size_t total;
} h_quar[H_QUAR_N];
static unsigned h_quar_head, h_quar_tail;
static unsigned long h_n_guard, h_n_waf;

static void *h_blk_new (size_t size, int zero) {
  uint8_t *raw = __libc_malloc (H_HDR + size + H_GUARD);
  if (raw == NULL) h_die (2, "out of memory (%zu)", size);
  ((uint64_t *) raw)[0] = H_MAGIC;
  ((uint64_t *) raw)[1] = size;
  memset (raw + H_HDR, zero ? 0 : 0xCD, size);
  memset (raw + H_HDR + size, 0xA5, H_GUARD);
  return raw + H_HDR;
}

static void h_blk_check (uint8_t *p, size_t size) {
  uint8_t *raw = p - H_HDR;
  int bad = ((uint64_t *) raw)[0] != H_MAGIC || ((uint64_t *) raw)[1] != size;
  for (int i = 0; i < H_GUARD && !bad; i++) bad = p[size + i] != 0xA5;
  if (bad) {
    h_n_guard++;
    h_ev ("G", 2, (uintptr_t) p, size, 0, 0);
  }
}

static void h_quar_pop (void) {
  uint8_t *raw = h_quar[h_quar_tail].raw;
  size_t total = h_quar[h_quar_tail].total;
  for (size_t i = 0; i < total; i++)
    if (raw[i] != 0xDD) {
      h_n_waf++;
      h_ev ("Q", 2, (uintptr_t) raw + H_HDR, total - H_HDR - H_GUARD, 0, 0);
      break;
    }
  __libc_free (raw);
  h_quar_bytes -= total;
  h_quar_tail = (h_quar_tail + 1) % H_QUAR_N;
}

/* is p inside a block the library has freed (and that is still parked in the quarantine)? */
static int h_freed_p (const void *p) {
  for (unsigned i = h_quar_tail; i != h_quar_head; i = (i + 1) % H_QUAR_N)
    if ((const uint8_t *) p >= h_quar[i].raw && (const uint8_t *) p < h_quar[i].raw + h_quar[i].total) return 1;
  return 0;
}

static void h_blk_release (uint8_t *p, size_t size) {
  uint8_t *raw = p - H_HDR;
  size_t total = H_HDR + size + H_GUARD;
#ifdef H_ASAN
  free (raw);
  return;
#endif
  memset (raw, 0xDD, total);
  while (h_quar_bytes + total > H_QUAR_MAX || (h_quar_head + 1) % H_QUAR_N == h_quar_tail) {
    if (h_quar_head == h_quar_tail) break;
    h_quar_pop ();
  }
  h_quar[h_quar_head].raw = raw;
  h_quar[h_quar_head].total = total;
  h_quar_head = (h_quar_head + 1) % H_QUAR_N;
  h_quar_bytes += total;
}

static void h_quar_drain (void) {
  while (h_quar_head != h_quar_tail) h_quar_pop ();
}

static void *h_chk_malloc (size_t size, void *ud) {
  (void) ud;
  void *p = h_blk_new (size, 0);
  h_stack (h_tab_add (p, size)->stack);
  h_ev ("m", 2, size, (uintptr_t) p, 0, 0);
  return p;
}

static void *h_chk_calloc (size_t num, size_t size, void *ud) {
  (void) ud;
  void *p = h_blk_new (num * size, 1);
  h_stack (h_tab_add (p, num * size)->stack);
  h_ev ("c", 3, num, size, (uintptr_t) p, 0);
  return p;
}

static void h_chk_free (void *p, void *ud) {
  (void) ud;
  if (p == NULL) return;
  h_ent_t *e = h_tab_find (p);
  h_ev ("f", 1, (uintptr_t) p, 0, 0, 0);
  if (e == NULL) return; /* not ours: double free or foreign pointer; the ledger reports it */
  h_blk_check (p, e->size);
  h_blk_release (p, e->size);
  h_tab_del (e);
}

static void *h_chk_realloc (void *p, size_t old_size, size_t new_size, void *ud) {
  (void) ud;
  h_ent_t *e = h_tab_find (p);
  uint8_t *q = h_blk_new (new_size, 0);
  if (e != NULL) {
    size_t n = e->size; /* like the allocator of CUSTOM-ALLOCATORS.md we would copy old_size bytes; */
    if (old_size < n) n = old_size; /* clamp to the true size so that a wrong report cannot crash us */
    if (new_size < n) n = new_size;
    memcpy (q, p, n);
    h_blk_check (p, e->size);
    h_blk_release (p, e->size);
    h_tab_del (e);
  }
  h_stack (h_tab_add (q, new_size)->stack);
  h_ev ("r", 4, (uintptr_t) p, old_size, new_size, (uintptr_t) q);
  return q;
}

/* ------------------------------------------------------------------ libc interposition */
static int h_in_text (void *ra) { return (char *) ra >= __executable_start && (char *) ra < etext; }

enum { H_RAW_MALLOC = 0, H_RAW_CALLOC = 1, H_RAW_REALLOC = 2, H_RAW_FREE = 3 };

#ifndef H_ASAN
void *malloc (size_t size) {
  void *ra = __builtin_return_address (0);
  void *p = __libc_malloc (size);
  if (h_in_text (ra)) h_ev ("R", 4, H_RAW_MALLOC, (uintptr_t) p, size, (uintptr_t) ra);
  return p;
}

void *calloc (size_t n, size_t size) {
  void *ra = __builtin_return_address (0);
  void *p = __libc_calloc (n, size);
  if (h_in_text (ra)) h_ev ("R", 4, H_RAW_CALLOC, (uintptr_t) p, n * size, (uintptr_t) ra);
  return p;
}

void free (void *p) {
  void *ra = __builtin_return_address (0);
  h_ent_t *e;
  if (p == NULL) return;
  if ((e = h_tab_find (p)) != NULL) { /* a user-allocator block handed to libc free */
    h_ev ("R", 4, H_RAW_FREE, (uintptr_t) p, e->size, (uintptr_t) ra);
    h_blk_check (p, e->size);
    h_blk_release (p, e->size);
    h_tab_del (e);
    return;
  }
  if (h_in_text (ra)) h_ev ("R", 4, H_RAW_FREE, (uintptr_t) p, 0, (uintptr_t) ra);
  __libc_free (p);
}

void *realloc (void *p, size_t size) {
  void *ra = __builtin_return_address (0);
  h_ent_t *e;
  if (p != NULL && (e = h_tab_find (p)) != NULL) {
    void *q = __libc_malloc (size);
    h_ev ("R", 4, H_RAW_REALLOC, (uintptr_t) p, size, (uintptr_t) ra);
    memcpy (q, p, e->size < size ? e->size : size);
    h_blk_release (p, e->size);
    h_tab_del (e);
    return q;
  }
  void *q = __libc_realloc (p, size);
  if (h_in_text (ra)) h_ev ("R", 4, H_RAW_REALLOC, (uintptr_t) q, size, (uintptr_t) ra);
  return q;
}

#endif /* !H_ASAN */

/* ------------------------------------------------------------------ checking MIR_code_alloc */
typedef struct {
  uint8_t *h_start;
  size_t h_len, h_rlen; /* requested / page rounded */
  uint8_t *h_shadow;
} h_region_t;
#define H_NREG 4096
static h_region_t h_reg[H_NREG];
static int h_nreg;
static size_t h_ps;
static uintptr_t h_last_map; /* result of the most recent mem_map (0 = none since reset) */

static size_t h_round (size_t n) { return (n + h_ps - 1) / h_ps * h_ps; }

/* log every byte run in [a, a+n) that differs from the shadow copy, then refresh the shadow */
static void h_diff (h_region_t *r, uint8_t *a, size_t n) {
  if (a < r->h_start) {
    n -= (size_t) (r->h_start - a) < n ? (size_t) (r->h_start - a) : n;
    a = r->h_start;
  }
  if (a + n > r->h_start + r->h_rlen) n = (size_t) (r->h_start + r->h_rlen - a);
  uint8_t *sh = r->h_shadow + (a - r->h_start);
  size_t i = 0;
  while (i < n) {
    if (a[i] == sh[i]) {
      i++;
      continue;
    }
    size_t j = i;
    while (j < n && a[j] != sh[j]) j++;
    h_ev ("W", 2, (uintptr_t) (a + i), j - i, 0, 0);
    memcpy (sh + i, a + i, j - i);
    i = j;
  }
}

static h_region_t *h_region_of (const void *p) {
  for (int i = 0; i < h_nreg; i++)
    if ((uint8_t *) p >= h_reg[i].h_start && (uint8_t *) p < h_reg[i].h_start + h_reg[i].h_rlen) return &h_reg[i];
  return NULL;
}

static void *h_chk_map (size_t len, void *ud) {
  (void) ud;
  size_t rlen = h_round (len);
  uint8_t *p = mmap (NULL, rlen, PROT_READ | PROT_EXEC, MAP_PRIVATE | MAP_ANONYMOUS, -1, 0);
  if (p == (void *) -1) h_die (2, "mmap failed");
  if (h_nreg >= H_NREG) h_die (2, "too many code regions");
  h_reg[h_nreg].h_start = p;
  h_reg[h_nreg].h_len = len;
  h_reg[h_nreg].h_rlen = rlen;
  h_reg[h_nreg].h_shadow = __libc_calloc (1, rlen);
  h_nreg++;
  h_last_map = (uintptr_t) p;
  h_ev ("M", 2, len, (uintptr_t) p, 0, 0);
  return p;
}

static int h_chk_unmap (void *p, size_t len, void *ud) {
  (void) ud;
  for (int i = 0; i < h_nreg; i++)
    if (h_reg[i].h_start == p) {
      h_diff (&h_reg[i], h_reg[i].h_start, h_reg[i].h_rlen); /* writes nobody asked permission for */
      h_ev ("U", 2, (uintptr_t) p, len, 0, 0);
      if (len == h_reg[i].h_len) {
        munmap (p, h_reg[i].h_rlen);
        __libc_free (h_reg[i].h_shadow);
        h_reg[i] = h_reg[--h_nreg];
      }
      return 0;
    }
  h_ev ("U", 2, (uintptr_t) p, len, 0, 0);
  return -1;
}

static int h_chk_protect (void *p, size_t len, MIR_mem_protect_t prot, void *ud) {
  (void) ud;
  h_region_t *r = h_region_of (p);
  if (prot == PROT_WRITE_EXEC) {
    h_ev ("P", 2, (uintptr_t) p, len, 0, 0);
    h_tbuf[h_tpos - 1] = ' ';
    h_puts ("w\n");
    if (r != NULL && len != 0 && mprotect (p, len, PROT_READ | PROT_WRITE | PROT_EXEC) != 0)
      fprintf (stderr, "c17_harness: mprotect W failed: %s\n", strerror (errno));
  } else {
    if (r != NULL && len != 0) h_diff (r, (uint8_t *) ((uintptr_t) p / h_ps * h_ps), h_round ((uintptr_t) p % h_ps + len));
    h_ev ("P", 2, (uintptr_t) p, len, 0, 0);
    h_tbuf[h_tpos - 1] = ' ';
    h_puts ("x\n");
    if (r != NULL && len != 0 && mprotect (p, len, PROT_READ | PROT_EXEC) != 0)
      fprintf (stderr, "c17_harness: mprotect X failed: %s\n", strerror (errno));
  }
  return 0;
}

static struct MIR_alloc h_alloc = {h_chk_malloc, h_chk_calloc, h_chk_realloc, h_chk_free, NULL};
static struct MIR_code_alloc h_code_alloc = {h_chk_map, h_chk_unmap, h_chk_protect, NULL};

/* freed blocks are filled with 0xDD: a pointer loaded from a freed block is 0xDDDD…, non-canonical,
   and dereferencing it raises a general protection fault (si_code SI_KERNEL, si_addr 0) */
static int h_poison_p (uint64_t v) { return v - 0xDDDDDDDDDDD00000ull < 0x2000000ull; }

static void h_segv (int sig, siginfo_t *si, void *uc) {
  h_region_t *r = h_region_of (si->si_addr);
  int poison = 0;
  if (r != NULL) {
    h_ev ("W", 2, (uintptr_t) si->si_addr, 1, 0, 0);
    h_label ("SIGSEGV store to code page without write access");
  } else {
    ucontext_t *u = uc;
    if (sig == SIGSEGV || sig == SIGBUS) {
      poison = h_poison_p ((uintptr_t) si->si_addr);
      for (int i = 0; i < NGREG && !poison; i++)
        if (i != REG_EFL && i != REG_CSGSFS && i != REG_ERR && i != REG_TRAPNO && i != REG_OLDMASK && i != REG_CR2)
          poison = si->si_code == SI_KERNEL && h_poison_p ((uint64_t) u->uc_mcontext.gregs[i]);
    }
    h_label (poison ? "SIGSEGV through a pointer read from a freed block (0xDD poison)"
                    : sig == SIGSEGV ? "SIGSEGV elsewhere" : "fatal signal");
  }
  h_ev ("X", 2, (uint64_t) sig, (uintptr_t) si->si_addr, 0, 0);
  h_flush ();
  _exit (r != NULL ? 9 : poison ? 10 : 8);
}

/* ------------------------------------------------------------------ history state */
static MIR_context_t h_ctx;
static int h_gen_on, h_c2m_on, h_iface; /* iface: 0 interp 1 gen 2 lazy 3 lazy bb */
static jmp_buf h_run_jmp;
static int h_run_active;
static char *h_wbuf; /* binary image written by `write` */
static size_t h_wlen, h_wpos;
static const char *h_cur_step = "";

#define H_Q() h_ev ("q", 0, 0, 0, 0, 0)

static jmp_buf h_err_jmp;
static int h_err_expected; /* linkfail: the MIR error is part of the history, come back with longjmp */

static void __attribute__ ((noreturn)) h_error (MIR_error_type_t et, const char *fmt, ...) {
  va_list ap;
  if (h_err_expected) {
    h_err_expected = 0;
    longjmp (h_err_jmp, 1 + (int) et);
  }
  va_start (ap, fmt);
  fprintf (stderr, "c17_harness: MIR error %d in step %s: ", (int) et, h_cur_step);
  vfprintf (stderr, fmt, ap);
  fprintf (stderr, "\n");
  va_end (ap);
  h_label ("MIR-ERROR history is not error free");
  h_flush ();
  _exit (7);
}

static char *h_read_file (const char *name, size_t *len) {
  FILE *f = fopen (name, "rb");
  if (f == NULL) h_die (3, "cannot open %s", name);
  fseek (f, 0, SEEK_END);
  long n = ftell (f);
  fseek (f, 0, SEEK_SET);
  char *s = __libc_malloc ((size_t) n + 1);
  if (fread (s, 1, (size_t) n, f) != (size_t) n) h_die (3, "cannot read %s", name);
  s[n] = 0;
  fclose (f);
  if (len != NULL) *len = (size_t) n;
  return s;
}

static void h_exit (int code) {
  if (h_run_active) longjmp (h_run_jmp, 0x100 + (code & 0xff));
  h_die (4, "program called exit outside run");
}
static void h_abort (void) {
  if (h_run_active) longjmp (h_run_jmp, 0x300);
  h_die (4, "program called abort outside run");
}

static void *h_libm;
static void *h_resolve (const char *name) {
  void *s;
  if (strcmp (name, "exit") == 0 || strcmp (name, "_exit") == 0 || strcmp (name, "_Exit") == 0) return h_exit;
  if (strcmp (name, "abort") == 0) return h_abort;
  if (strcmp (name, "_MIR_flush_code_cache") == 0) return _MIR_flush_code_cache;
  if (strncmp (name, "nosuch", 6) == 0) return NULL; /* deliberately unresolvable (failed-link histories) */
  if ((s = dlsym (RTLD_DEFAULT, name)) != NULL) return s;
  if (h_libm != NULL && (s = dlsym (h_libm, name)) != NULL) return s;
  if (strcmp (name, "stat") == 0) return stat;
  if (strcmp (name, "lstat") == 0) return lstat;
  if (strcmp (name, "fstat") == 0) return fstat;
  fprintf (stderr, "c17_harness: cannot resolve %s\n", name);
  h_label ("UNRESOLVED import");
  h_flush ();
  _exit (5);
}

static void h_need_ctx (void) {
  if (h_ctx == NULL) h_die (3, "step %s needs a context", h_cur_step);
}

static void h_step_init (void) {
  h_ctx = MIR_init2 (&h_alloc, &h_code_alloc);
  MIR_set_error_func (h_ctx, h_error);
  h_gen_on = h_c2m_on = 0;
  H_Q ();
}

static void h_step_scan (const char *file) {
  char *s = h_read_file (file, NULL);
  h_need_ctx ();
  MIR_scan_string (h_ctx, s);
  H_Q ();
  __libc_free (s);
}

static int h_wr_byte (MIR_context_t c, uint8_t b) {
  (void) c;
  if (h_wpos >= h_wlen) {
    h_wlen = h_wlen == 0 ? 1 << 16 : h_wlen * 2;
    h_wbuf = __libc_realloc (h_wbuf, h_wlen);
  }
  h_wbuf[h_wpos++] = (char) b;
  return 1;
}
static size_t h_rd_pos;
static int h_rd_byte (MIR_context_t c) {
  (void) c;
  return h_rd_pos < h_wpos ? (uint8_t) h_wbuf[h_rd_pos++] : EOF;
}

static void h_step_write (void) {
  h_need_ctx ();
  h_wpos = 0;
  MIR_write_with_func (h_ctx, h_wr_byte);
  H_Q ();
}

static void h_step_readbuf (void) {
  h_need_ctx ();
  h_rd_pos = 0;
  MIR_read_with_func (h_ctx, h_rd_byte);
  H_Q ();
}

static void h_step_readfile (const char *file) {
  size_t n;
  char *s = h_read_file (file, &n);
  h_need_ctx ();
  __libc_free (h_wbuf);
  h_wbuf = s;
  h_wlen = h_wpos = n;
  h_step_readbuf ();
}

static void h_step_output (void) {
  char *buf = NULL;
  size_t len = 0;
  FILE *f = open_memstream (&buf, &len);
  h_need_ctx ();
  MIR_output (h_ctx, f);
  H_Q ();
  fclose (f);
  __libc_free (buf);
}

/* write every module, read the image into a second context with the same allocators, print it
   there, finish the second context */
static void h_step_roundtrip (void) {
  MIR_context_t c2;
  char *buf = NULL;
  size_t len = 0;
  FILE *f;
  h_step_write ();
  c2 = MIR_init2 (&h_alloc, &h_code_alloc);
  MIR_set_error_func (c2, h_error);
  H_Q ();
  h_rd_pos = 0;
  MIR_read_with_func (c2, h_rd_byte);
  H_Q ();
  f = open_memstream (&buf, &len);
  MIR_output (c2, f);
  H_Q ();
  fclose (f);
  __libc_free (buf);
  MIR_finish (c2);
  H_Q ();
}

struct h_getc_data {
  const char *h_s;
  size_t h_pos, h_n;
};
static int h_getc (void *d) {
  struct h_getc_data *g = d;
  return g->h_pos < g->h_n ? (unsigned char) g->h_s[g->h_pos++] : EOF;
}

static unsigned h_c2m_modnum;
/* opts: string of letters  E (preprocess only) S (asm output) y (syntax only) p (pedantic) x (errors expected)
   I<n>: n include directories, the first n-1 do not exist, the last one is <dir of file>/incdir
   D<n>: n additional -D macros (C17_M0 … ) */
static void h_step_c2m (const char *file, const char *opts) {
  struct c2mir_options o;
  struct h_getc_data g;
  size_t n;
  char *src = h_read_file (file, &n), *dir = strdup (file), *slash;
  const char *incs[2];
  struct c2mir_macro_command mc[2] = {{1, "C17_HARNESS", "1"}, {1, "__C2MIR_TEST__", "1"}};
  char *obuf = NULL;
  size_t olen = 0;
  FILE *of = NULL, *msg;
  int ok;
  h_need_ctx ();
  if (!h_c2m_on) {
    c2mir_init (h_ctx);
    h_c2m_on = 1;
    H_Q ();
  }
  memset (&o, 0, sizeof (o));
  msg = fopen ("/dev/null", "w");
  o.message_file = msg;
  o.module_num = h_c2m_modnum++;
  if ((slash = strrchr (dir, '/')) != NULL) *slash = 0;
  incs[0] = dir;
  o.include_dirs = incs;
  o.include_dirs_num = slash != NULL ? 1 : 0;
  o.macro_commands = mc;
  o.macro_commands_num = 2;
  {
    const char *ip = strchr (opts, 'I'), *dp = strchr (opts, 'D');
    static char h_dirs[512][48], h_last[4096], h_mn[512][24];
    static const char *h_dirp[512];
    static struct c2mir_macro_command h_mc[514];
    size_t ni = ip != NULL ? strtoul (ip + 1, NULL, 10) : 0, nd = dp != NULL ? strtoul (dp + 1, NULL, 10) : 0;
    if (ni > 512) ni = 512;
    if (nd > 512) nd = 512;
    if (ni > 0) {
      for (size_t i = 0; i + 1 < ni; i++) {
        snprintf (h_dirs[i], sizeof (h_dirs[i]), "/nonexistent/c17/d%zu", i);
        h_dirp[i] = h_dirs[i];
      }
      snprintf (h_last, sizeof (h_last), "%s/incdir", slash != NULL ? dir : ".");
      h_dirp[ni - 1] = h_last;
      o.include_dirs = h_dirp;
      o.include_dirs_num = ni;
    }
    if (nd > 0) {
      h_mc[0] = mc[0];
      h_mc[1] = mc[1];
      for (size_t i = 0; i < nd; i++) {
        snprintf (h_mn[i], sizeof (h_mn[i]), "C17_M%zu", i);
        h_mc[2 + i].def_p = 1;
        h_mc[2 + i].name = h_mn[i];
        h_mc[2 + i].def = "1";
      }
      o.macro_commands = h_mc;
      o.macro_commands_num = 2 + nd;
    }
  }
  if (strchr (opts, 'p')) o.pedantic_p = 1;
  if (strchr (opts, 'y')) o.syntax_only_p = 1;
  if (strchr (opts, 'E')) {
    o.prepro_only_p = 1;
    of = open_memstream (&obuf, &olen);
    o.prepro_output_file = of;
  }
  if (strchr (opts, 'S')) {
    o.asm_p = 1;
    of = open_memstream (&obuf, &olen);
  }
  g.h_s = src;
  g.h_pos = 0;
  g.h_n = n;
  ok = c2mir_compile (h_ctx, &o, h_getc, &g, file, of);
  H_Q ();
  if (of != NULL) {
    /* c2mir_compile itself closes `output_file` after writing a module (c2mir.c:14234) */
    if (!(o.asm_p && ok)) fclose (of);
    __libc_free (obuf);
  }
  fclose (msg);
  __libc_free (dir);
  __libc_free (src);
  if (!ok) {
    if (strchr (opts, 'x') == NULL) { /* 'x': compile errors are expected */
      fprintf (stderr, "c17_harness: c2mir_compile failed for %s\n", file);
      h_label ("C2M-ERROR history is not error free");
      h_flush ();
      _exit (6);
    }
    h_label ("c2m compile error (expected)");
  }
}

static void h_step_c2mfinish (void) {
  h_need_ctx ();
  if (h_c2m_on) {
    c2mir_finish (h_ctx);
    h_c2m_on = 0;
    H_Q ();
  }
}

static void h_step_load (void) {
  h_need_ctx ();
  for (MIR_module_t m = DLIST_HEAD (MIR_module_t, *MIR_get_module_list (h_ctx)); m != NULL;
       m = DLIST_NEXT (MIR_module_t, m)) {
    MIR_load_module (h_ctx, m);
    H_Q ();
  }
}

static void h_gen_start (int level) {
  if (!h_gen_on) {
    MIR_gen_init (h_ctx);
    h_gen_on = 1;
    H_Q ();
  }
  if (level >= 0) MIR_gen_set_optimize_level (h_ctx, (unsigned) level);
}

static void h_step_link (const char *iface, int level) {
  h_need_ctx ();
  if (strcmp (iface, "interp") == 0) {
    h_iface = 0;
    MIR_link (h_ctx, MIR_set_interp_interface, h_resolve);
  } else {
    h_gen_start (level);
    if (strcmp (iface, "gen") == 0) {
      h_iface = 1;
      MIR_link (h_ctx, MIR_set_gen_interface, h_resolve);
    } else if (strcmp (iface, "lazy") == 0) {
      h_iface = 2;
      MIR_link (h_ctx, MIR_set_lazy_gen_interface, h_resolve);
    } else if (strcmp (iface, "lazybb") == 0) {
      h_iface = 3;
      MIR_link (h_ctx, MIR_set_lazy_bb_gen_interface, h_resolve);
    } else
      h_die (3, "unknown interface %s", iface);
  }
  H_Q ();
}

/* MIR_link that is expected to raise a MIR error (undefined import/export/forward): the error function
   returns here by longjmp, as an application's would, and the history goes on with the same context */
static void h_step_linkfail (const char *iface, int level) {
  int jr;
  h_need_ctx ();
  if (strcmp (iface, "interp") != 0) h_gen_start (level);
  h_err_expected = 1;
  if ((jr = setjmp (h_err_jmp)) == 0) {
    MIR_link (h_ctx,
              strcmp (iface, "interp") == 0 ? MIR_set_interp_interface
              : strcmp (iface, "gen") == 0  ? MIR_set_gen_interface
              : strcmp (iface, "lazy") == 0 ? MIR_set_lazy_gen_interface
                                            : MIR_set_lazy_bb_gen_interface,
              h_resolve);
    h_err_expected = 0;
    h_label ("linkfail: MIR_link raised no error");
  } else {
    h_label ("linkfail: MIR_link raised the expected error");
  }
  h_iface = strcmp (iface, "interp") == 0 ? 0 : strcmp (iface, "gen") == 0 ? 1 : strcmp (iface, "lazy") == 0 ? 2 : 3;
  H_Q ();
}

static long h_ext_stub (long x) { return x + 1000; }
static void h_step_extern (const char *name) {
  h_need_ctx ();
  MIR_load_external (h_ctx, name, (void *) h_ext_stub);
  H_Q ();
}

static MIR_item_t h_find_func (const char *name) {
  MIR_item_t res = NULL;
  for (MIR_module_t m = DLIST_HEAD (MIR_module_t, *MIR_get_module_list (h_ctx)); m != NULL;
       m = DLIST_NEXT (MIR_module_t, m))
    for (MIR_item_t it = DLIST_HEAD (MIR_item_t, m->items); it != NULL; it = DLIST_NEXT (MIR_item_t, it))
      if (it->item_type == MIR_func_item && strcmp (it->u.func->name, name) == 0) res = it;
  return res;
}

/* explicit MIR_gen of every function at the given level (after link) */
static void h_step_genall (int level) {
  h_need_ctx ();
  h_gen_start (level);
  for (MIR_module_t m = DLIST_HEAD (MIR_module_t, *MIR_get_module_list (h_ctx)); m != NULL;
       m = DLIST_NEXT (MIR_module_t, m))
    for (MIR_item_t it = DLIST_HEAD (MIR_item_t, m->items); it != NULL; it = DLIST_NEXT (MIR_item_t, it))
      if (it->item_type == MIR_func_item) {
        MIR_gen (h_ctx, it);
        H_Q ();
      }
}

static long h_run_result;
static int h_run_mode = -1; /* -1: as linked; 0: MIR_interp; 1: through func_item->addr */
static int h_run_out;       /* run2: the function takes (i64 arg, p out) — out is a scratch buffer */
static int64_t h_scratch[16];
static void h_step_run (const char *fname, long arg) {
  static char *h_argv[] = {"prog", NULL};
  static char *h_env[] = {NULL};
  MIR_item_t f;
  int jr;
  h_need_ctx ();
  if ((f = h_find_func (fname)) == NULL) {
    h_label ("run: no such function");
    return;
  }
  h_run_active = 1;
  if ((jr = setjmp (h_run_jmp)) == 0) {
    size_t nargs = f->u.func->nargs;
    if (h_run_mode == 0 || (h_run_mode < 0 && h_iface == 0)) {
      MIR_val_t v, a[3];
      v.i = 0;
      if (h_run_out && nargs == 2) {
        a[0].i = arg;
        a[1].a = h_scratch;
        MIR_interp_arr (h_ctx, f, &v, 2, a);
      } else if (nargs == 0)
        MIR_interp_arr (h_ctx, f, &v, 0, NULL);
      else if (nargs == 1) {
        a[0].i = arg;
        MIR_interp_arr (h_ctx, f, &v, 1, a);
      } else {
        a[0].i = 1;
        a[1].a = h_argv;
        a[2].a = h_env;
        MIR_interp_arr (h_ctx, f, &v, nargs < 3 ? nargs : 3, a);
      }
      h_run_result = (long) v.i;
    } else {
      void *addr = f->addr;
      if (h_run_out && nargs == 2)
        h_run_result = (long) ((uint64_t (*) (long, int64_t *)) addr) (arg, h_scratch);
      else if (nargs == 0)
        h_run_result = (long) ((uint64_t (*) (void)) addr) ();
      else if (nargs == 1)
        h_run_result = (long) ((uint64_t (*) (long)) addr) (arg);
      else
        h_run_result = (long) ((uint64_t (*) (int, char **, char **)) addr) (1, h_argv, h_env);
    }
  } else {
    h_run_result = jr;
    h_label (jr >= 0x300 ? "program aborted" : "program exited");
  }
  h_run_active = 0;
  fflush (stdout);
  H_Q ();
}

/* label-reference data: (a) every label insn an lref item points to must still be a live block of the
   user allocator (a freed one is a dangling reference the interpreter/generator will read);
   (b) items named p<k>_<sum> / q<k> are built so that their loaded values add up to <sum> */
static void h_step_lrefcheck (int values_p) {
  h_need_ctx ();
  for (MIR_module_t m = DLIST_HEAD (MIR_module_t, *MIR_get_module_list (h_ctx)); m != NULL;
       m = DLIST_NEXT (MIR_module_t, m))
    for (MIR_item_t it = DLIST_HEAD (MIR_item_t, m->items); it != NULL; it = DLIST_NEXT (MIR_item_t, it)) {
      MIR_lref_data_t lr;
      if (it->item_type != MIR_lref_data_item) continue;
      lr = it->u.lref_data;
      if (h_tab_find (lr->label) == NULL) h_ev ("D", 2, (uintptr_t) lr->label, 1, 0, 0);
      if (lr->label2 != NULL && h_tab_find (lr->label2) == NULL) h_ev ("D", 2, (uintptr_t) lr->label2, 2, 0, 0);
      if (values_p && lr->name != NULL && lr->name[0] == 'p' && it->addr != NULL) {
        long k = -1, sum = 0;
        char qn[32];
        if (sscanf (lr->name, "p%ld_m%ld", &k, &sum) == 2)
          sum = -sum; /* names cannot contain '-' */
        else if (sscanf (lr->name, "p%ld_%ld", &k, &sum) != 2)
          continue;
        snprintf (qn, sizeof (qn), "q%ld", k);
        for (MIR_item_t jt = DLIST_HEAD (MIR_item_t, m->items); jt != NULL; jt = DLIST_NEXT (MIR_item_t, jt))
          if (jt->item_type == MIR_lref_data_item && jt->u.lref_data->name != NULL
              && strcmp (jt->u.lref_data->name, qn) == 0 && jt->addr != NULL) {
            int64_t v1, v2;
            memcpy (&v1, it->addr, 8);
            memcpy (&v2, jt->addr, 8);
            if (v1 + v2 != sum) h_ev ("D", 4, 0, 3, (uint64_t) k, (uint64_t) (v1 + v2));
          }
      }
    }
  H_Q ();
}

/* parallel-compilation pattern: every module of the current context is moved to a fresh context with
   MIR_change_module_ctx, then the SOURCE context is finished first; the new context goes on */
static void h_step_movectx (void) {
  MIR_context_t nctx;
  MIR_module_t m, next;
  h_need_ctx ();
  if (h_gen_on || h_c2m_on) h_die (3, "movectx with generator/c2mir still attached to the old context");
  nctx = MIR_init2 (&h_alloc, &h_code_alloc);
  MIR_set_error_func (nctx, h_error);
  H_Q ();
  for (m = DLIST_HEAD (MIR_module_t, *MIR_get_module_list (h_ctx)); m != NULL; m = next) {
    next = DLIST_NEXT (MIR_module_t, m);
    MIR_change_module_ctx (h_ctx, m, nctx);
    H_Q ();
  }
  MIR_finish (h_ctx);
  H_Q ();
  h_ctx = nctx;
}

/* every name the modules of the current context carry must not lie in a block the library has freed */
static void h_name (const char *p, unsigned kind) {
  if (p != NULL && h_freed_p (p)) h_ev ("D", 2, (uintptr_t) p, 10 + kind, 0, 0);
}

static void h_vars (VARR (MIR_var_t) * vars, unsigned kind) {
  if (vars == NULL) return;
  for (size_t i = 0; i < VARR_LENGTH (MIR_var_t, vars); i++) h_name (VARR_GET (MIR_var_t, vars, i).name, kind);
}

static void h_step_namecheck (void) {
  MIR_context_t ctx = h_ctx;
  h_need_ctx ();
  for (MIR_module_t m = DLIST_HEAD (MIR_module_t, *MIR_get_module_list (ctx)); m != NULL;
       m = DLIST_NEXT (MIR_module_t, m)) {
    h_name (m->name, 0);
    for (MIR_item_t it = DLIST_HEAD (MIR_item_t, m->items); it != NULL; it = DLIST_NEXT (MIR_item_t, it)) {
      h_name (MIR_item_name (ctx, it), 1);
      if (it->item_type == MIR_proto_item) h_vars (it->u.proto->args, 2);
      if (it->item_type != MIR_func_item) continue;
      h_vars (it->u.func->vars, 3);
      h_vars (it->u.func->global_vars, 4);
      {
        func_regs_t fr = it->u.func->internal;
        for (size_t i = 1; fr != NULL && i < VARR_LENGTH (reg_desc_t, fr->reg_descs); i++) {
          h_name (VARR_GET (reg_desc_t, fr->reg_descs, i).name, 5);
          h_name (VARR_GET (reg_desc_t, fr->reg_descs, i).hard_reg_name, 6);
        }
      }
      for (MIR_insn_t in = DLIST_HEAD (MIR_insn_t, it->u.func->insns); in != NULL; in = DLIST_NEXT (MIR_insn_t, in))
        for (size_t i = 0; i < in->nops; i++)
          if (in->ops[i].mode == MIR_OP_STR) h_name (in->ops[i].u.str.s, 7);
    }
  }
  H_Q ();
}

/* tiered execution of one function: MIR_gen / MIR_set_*_interface on a single item after the link */
static void h_step_gen1 (const char *fname, int level) {
  MIR_item_t f;
  h_need_ctx ();
  if ((f = h_find_func (fname)) == NULL) {
    h_label ("gen1: no such function");
    return;
  }
  h_gen_start (level);
  MIR_gen (h_ctx, f);
  H_Q ();
}

static void h_step_setif (const char *fname, const char *iface) {
  MIR_item_t f;
  h_need_ctx ();
  if ((f = h_find_func (fname)) == NULL) {
    h_label ("setif: no such function");
    return;
  }
  if (strcmp (iface, "interp") == 0)
    MIR_set_interp_interface (h_ctx, f);
  else {
    h_gen_start (-1);
    if (strcmp (iface, "gen") == 0)
      MIR_set_gen_interface (h_ctx, f);
    else if (strcmp (iface, "lazy") == 0)
      MIR_set_lazy_gen_interface (h_ctx, f);
    else
      MIR_set_lazy_bb_gen_interface (h_ctx, f);
  }
  H_Q ();
}

static void h_step_genfinish (void) {
  h_need_ctx ();
  if (h_gen_on) {
    MIR_gen_finish (h_ctx);
    h_gen_on = 0;
    H_Q ();
  }
}

static void h_step_finish (void) {
  h_need_ctx ();
  MIR_finish (h_ctx);
  h_ctx = NULL;
  H_Q ();
}

/* end of history: dump what the checking allocator still holds (with allocation stacks) */
static void h_step_fin (const char *trace_name) {
  char name[4096];
  FILE *f;
  snprintf (name, sizeof (name), "%s.leaks", trace_name);
  f = fopen (name, "w");
  if (f != NULL) {
    for (size_t i = 0; i < H_TAB_SIZE; i++)
      if (h_tab[i].key > 1) {
        fprintf (f, "K %lu %zu", (unsigned long) h_tab[i].key, h_tab[i].size);
        for (int k = 0; k < H_NSTACK; k++) fprintf (f, " %lu", (unsigned long) h_tab[i].stack[k]);
        fprintf (f, "\n");
      }
    for (int i = 0; i < h_nreg; i++)
      fprintf (f, "KM %lu %zu\n", (unsigned long) (uintptr_t) h_reg[i].h_start, h_reg[i].h_len);
    fclose (f);
  }
  h_quar_drain ();
  h_ev ("F", 0, 0, 0, 0, 0);
}

/* ------------------------------------------------------------------ modules built through the API */
#include "mir-tests/api-loop.h"
#include "mir-tests/api-memop.h"

static uint64_t h_rng_s;
static uint64_t h_rng (void) {
  uint64_t z = (h_rng_s += 0x9E3779B97F4A7C15ull);
  z = (z ^ (z >> 30)) * 0xBF58476D1CE4E5B9ull;
  z = (z ^ (z >> 27)) * 0x94D049BB133111EBull;
  return z ^ (z >> 31);
}

/* seed bit 0: also an expr data item (MIR_output crashes on those: DESIGN #3, not C17's business, so
   histories with it never print); seed bit 1: also lref data items (binary read leaks them: #6).
   a module with every kind of item: proto, import, export, forward, data of several element types,
   string data, bss, ref data, expr data, lref data, and `main` calling a helper in a loop; sizes and
   constants derive from the seed so that allocation patterns vary */
static void h_step_api (unsigned long seed) {
  MIR_context_t ctx = h_ctx;
  char nm[64];
  MIR_type_t i64 = MIR_T_I64;
  MIR_item_t fhelper, fmain, proto, dat, bss, it;
  MIR_reg_t a, r, i, t;
  MIR_label_t l1, l2, l3;
  MIR_func_t fn;
  int nd, k;
  int64_t vals[64];
  h_need_ctx ();
  h_rng_s = seed * 7919 + 17;
  snprintf (nm, sizeof (nm), "api%lu", seed);
  MIR_new_module (ctx, nm);
  proto = MIR_new_proto (ctx, "helper_p", 1, &i64, 2, MIR_T_I64, "a", MIR_T_I64, "b");
  MIR_new_import (ctx, "labs");
  MIR_new_forward (ctx, "helper");
  nd = 1 + (int) (h_rng () % 40);
  for (k = 0; k < nd; k++) vals[k] = (int64_t) (h_rng () % 1000);
  dat = MIR_new_data (ctx, "tab", MIR_T_I64, (size_t) nd, vals);
  MIR_new_data (ctx, NULL, MIR_T_U8, 3, "abc");
  MIR_new_string_data (ctx, "str", (MIR_str_t){12, "hello world"});
  bss = MIR_new_bss (ctx, "buf", 8 * (1 + h_rng () % 300));
  MIR_new_ref_data (ctx, "tabref", dat, 8);
  MIR_new_export (ctx, "main");
  /* helper (a, b) = a * 3 + b */
  fhelper = MIR_new_func (ctx, "helper", 1, &i64, 2, MIR_T_I64, "a", MIR_T_I64, "b");
  fn = fhelper->u.func;
  a = MIR_reg (ctx, "a", fn);
  r = MIR_new_func_reg (ctx, fn, MIR_T_I64, "r");
  MIR_append_insn (ctx, fhelper,
                   MIR_new_insn (ctx, MIR_MUL, MIR_new_reg_op (ctx, r), MIR_new_reg_op (ctx, a),
                                 MIR_new_int_op (ctx, 3)));
  MIR_append_insn (ctx, fhelper,
                   MIR_new_insn (ctx, MIR_ADD, MIR_new_reg_op (ctx, r), MIR_new_reg_op (ctx, r),
                                 MIR_new_reg_op (ctx, MIR_reg (ctx, "b", fn))));
  MIR_append_insn (ctx, fhelper, MIR_new_ret_insn (ctx, 1, MIR_new_reg_op (ctx, r)));
  MIR_finish_func (ctx);
  /* an expression function for expr data */
  it = MIR_new_func (ctx, "addr_of_buf", 1, &i64, 0);
  fn = it->u.func;
  r = MIR_new_func_reg (ctx, fn, MIR_T_I64, "r");
  MIR_append_insn (ctx, it, MIR_new_insn (ctx, MIR_MOV, MIR_new_reg_op (ctx, r), MIR_new_ref_op (ctx, bss)));
  MIR_append_insn (ctx, it, MIR_new_ret_insn (ctx, 1, MIR_new_reg_op (ctx, r)));
  MIR_finish_func (ctx);
  if (seed & 1) MIR_new_expr_data (ctx, "bufaddr", it);
  /* main: s = 0; for (i = 0; i < n; i++) { t = tab[i % nd]; s = helper (s, t); buf[..] = s } ; ret s & 0xffff */
  fmain = MIR_new_func (ctx, "main", 1, &i64, 0);
  fn = fmain->u.func;
  r = MIR_new_func_reg (ctx, fn, MIR_T_I64, "s");
  i = MIR_new_func_reg (ctx, fn, MIR_T_I64, "i");
  t = MIR_new_func_reg (ctx, fn, MIR_T_I64, "t");
  a = MIR_new_func_reg (ctx, fn, MIR_T_I64, "p");
  l1 = MIR_new_label (ctx);
  l2 = MIR_new_label (ctx);
  l3 = MIR_new_label (ctx);
  MIR_append_insn (ctx, fmain, MIR_new_insn (ctx, MIR_MOV, MIR_new_reg_op (ctx, r), MIR_new_int_op (ctx, 0)));
  MIR_append_insn (ctx, fmain, MIR_new_insn (ctx, MIR_MOV, MIR_new_reg_op (ctx, i), MIR_new_int_op (ctx, 0)));
  MIR_append_insn (ctx, fmain, MIR_new_insn (ctx, MIR_MOV, MIR_new_reg_op (ctx, a), MIR_new_ref_op (ctx, dat)));
  MIR_append_insn (ctx, fmain, l1);
  MIR_append_insn (ctx, fmain,
                   MIR_new_insn (ctx, MIR_BGE, MIR_new_label_op (ctx, l2), MIR_new_reg_op (ctx, i),
                                 MIR_new_int_op (ctx, 20 + (int64_t) (h_rng () % 50))));
  MIR_append_insn (ctx, fmain,
                   MIR_new_insn (ctx, MIR_UMOD, MIR_new_reg_op (ctx, t), MIR_new_reg_op (ctx, i),
                                 MIR_new_int_op (ctx, nd)));
  MIR_append_insn (ctx, fmain,
                   MIR_new_insn (ctx, MIR_MOV, MIR_new_reg_op (ctx, t),
                                 MIR_new_mem_op (ctx, MIR_T_I64, 0, a, t, 8)));
  MIR_append_insn (ctx, fmain,
                   MIR_new_call_insn (ctx, 5, MIR_new_ref_op (ctx, proto), MIR_new_ref_op (ctx, fhelper),
                                      MIR_new_reg_op (ctx, r), MIR_new_reg_op (ctx, r), MIR_new_reg_op (ctx, t)));
  MIR_append_insn (ctx, fmain,
                   MIR_new_insn (ctx, MIR_ADD, MIR_new_reg_op (ctx, i), MIR_new_reg_op (ctx, i),
                                 MIR_new_int_op (ctx, 1)));
  MIR_append_insn (ctx, fmain, MIR_new_insn (ctx, MIR_JMP, MIR_new_label_op (ctx, l1)));
  MIR_append_insn (ctx, fmain, l2);
  MIR_append_insn (ctx, fmain,
                   MIR_new_insn (ctx, MIR_AND, MIR_new_reg_op (ctx, r), MIR_new_reg_op (ctx, r),
                                 MIR_new_int_op (ctx, 0xffff)));
  MIR_append_insn (ctx, fmain, l3);
  MIR_append_insn (ctx, fmain, MIR_new_ret_insn (ctx, 1, MIR_new_reg_op (ctx, r)));
  MIR_finish_func (ctx);
  /* label reference data (difference of two labels of main, and a single label) */
  if (seed & 2) {
    MIR_new_lref_data (ctx, "lr1", l3, l1, 0);
    MIR_new_lref_data (ctx, NULL, l2, NULL, 4);
  }
  MIR_finish_module (ctx);
  H_Q ();
  if (seed % 3 == 0) {
    MIR_module_t m;
    create_mir_func_with_loop (ctx, &m);
    H_Q ();
  }
  if (seed % 3 == 1) {
    MIR_module_t m;
    create_mir_example2 (ctx, &m);
    H_Q ();
  }
}

/* remove and re-insert instructions, copy an insn: the editing API */
static void h_step_edit (void) {
  MIR_context_t ctx = h_ctx;
  MIR_item_t f;
  MIR_insn_t first, copy;
  h_need_ctx ();
  if ((f = h_find_func ("main")) == NULL) return;
  first = DLIST_HEAD (MIR_insn_t, f->u.func->insns);
  if (first == NULL || first->code == MIR_LABEL) return;
  copy = MIR_copy_insn (ctx, first);
  MIR_insert_insn_before (ctx, f, first, copy);
  MIR_remove_insn (ctx, f, first);
  H_Q ();
}

/* ------------------------------------------------------------------ VARR / HTAB / code page correspondences */
typedef struct { char h_c[3]; } h_t3_t;
typedef struct { char h_c[24]; } h_t24_t;
typedef struct { char h_c[56]; } h_t56_t;
typedef uint16_t h_u16_t;
DEF_VARR (h_t3_t);
DEF_VARR (h_t24_t);
DEF_VARR (h_t56_t);
DEF_VARR (h_u16_t);

#define H_NV 16
static void *h_va[H_NV];
static int h_va_t[H_NV];
static void *h_other[256];
static int h_nother;

#define H_VARR_OPS(T, TI)                                                                      \
  case TI: {                                                                                  \
    VARR (T) *va = h_va[hd];                                                                  \
    T zero;                                                                                   \
    static T arr[4096];                                                                       \
    memset (&zero, 0, sizeof (zero));                                                         \
    if (strcmp (op, "create") == 0) {                                                         \
      VARR_CREATE (T, va, &h_alloc, x);                                                       \
      h_va[hd] = va;                                                                          \
      snprintf (line, sizeof (line), "vcreate %d %zu %zu %lu %lu", hd, sizeof (T), x,         \
                (unsigned long) (uintptr_t) va, (unsigned long) (uintptr_t) va->varr);        \
    } else if (strcmp (op, "destroy") == 0) {                                                 \
      VARR_DESTROY (T, va);                                                                   \
      h_va[hd] = NULL;                                                                        \
      snprintf (line, sizeof (line), "vdestroy %d", hd);                                      \
    } else {                                                                                  \
      if (strcmp (op, "expand") == 0) {                                                       \
        VARR_EXPAND (T, va, x);                                                               \
        snprintf (line, sizeof (line), "vop %d expand %zu %lu", hd, x, (unsigned long) (uintptr_t) va->varr); \
      } else if (strcmp (op, "tailor") == 0) {                                                \
        VARR_TAILOR (T, va, x);                                                               \
        snprintf (line, sizeof (line), "vop %d tailor %zu %lu", hd, x, (unsigned long) (uintptr_t) va->varr); \
      } else if (strcmp (op, "push") == 0) {                                                  \
        VARR_PUSH (T, va, zero);                                                              \
        snprintf (line, sizeof (line), "vop %d push %lu", hd, (unsigned long) (uintptr_t) va->varr); \
      } else if (strcmp (op, "pusharr") == 0) {                                               \
        VARR_PUSH_ARR (T, va, arr, x > 4096 ? 4096 : x);                                      \
        snprintf (line, sizeof (line), "vop %d pusharr %zu %lu", hd, x > 4096 ? 4096 : x,     \
                  (unsigned long) (uintptr_t) va->varr);                                      \
      } else if (strcmp (op, "pop") == 0) {                                                   \
        (void) VARR_POP (T, va);                                                              \
        snprintf (line, sizeof (line), "vop %d pop", hd);                                     \
      } else if (strcmp (op, "trunc") == 0) {                                                 \
        VARR_TRUNC (T, va, x);                                                                \
        snprintf (line, sizeof (line), "vop %d trunc %zu", hd, x);                            \
      } else                                                                                  \
        h_die (3, "bad varr op %s", op);                                                      \
      snprintf (sline, sizeof (sline), "S %d %zu %zu %lu", hd, VARR_LENGTH (T, va),           \
                VARR_CAPACITY (T, va), (unsigned long) (uintptr_t) va->varr);                 \
    }                                                                                         \
    break;                                                                                    \
  }

static void h_step_varr (const char *opsfile) {
  FILE *f = fopen (opsfile, "r");
  char op[32], line[256], sline[256];
  int hd, ti;
  size_t x;
  if (f == NULL) h_die (3, "cannot open %s", opsfile);
  while (fscanf (f, "%31s %d %d %zu", op, &hd, &ti, &x) == 4) {
    line[0] = sline[0] = 0;
    if (strcmp (op, "omalloc") == 0) {
      void *p = MIR_malloc (&h_alloc, x);
      h_other[h_nother++ % 256] = p;
      snprintf (line, sizeof (line), "omalloc %zu %lu", x, (unsigned long) (uintptr_t) p);
    } else if (strcmp (op, "ofree") == 0) {
      if (h_nother == 0 || h_other[x % 256] == NULL) continue;
      snprintf (line, sizeof (line), "ofree %lu", (unsigned long) (uintptr_t) h_other[x % 256]);
      MIR_free (&h_alloc, h_other[x % 256]);
      h_other[x % 256] = NULL;
    } else {
      if (hd < 0 || hd >= H_NV) h_die (3, "bad handle");
      if (strcmp (op, "create") == 0) h_va_t[hd] = ti;
      if (strcmp (op, "create") != 0 && h_va[hd] == NULL) continue;
      switch (h_va_t[hd]) {
        H_VARR_OPS (char, 0)
        H_VARR_OPS (h_u16_t, 1)
        H_VARR_OPS (h_t3_t, 2)
        H_VARR_OPS (uint64_t, 3)
        H_VARR_OPS (h_t24_t, 4)
        H_VARR_OPS (h_t56_t, 5)
      default: h_die (3, "bad element type %d", h_va_t[hd]);
      }
      if (sline[0] == 0 && strcmp (op, "create") == 0) {
        /* state line after create */
        snprintf (sline, sizeof (sline), "S %d 0 %zu %s", hd, x == 0 ? (size_t) 64 : x, strrchr (line, ' ') + 1);
      } else if (sline[0] == 0)
        snprintf (sline, sizeof (sline), "S %d gone", hd);
    }
    h_puts (line);
    h_putc ('\n');
    if (sline[0]) {
      h_puts (sline);
      h_putc ('\n');
    }
  }
  fclose (f);
  for (int i = 0; i < 256; i++)
    if (h_other[i] != NULL) {
      MIR_free (&h_alloc, h_other[i]);
      h_other[i] = NULL;
    }
}

/* hash table of ints under the checking allocator: ledger acceptance only */
typedef struct { int h_k, h_v; } h_kv_t;
DEF_HTAB (h_kv_t);
static htab_hash_t h_kv_hash (h_kv_t e, void *a) { (void) a; return (htab_hash_t) mir_hash_finish (mir_hash_step (mir_hash_init (7), (uint64_t) e.h_k)); }
static int h_kv_eq (h_kv_t a, h_kv_t b, void *x) { (void) x; return a.h_k == b.h_k; }

static void h_step_htab (unsigned long seed) {
  HTAB (h_kv_t) * tab;
  h_kv_t e, r;
  h_rng_s = seed;
  HTAB_CREATE (h_kv_t, tab, &h_alloc, (size_t) (h_rng () % 64), h_kv_hash, h_kv_eq, NULL);
  for (int i = 0, n = 200 + (int) (h_rng () % 3000); i < n; i++) {
    e.h_k = (int) (h_rng () % 700);
    e.h_v = i;
    switch (h_rng () % 8) {
    case 0: case 1: case 2: case 3: HTAB_DO (h_kv_t, tab, e, HTAB_INSERT, r); break;
    case 4: case 5: HTAB_DO (h_kv_t, tab, e, HTAB_DELETE, r); break;
    case 6: HTAB_DO (h_kv_t, tab, e, HTAB_FIND, r); break;
    default:
      if (h_rng () % 50 == 0) HTAB_CLEAR (h_kv_t, tab);
    }
  }
  HTAB_DESTROY (h_kv_t, tab);
}

/* code page operations driven from a file; prints the operation with the allocator's answers, the
   observed events are already in the trace, then `R result` */
static void h_dump_holders (void) {
  MIR_context_t ctx = h_ctx;
  h_puts ("ps ");
  h_putu (page_size);
  h_putc ('\n');
  for (size_t i = 0; i < VARR_LENGTH (code_holder_t, code_holders); i++) {
    code_holder_t ch = VARR_GET (code_holder_t, code_holders, i);
    h_ev ("cholder", 3, (uintptr_t) ch.start, (uintptr_t) ch.free, (uintptr_t) ch.bound, 0);
  }
}

static void h_step_code (const char *opsfile) {
  FILE *f = fopen (opsfile, "r");
  MIR_context_t ctx = h_ctx;
  char op[32];
  static uint8_t code[1 << 17];
  struct { uint8_t *h_a; size_t h_n; } pub[512];
  int npub = 0, fill_idx = -1;
  size_t x, y, z;
  uint8_t *newaddr = NULL;
  h_need_ctx ();
  if (f == NULL) h_die (3, "cannot open %s", opsfile);
  h_dump_holders ();
  while (fscanf (f, "%31s %zu %zu %zu", op, &x, &y, &z) == 4) {
    uint8_t *res;
    h_last_map = 0;
    if (strcmp (op, "publish") == 0) {
      if (x == 0) x = 1;
      if (x > sizeof (code)) x = sizeof (code);
      for (size_t i = 0; i < x; i++) code[i] = (uint8_t) (1 + h_rng () % 255);
      res = _MIR_publish_code (ctx, code, x);
      h_ev ("cpublish", 2, x, h_last_map, 0, 0);
      h_ev ("R", 1, (uintptr_t) res, 0, 0, 0);
      if (res != NULL && npub < 512 && x > 0) { pub[npub].h_a = res; pub[npub++].h_n = x; }
    } else if (strcmp (op, "newaddr") == 0) {
      newaddr = res = _MIR_get_new_code_addr (ctx, x);
      h_ev ("cnewaddr", 2, x, h_last_map, 0, 0);
      h_ev ("R", 1, (uintptr_t) res, 0, 0, 0);
    } else if (strcmp (op, "publishat") == 0) {
      /* y = 0: at the address obtained by the last newaddr; y = 1: at a wrong address */
      uint8_t *at = y == 0 && newaddr != NULL ? newaddr : (uint8_t *) 4096;
      if (x == 0) x = 1;
      if (x > sizeof (code)) x = sizeof (code);
      for (size_t i = 0; i < x; i++) code[i] = (uint8_t) (1 + h_rng () % 255);
      res = _MIR_publish_code_by_addr (ctx, at, code, x);
      h_ev ("cpublishat", 3, (uintptr_t) at, x, h_last_map, 0);
      h_ev ("R", 1, (uintptr_t) res, 0, 0, 0);
      if (res != NULL && npub < 512 && x > 0) { pub[npub].h_a = res; pub[npub++].h_n = x; }
      newaddr = NULL;
    } else if (strcmp (op, "change") == 0) {
      /* x selects a published piece, y an offset into it, z a length */
      if (npub == 0) continue;
      uint8_t *a = pub[x % npub].h_a;
      size_t n = pub[x % npub].h_n, off = y % n, len = 1 + z % (n - off); /* code_len 0 selects the pointer form */
      for (size_t i = 0; i < len; i++) code[i] = (uint8_t) (a[off + i] ^ 0x5a);
      _MIR_change_code (ctx, a + off, code, len);
      h_ev ("cchange", 2, (uintptr_t) (a + off), len, 0, 0);
      h_ev ("R", 1, 0, 0, 0, 0);
    } else if (strcmp (op, "fill") == 0) {
      /* publish exactly as many bytes as the newest holder has left: the piece ends at the holder's
         bound, i.e. at the end of the mapping */
      size_t nh = VARR_LENGTH (code_holder_t, code_holders);
      code_holder_t ch;
      size_t room;
      if (nh == 0) continue;
      ch = VARR_GET (code_holder_t, code_holders, nh - 1);
      room = (size_t) (ch.bound - (uint8_t *) (((uintptr_t) ch.free + 15) / 16 * 16));
      if (room == 0 || room > sizeof (code) || npub >= 512) continue;
      for (size_t i = 0; i < room; i++) code[i] = (uint8_t) (1 + h_rng () % 255);
      res = _MIR_publish_code (ctx, code, room);
      h_ev ("cpublish", 2, room, h_last_map, 0, 0);
      h_ev ("R", 1, (uintptr_t) res, 0, 0, 0);
      if (res != NULL) { pub[npub].h_a = res; pub[npub].h_n = room; fill_idx = npub++; }
    } else if (strcmp (op, "chgpe") == 0) {
      /* patches at page edges.  y % 3 == 0: ends exactly at a page end inside a piece; 1: starts exactly
         at a page start; 2: ends exactly at the end of the mapping (needs a preceding `fill`) */
      uint8_t *a = NULL, *at = NULL;
      size_t n = 0, len = 0;
      if (npub == 0) continue;
      if (y % 3 == 2) {
        if (fill_idx < 0) continue;
        a = pub[fill_idx].h_a;
        n = pub[fill_idx].h_n;
        len = 1 + z % (n < 64 ? n : 64);
        at = a + n - len;
      } else {
        for (int k = 0; k < npub && at == NULL; k++) {
          uintptr_t bnd;
          a = pub[(x + (size_t) k) % (size_t) npub].h_a;
          n = pub[(x + (size_t) k) % (size_t) npub].h_n;
          if (y % 3 == 0) {
            bnd = ((uintptr_t) a + h_ps) / h_ps * h_ps; /* first page end after a */
            if (bnd > (uintptr_t) a + n) continue;
            len = 1 + z % (bnd - (uintptr_t) a < 64 ? bnd - (uintptr_t) a : 64);
            at = (uint8_t *) bnd - len;
          } else {
            bnd = ((uintptr_t) a + h_ps - 1) / h_ps * h_ps; /* first page start at or after a */
            if (bnd >= (uintptr_t) a + n) continue;
            len = 1 + z % ((uintptr_t) a + n - bnd < 64 ? (uintptr_t) a + n - bnd : 64);
            at = (uint8_t *) bnd;
          }
        }
        if (at == NULL) continue;
      }
      for (size_t i = 0; i < len; i++) code[i] = (uint8_t) (at[i] ^ 0x5a);
      _MIR_change_code (ctx, at, code, len);
      h_ev ("cchange", 2, (uintptr_t) at, len, 0, 0);
      h_ev ("R", 1, 0, 0, 0, 0);
    } else if (strcmp (op, "update") == 0) {
      /* x selects a piece, y the number of relocations, z a seed for the (distinct, 8-aligned) offsets */
      if (npub == 0) continue;
      uint8_t *a = pub[x % npub].h_a;
      size_t n = pub[x % npub].h_n, nslots = n / 8, nloc = y % 12;
      MIR_code_reloc_t rel[12];
      char text[512];
      int tp;
      if (nslots == 0) continue;
      if (nloc > nslots) nloc = nslots;
      tp = snprintf (text, sizeof (text), "cupdate %lu", (unsigned long) (uintptr_t) a);
      for (size_t i = 0; i < nloc; i++) {
        size_t slot = (z * 2654435761u + i * (nslots / nloc ? nslots / nloc : 1)) % nslots, dup;
        do {
          dup = 0;
          for (size_t j = 0; j < i; j++)
            if (rel[j].offset == slot * 8) { dup = 1; slot = (slot + 1) % nslots; }
        } while (dup);
        uint64_t old;
        memcpy (&old, a + slot * 8, 8);
        rel[i].offset = slot * 8;
        rel[i].value = (void *) (uintptr_t) (old ^ 0xa5a5a5a5a5a5a5a5ull);
        tp += snprintf (text + tp, sizeof (text) - (size_t) tp, " %zu", slot * 8);
      }
      if (z % 2 == 0 || nloc != 2)
        _MIR_update_code_arr (ctx, a, nloc, rel);
      else
        _MIR_update_code (ctx, a, 2, rel[0].offset, rel[0].value, rel[1].offset, rel[1].value);
      h_puts (text);
      h_putc ('\n');
      h_ev ("R", 1, 0, 0, 0, 0);
    } else if (strcmp (op, "updpb") == 0) {
      /* relocation that starts exactly at (z % 8 == 0) or straddles (otherwise) a page boundary inside
         a published piece; base is deliberately unaligned (y % 8) */
      uint8_t *a = NULL, *base;
      size_t n = 0, nloc = 1;
      uintptr_t bnd = 0;
      MIR_code_reloc_t rel[2];
      char text[256];
      int tp;
      uint64_t old;
      for (int k = 0; k < npub; k++) {
        a = pub[(x + (size_t) k) % (size_t) npub].h_a;
        n = pub[(x + (size_t) k) % (size_t) npub].h_n;
        bnd = ((uintptr_t) a + 32 + h_ps - 1) / h_ps * h_ps;
        if (bnd + 16 <= (uintptr_t) a + n) break;
        a = NULL;
      }
      if (a == NULL) continue;
      base = a + y % 8;
      rel[0].offset = bnd - z % 8 - (uintptr_t) base;
      memcpy (&old, base + rel[0].offset, 8);
      rel[0].value = (void *) (uintptr_t) (old ^ 0xa5a5a5a5a5a5a5a5ull);
      tp = snprintf (text, sizeof (text), "cupdate %lu %zu", (unsigned long) (uintptr_t) base, rel[0].offset);
      if (z % 3 == 0 && rel[0].offset >= 16) {
        rel[1].offset = (rel[0].offset / 2) & ~(size_t) 7;
        memcpy (&old, base + rel[1].offset, 8);
        rel[1].value = (void *) (uintptr_t) (old ^ 0xa5a5a5a5a5a5a5a5ull);
        tp += snprintf (text + tp, sizeof (text) - (size_t) tp, " %zu", rel[1].offset);
        nloc = 2;
      }
      _MIR_update_code_arr (ctx, base, nloc, rel);
      h_puts (text);
      h_putc ('\n');
      h_ev ("R", 1, 0, 0, 0, 0);
    } else
      h_die (3, "bad code op %s", op);
    H_Q ();
  }
  fclose (f);
}

/* ------------------------------------------------------------------ main: interpret the steps */
int main (int argc, char **argv) {
  struct sigaction sa;
  static char altstack[1 << 16];
  stack_t ss = {.ss_sp = altstack, .ss_size = sizeof (altstack), .ss_flags = 0};
  if (argc < 3) {
    fprintf (stderr, "usage: c17_harness <trace-file> <step>...\n");
    return 3;
  }
  h_ps = (size_t) sysconf (_SC_PAGE_SIZE);
  h_tab_init ();
  h_libm = dlopen ("libm.so.6", RTLD_LAZY | RTLD_GLOBAL);
  if (freopen ("/dev/null", "w", stdout) == NULL) return 3;
  if (freopen ("/dev/null", "r", stdin) == NULL) return 3;
  sigaltstack (&ss, NULL);
  memset (&sa, 0, sizeof (sa));
  sa.sa_sigaction = h_segv;
  sa.sa_flags = SA_SIGINFO | SA_ONSTACK;
  sigaction (SIGSEGV, &sa, NULL);
  sigaction (SIGBUS, &sa, NULL);
  sigaction (SIGFPE, &sa, NULL);
  sigaction (SIGILL, &sa, NULL);
  sigaction (SIGABRT, &sa, NULL);
  h_tfd = open (argv[1], O_WRONLY | O_CREAT | O_TRUNC, 0644);
  if (h_tfd < 0) h_die (3, "cannot create %s", argv[1]);
  h_puts ("ps ");
  h_putu (h_ps);
  h_putc ('\n');
  for (int i = 2; i < argc; i++) {
    char *st = strdup (argv[i]), *a1, *a2 = NULL;
    h_cur_step = argv[i];
    h_label (argv[i]);
    if ((a1 = strchr (st, ':')) != NULL) {
      *a1++ = 0;
      if ((a2 = strrchr (a1, '@')) != NULL) *a2++ = 0;
    }
    if (strcmp (st, "init") == 0) h_step_init ();
    else if (strcmp (st, "scan") == 0) h_step_scan (a1);
    else if (strcmp (st, "read") == 0) h_step_readfile (a1);
    else if (strcmp (st, "write") == 0) h_step_write ();
    else if (strcmp (st, "readbuf") == 0) h_step_readbuf ();
    else if (strcmp (st, "roundtrip") == 0) h_step_roundtrip ();
    else if (strcmp (st, "output") == 0) h_step_output ();
    else if (strcmp (st, "c2m") == 0) h_step_c2m (a1, a2 ? a2 : "");
    else if (strcmp (st, "c2mfinish") == 0) h_step_c2mfinish ();
    else if (strcmp (st, "api") == 0) h_step_api (strtoul (a1, NULL, 10));
    else if (strcmp (st, "edit") == 0) h_step_edit ();
    else if (strcmp (st, "load") == 0) h_step_load ();
    else if (strcmp (st, "link") == 0) h_step_link (a1, a2 ? atoi (a2) : 2);
    else if (strcmp (st, "linkfail") == 0) h_step_linkfail (a1, a2 ? atoi (a2) : 0);
    else if (strcmp (st, "extern") == 0) h_step_extern (a1);
    else if (strcmp (st, "genall") == 0) h_step_genall (a1 ? atoi (a1) : 2);
    else if (strcmp (st, "run") == 0) h_step_run (a1 ? a1 : "main", a2 ? atol (a2) : 10);
    else if (strcmp (st, "run2") == 0) {
      h_run_out = 1;
      h_step_run (a1 ? a1 : "f", a2 ? atol (a2) : 0);
      h_run_out = 0;
    } else if (strcmp (st, "lrefcheck") == 0) h_step_lrefcheck (a1 != NULL && a1[0] == 'v');
    else if (strcmp (st, "irun") == 0 || strcmp (st, "grun") == 0) {
      h_run_mode = st[0] == 'i' ? 0 : 1;
      h_step_run (a1 ? a1 : "main", a2 ? atol (a2) : 10);
      h_run_mode = -1;
    } else if (strcmp (st, "gen1") == 0) h_step_gen1 (a1 ? a1 : "main", a2 ? atoi (a2) : 2);
    else if (strcmp (st, "movectx") == 0) h_step_movectx ();
    else if (strcmp (st, "namecheck") == 0) h_step_namecheck ();
    else if (strcmp (st, "setif") == 0) h_step_setif (a1 ? a1 : "main", a2 ? a2 : "lazy");
    else if (strcmp (st, "genfinish") == 0) h_step_genfinish ();
    else if (strcmp (st, "finish") == 0) h_step_finish ();
    else if (strcmp (st, "varr") == 0) h_step_varr (a1);
    else if (strcmp (st, "htab") == 0) h_step_htab (strtoul (a1, NULL, 10));
    else if (strcmp (st, "code") == 0) { h_rng_s = 12345; h_step_code (a1); }
    else if (strcmp (st, "fin") == 0) h_step_fin (argv[1]);
    else h_die (3, "unknown step %s", argv[i]);
    __libc_free (st);
  }
  h_label ("done");
  h_flush ();
  close (h_tfd);
  fprintf (stderr, "c17_harness: ok events=%lu guard=%lu waf=%lu result=%ld\n", h_nev, h_n_guard, h_n_waf, h_run_result);
  return 0;
}
