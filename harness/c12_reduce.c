/* C12 harness: drives the real encoder/decoder of mir-reduce.h (taken from VERIF_REPO's current
   tree through -I) with in-memory readers/writers.

   Line protocol on stdin (one case per line, hex = lower-case hex digits, "-" = empty string):
     E <hex>     encode the bytes           ->  "E <ok> <hex of compressed stream>"
     D <hex>     decode the stream          ->  "D <ok> <hex of bytes delivered to the writer>"
     G <spec>    encode generated data      ->  "E <ok> <hex>"   (spec: see gen_data; avoids MB-long lines)
     X <spec>    encode generated data, then decode the result -> "X <ok_enc> <ok_dec> <same:0|1> <len>"
   Every answer is flushed, so that a sanitizer abort can be attributed to the case in flight.
   Exit status 0 on EOF.  A sanitizer report / assert kills the process (caller notices). */
#include <stdio.h>
#include <stdlib.h>
#include <string.h>
#include <stdint.h>
#include "mir-alloc.h"
#include "mir-reduce.h"
#include "mir-alloc-default.c"

typedef struct { uint8_t *p; size_t len, cap; } bytes_t;

static void push (bytes_t *b, const uint8_t *s, size_t n) {
  if (b->len + n > b->cap) {
    b->cap = (b->len + n) * 2 + 64;
    b->p = realloc (b->p, b->cap);
    if (b->p == NULL) abort ();
  }
  if (n) memcpy (b->p + b->len, s, n);
  b->len += n;
}

static bytes_t in, out;
static size_t in_pos;

static size_t rd (void *start, size_t len, void *aux) {
  size_t n = in.len - in_pos < len ? in.len - in_pos : len;
  (void) aux;
  if (n) memcpy (start, in.p + in_pos, n);
  in_pos += n;
  return n;
}
static size_t wr (const void *start, size_t len, void *aux) {
  (void) aux;
  push (&out, start, len);
  return len;
}

static int hexval (int c) {
  if (c >= '0' && c <= '9') return c - '0';
  if (c >= 'a' && c <= 'f') return c - 'a' + 10;
  if (c >= 'A' && c <= 'F') return c - 'A' + 10;
  return -1;
}
static void parse_hex (const char *s, bytes_t *b) {
  b->len = 0;
  if (s[0] == '-') return;
  while (hexval (s[0]) >= 0 && hexval (s[1]) >= 0) {
    uint8_t v = hexval (s[0]) * 16 + hexval (s[1]);
    push (b, &v, 1);
    s += 2;
  }
}
static void print_hex (const bytes_t *b) {
  static const char d[] = "0123456789abcdef";
  if (b->len == 0) { fputc ('-', stdout); return; }
  for (size_t i = 0; i < b->len; i++) { fputc (d[b->p[i] >> 4], stdout); fputc (d[b->p[i] & 15], stdout); }
}

/* generated data, the same definition as `genData` in lean/Drv/C12.lean:
     rep:<n>:<hex>          the pattern repeated/truncated to n bytes
     lcg:<n>:<seed>:<mod>   x = x*6364136223846793005+1442695040888963407 (mod 2^64); byte = (x>>33) % mod
     mix:<n>:<seed>:<mod>:<run>  lcg bytes, but every other block of <run> bytes repeats the previous block
   (gen_data: '+'-separated concatenation of such segments) */
static uint64_t lcg_next (uint64_t *x) {
  *x = *x * 6364136223846793005ull + 1442695040888963407ull;
  return *x >> 33;
}
static int gen_one (const char *spec, bytes_t *b) {
  b->len = 0;
  if (strncmp (spec, "rep:", 4) == 0) {
    char *e;
    size_t n = strtoull (spec + 4, &e, 10);
    bytes_t pat = {0};
    if (*e != ':') return 0;
    parse_hex (e + 1, &pat);
    if (pat.len == 0) { free (pat.p); return n == 0; }
    for (size_t i = 0; i < n; i++) push (b, &pat.p[i % pat.len], 1);
    free (pat.p);
    return 1;
  }
  if (strncmp (spec, "lcg:", 4) == 0) {
    char *e;
    size_t n = strtoull (spec + 4, &e, 10);
    if (*e != ':') return 0;
    uint64_t x = strtoull (e + 1, &e, 10);
    if (*e != ':') return 0;
    uint64_t mod = strtoull (e + 1, &e, 10);
    if (mod == 0) return 0;
    for (size_t i = 0; i < n; i++) { uint8_t v = lcg_next (&x) % mod; push (b, &v, 1); }
    return 1;
  }
  if (strncmp (spec, "mix:", 4) == 0) {
    char *e;
    size_t n = strtoull (spec + 4, &e, 10);
    if (*e != ':') return 0;
    uint64_t x = strtoull (e + 1, &e, 10);
    if (*e != ':') return 0;
    uint64_t mod = strtoull (e + 1, &e, 10);
    if (*e != ':' || mod == 0) return 0;
    size_t run = strtoull (e + 1, &e, 10);
    if (run == 0) return 0;
    for (size_t i = 0; i < n; i++) {
      uint8_t v;
      if ((i / run) % 2 == 1) v = b->p[i - run];
      else v = lcg_next (&x) % mod;
      push (b, &v, 1);
    }
    return 1;
  }
  return 0;
}

/* a spec may be a '+'-separated concatenation of segments: "rep:262000:6162+lcg:144:5:256" */
static int gen_data (const char *spec, bytes_t *b) {
  bytes_t seg = {0};
  char *copy = strdup (spec), *s = copy, *e;
  int ok = 1;
  b->len = 0;
  while (ok && s != NULL) {
    if ((e = strchr (s, '+')) != NULL) *e++ = 0;
    ok = gen_one (s, &seg);
    if (ok) push (b, seg.p, seg.len);
    s = e;
  }
  free (seg.p); free (copy);
  return ok;
}

int main (void) {
  MIR_alloc_t alloc = &default_alloc;
  size_t cap = 0;
  char *line = NULL;
  ssize_t n;
  bytes_t orig = {0};

  while ((n = getline (&line, &cap, stdin)) > 0) {
    while (n > 0 && (line[n - 1] == '\n' || line[n - 1] == '\r')) line[--n] = 0;
    if (n < 2) continue;
    char op = line[0];
    const char *arg = line + 2;
    if (op == 'E' || op == 'G' || op == 'X') {
      if (op == 'E') parse_hex (arg, &in);
      else if (!gen_data (arg, &in)) { printf ("? bad spec\n"); fflush (stdout); continue; }
      in_pos = 0; out.len = 0;
      int ok = reduce_encode (alloc, rd, wr, NULL);
      if (op != 'X') {
        printf ("E %d ", ok != 0); print_hex (&out); printf ("\n");
      } else {
        orig.len = 0; push (&orig, in.p, in.len);
        in.len = 0; push (&in, out.p, out.len);
        in_pos = 0; out.len = 0;
        int ok2 = reduce_decode (alloc, rd, wr, NULL);
        int same = out.len == orig.len && (out.len == 0 || memcmp (out.p, orig.p, out.len) == 0);
        printf ("X %d %d %d %zu\n", ok != 0, ok2 != 0, same, orig.len);
      }
    } else if (op == 'D') {
      parse_hex (arg, &in);
      in_pos = 0; out.len = 0;
      int ok = reduce_decode (alloc, rd, wr, NULL);
      printf ("D %d ", ok != 0); print_hex (&out); printf ("\n");
    } else {
      printf ("? bad op\n");
    }
    fflush (stdout);
  }
  free (line); free (orig.p); free (in.p); free (out.p);
  return 0;
}
