/* C19 (VARR part), allocator-argument tie: the `v...` commands of harness/c19_sets.c on the REAL
   mir-varr.h, instantiated for element sizes 1, 2, 8, 16 and 24 bytes, running on a custom MIR_alloc_t
   of the documented shape (CUSTOM-ALLOCATORS.md): `realloc` TRUSTS the `old_size` it is given
   (malloc + memcpy (old_size) + free, fresh bytes poisoned with 0xA5), and keeps a size ledger.

   Output line:  <as c19_sets.c> pol:c<capacity> [pol:ev:m<size> | pol:ev:r<old>:<new>]...  [ | annotations]
   The `pol:ev:` tokens are the allocator calls made by the command; lean/Drv/C19b.lean predicts them with
   the C17 model Model/VarrAlloc.lean (theorem C17.varr_realloc_old_size: every realloc issued by a VARR
   history reports the block's current size).
   Annotations:
     ALLOCBAD realloc-old-size got=.. ledger=..   old_size passed to MIR_realloc != size of the block
     REFBAD ...                                    contents / value differ from the plain-array reference
   Protocol:  `E <elsize>` selects the element type (then `R`), `R x <initial size> y` re-creates the
   array, `v...` as in c19_sets.c.  Calls the header would assert on are never executed ("rej | skipped"). */
#include <stdio.h>
#include <stdlib.h>
#include <string.h>
#include <stdint.h>
#include <inttypes.h>
#include <stdarg.h>

#include "mir-alloc.h"
#include "mir-varr.h"

static char annot[512], evbuf[512];
static void ann (const char *fmt, ...) __attribute__ ((format (printf, 1, 2)));
static void ann (const char *fmt, ...) {
  va_list ap;
  size_t l = strlen (annot);
  va_start (ap, fmt);
  vsnprintf (annot + l, sizeof (annot) - l, fmt, ap);
  va_end (ap);
}
static void ev (const char *fmt, ...) __attribute__ ((format (printf, 1, 2)));
static void ev (const char *fmt, ...) {
  va_list ap;
  size_t l = strlen (evbuf);
  va_start (ap, fmt);
  vsnprintf (evbuf + l, sizeof (evbuf) - l, fmt, ap);
  va_end (ap);
}

/* ------------------------------------------------------------ allocator with a size ledger */
#define P_MAGIC 0x5ca1ab1e0ddba11ull
typedef struct {
  uint64_t size, magic;
} p_hdr_t;
static void *p_malloc (size_t size, void *ud) {
  p_hdr_t *h = (p_hdr_t *) malloc (sizeof (p_hdr_t) + size);
  (void) ud;
  if (h == NULL) return NULL;
  h->size = size;
  h->magic = P_MAGIC;
  memset (h + 1, 0xA5, size);
  ev (" pol:ev:m%zu", size);
  return h + 1;
}
static void *raw_malloc (size_t size) { /* not reported as an event */
  p_hdr_t *h = (p_hdr_t *) malloc (sizeof (p_hdr_t) + size);
  if (h == NULL) return NULL;
  h->size = size;
  h->magic = P_MAGIC;
  memset (h + 1, 0xA5, size);
  return h + 1;
}
static void *p_calloc (size_t n, size_t s, void *ud) {
  void *p = p_malloc (n * s, ud);
  if (p != NULL) memset (p, 0, n * s);
  return p;
}
static void p_free (void *ptr, void *ud) {
  p_hdr_t *h;
  (void) ud;
  if (ptr == NULL) return;
  h = (p_hdr_t *) ptr - 1;
  if (h->magic != P_MAGIC) {
    ann (" ALLOCBAD free-of-foreign-block");
    return;
  }
  h->magic = 0;
  free (h);
}
static void *p_realloc (void *ptr, size_t old_size, size_t new_size, void *ud) {
  void *p;
  p_hdr_t *h;
  size_t n;
  (void) ud;
  ev (" pol:ev:r%zu:%zu", old_size, new_size);
  if (ptr == NULL) return raw_malloc (new_size);
  h = (p_hdr_t *) ptr - 1;
  if (h->magic != P_MAGIC) {
    ann (" ALLOCBAD realloc-of-foreign-block");
    return raw_malloc (new_size);
  }
  if (h->size != old_size) ann (" ALLOCBAD realloc-old-size got=%zu ledger=%zu", old_size, (size_t) h->size);
  p = raw_malloc (new_size);
  if (p == NULL) return NULL;
  /* trust the caller's old_size, as a real custom allocator has to (capped at the true size only so that
     the harness itself survives to print the verdict) */
  n = old_size < new_size ? old_size : new_size;
  if (n > h->size) n = h->size;
  memcpy (p, ptr, n);
  p_free (ptr, ud);
  return p;
}
static struct MIR_alloc p_alloc = {p_malloc, p_calloc, p_realloc, p_free, NULL};

/* ------------------------------------------------------------ element types */
typedef struct {
  uint64_t a, b;
} e16_t;
typedef struct {
  uint64_t a, b, c;
} e24_t;
#define KMUL 0x9E3779B97F4A7C15ull
static uint8_t enc1 (int64_t x) { return (uint8_t) x; }
static int64_t dec1 (uint8_t v, int *bad) {
  (void) bad;
  return v;
}
static uint16_t enc2 (int64_t x) { return (uint16_t) x; }
static int64_t dec2 (uint16_t v, int *bad) {
  (void) bad;
  return v;
}
static uint64_t enc8 (int64_t x) { return (uint64_t) x; }
static int64_t dec8 (uint64_t v, int *bad) {
  (void) bad;
  return (int64_t) v;
}
static e16_t enc16 (int64_t x) {
  e16_t e = {(uint64_t) x, (uint64_t) x * KMUL + 1};
  return e;
}
static int64_t dec16 (e16_t v, int *bad) {
  if (v.b != v.a * KMUL + 1) *bad = 1;
  return (int64_t) v.a;
}
static e24_t enc24 (int64_t x) {
  e24_t e = {(uint64_t) x, (uint64_t) x * KMUL + 1, ~(uint64_t) x};
  return e;
}
static int64_t dec24 (e24_t v, int *bad) {
  if (v.b != v.a * KMUL + 1 || v.c != ~v.a) *bad = 1;
  return (int64_t) v.a;
}
typedef uint8_t el1_t;
typedef uint16_t el2_t;
typedef uint64_t el8_t;
DEF_VARR (el1_t);
DEF_VARR (el2_t);
DEF_VARR (el8_t);
DEF_VARR (e16_t);
DEF_VARR (e24_t);

typedef struct {
  size_t esz;
  void (*create) (size_t);
  void (*destroy) (void);
  void (*push) (int64_t);
  void (*push_arr) (const int64_t *, size_t);
  int64_t (*pop) (int *);
  int64_t (*last) (int *);
  int64_t (*get) (size_t, int *);
  void (*set) (size_t, int64_t);
  void (*trunc) (size_t);
  int (*expand) (size_t);
  void (*tailor) (size_t);
  size_t (*length) (void);
  size_t (*capacity) (void);
} ops_t;

#define GEN(N, T, ENC, DEC)                                                                    \
  static VARR (T) * va##N;                                                                     \
  static void create##N (size_t s) { VARR_CREATE (T, va##N, &p_alloc, s); }                    \
  static void destroy##N (void) {                                                              \
    if (va##N != NULL) VARR_DESTROY (T, va##N);                                                \
  }                                                                                            \
  static void push##N (int64_t x) { VARR_PUSH (T, va##N, ENC (x)); }                           \
  static void push_arr##N (const int64_t *xs, size_t n) {                                      \
    T tmp[64];                                                                                 \
    size_t i;                                                                                  \
    for (i = 0; i < n; i++) tmp[i] = ENC (xs[i]);                                              \
    VARR_PUSH_ARR (T, va##N, tmp, n);                                                          \
  }                                                                                            \
  static int64_t pop##N (int *bad) { return DEC (VARR_POP (T, va##N), bad); }                  \
  static int64_t last##N (int *bad) { return DEC (VARR_LAST (T, va##N), bad); }                \
  static int64_t get##N (size_t i, int *bad) { return DEC (VARR_GET (T, va##N, i), bad); }     \
  static void set##N (size_t i, int64_t x) { VARR_SET (T, va##N, i, ENC (x)); }                \
  static void trunc##N (size_t n) { VARR_TRUNC (T, va##N, n); }                                \
  static int expand##N (size_t n) { return VARR_EXPAND (T, va##N, n); }                        \
  static void tailor##N (size_t n) { VARR_TAILOR (T, va##N, n); }                              \
  static size_t length##N (void) { return VARR_LENGTH (T, va##N); }                            \
  static size_t capacity##N (void) { return VARR_CAPACITY (T, va##N); }                        \
  static const ops_t ops##N                                                                    \
    = {sizeof (T), create##N, destroy##N, push##N,   push_arr##N, pop##N,    last##N,          \
       get##N,     set##N,    trunc##N,   expand##N, tailor##N,   length##N, capacity##N};

GEN (1, el1_t, enc1, dec1)
GEN (2, el2_t, enc2, dec2)
GEN (8, el8_t, enc8, dec8)
GEN (16, e16_t, enc16, dec16)
GEN (24, e24_t, enc24, dec24)

static const ops_t *ops = &ops8;
static int created = 0;

/* ------------------------------------------------------------ reference and commands */
#define MAXV (1 << 16)
static int64_t ref_v[MAXV];
static unsigned char ref_known[MAXV];
static size_t ref_n;

static void endline (int with_cap) {
  if (with_cap) printf (" pol:c%zu", ops->capacity ());
  printf ("%s", evbuf);
  if (annot[0]) printf (" |%s", annot);
  printf ("\n");
  annot[0] = evbuf[0] = 0;
}
static void pval (size_t i, int64_t v) {
  if (ref_known[i])
    printf ("%" PRId64, v);
  else
    printf ("?");
}
static void skipped (void) {
  printf ("rej");
  ann (" skipped");
  endline (0);
}

static void varr_cmd (const char *cmd, long *arg, int na) {
  size_t i;
  int bad = 0;
  if (!strcmp (cmd, "vpush") && na == 1) {
    if (ref_n + 1 >= MAXV) goto err;
    ops->push (arg[0]);
    ref_v[ref_n] = arg[0];
    ref_known[ref_n++] = 1;
    printf ("ok");
  } else if (!strcmp (cmd, "vpusharr")) {
    int64_t tmp[64];
    if (na > 64 || ref_n + na >= MAXV) goto err;
    for (i = 0; i < (size_t) na; i++) {
      tmp[i] = arg[i];
      ref_v[ref_n] = arg[i];
      ref_known[ref_n++] = 1;
    }
    ops->push_arr (tmp, (size_t) na);
    printf ("ok");
  } else if ((!strcmp (cmd, "vpop") || !strcmp (cmd, "vlast")) && na == 0) {
    int pop = !strcmp (cmd, "vpop");
    int64_t v;
    if (ref_n == 0) {
      skipped ();
      return;
    }
    v = pop ? ops->pop (&bad) : ops->last (&bad);
    pval (ref_n - 1, v);
    if (ref_known[ref_n - 1] && (v != ref_v[ref_n - 1] || bad)) ann (" REFBAD value");
    if (pop) ref_n--;
  } else if (!strcmp (cmd, "vget") && na == 1 && arg[0] >= 0) {
    size_t ix = arg[0];
    int64_t v;
    if (ix >= ref_n) {
      skipped ();
      return;
    }
    v = ops->get (ix, &bad);
    pval (ix, v);
    if (ref_known[ix] && (v != ref_v[ix] || bad)) ann (" REFBAD value");
  } else if (!strcmp (cmd, "vset") && na == 2 && arg[0] >= 0) {
    size_t ix = arg[0];
    if (ix >= ref_n) {
      skipped ();
      return;
    }
    ops->set (ix, arg[1]);
    ref_v[ix] = arg[1];
    ref_known[ix] = 1;
    printf ("ok");
  } else if (!strcmp (cmd, "vtrunc") && na == 1 && arg[0] >= 0) {
    size_t n = arg[0];
    if (n > ref_n) {
      skipped ();
      return;
    }
    ops->trunc (n);
    ref_n = n;
    printf ("ok");
  } else if (!strcmp (cmd, "vexpand") && na == 1 && arg[0] >= 0) {
    size_t n = arg[0], oldcap = ops->capacity ();
    int r;
    if (n >= MAXV) goto err;
    r = ops->expand (n);
    printf ("pol:%d", r != 0);
    if ((r != 0) != (oldcap < n) || ops->capacity () < n) ann (" REFBAD expand");
  } else if (!strcmp (cmd, "vtailor") && na == 1 && arg[0] >= 0) {
    size_t n = arg[0];
    if (n >= MAXV || n == 0) goto err;
    ops->tailor (n);
    for (i = ref_n; i < n; i++) ref_known[i] = 0;
    ref_n = n;
    if (ops->capacity () != n) ann (" REFBAD capacity");
    printf ("ok");
  } else if (!strcmp (cmd, "vlen") && na == 0) {
    printf ("%zu", ops->length ());
  } else if (!strcmp (cmd, "vdump") && na == 0) {
    size_t n = ops->length (), k;
    printf ("n=%zu els=", n);
    if (n != ref_n) ann (" REFBAD length");
    for (k = 0; k < n; k++) {
      if (k) printf (",");
      if (k < ref_n) {
        int64_t el = 0;
        bad = 0;
        if (ref_known[k]) el = ops->get (k, &bad);
        pval (k, el);
        if (ref_known[k] && (el != ref_v[k] || bad)) ann (" REFBAD element %zu", k);
      } else
        printf ("!");
    }
    printf (" pol:%zu", ops->capacity ());
    endline (0);
    return;
  } else
    goto err;
  printf (" n=%zu", ops->length ());
  if (ops->length () != ref_n) ann (" REFBAD length");
  if (ops->capacity () < ops->length ()) ann (" REFBAD capacity");
  endline (1);
  return;
err:
  printf ("err\n");
  annot[0] = evbuf[0] = 0;
}

int main (void) {
  static char line[4096];
  if (getenv ("C19_LINEBUF") != NULL) setvbuf (stdout, NULL, _IOLBF, 0);
  while (fgets (line, sizeof (line), stdin) != NULL) {
    char *tok[80], *p;
    long arg[80];
    int nt = 0, i, bad = 0;
    for (p = strtok (line, " \t\r\n"); p != NULL && nt < 80; p = strtok (NULL, " \t\r\n")) tok[nt++] = p;
    if (nt == 0) {
      printf ("err\n");
      continue;
    }
    for (i = 1; i < nt; i++) {
      char *end;
      arg[i - 1] = strtol (tok[i], &end, 10);
      if (*end != 0) bad = 1;
    }
    if (bad) {
      printf ("err\n");
    } else if (!strcmp (tok[0], "E") && nt == 2) {
      const ops_t *o = arg[0] == 1    ? &ops1
                       : arg[0] == 2  ? &ops2
                       : arg[0] == 8  ? &ops8
                       : arg[0] == 16 ? &ops16
                       : arg[0] == 24 ? &ops24
                                      : NULL;
      if (o == NULL)
        printf ("err\n");
      else {
        if (created) ops->destroy ();
        created = 0;
        ops = o;
        printf ("ok\n");
      }
      annot[0] = evbuf[0] = 0;
    } else if (!strcmp (tok[0], "R") && nt == 4 && arg[1] >= 0 && arg[1] <= 4096) {
      if (created) ops->destroy ();
      annot[0] = evbuf[0] = 0;
      ops->create ((size_t) arg[1]);
      created = 1;
      ref_n = 0;
      printf ("ok");
      endline (1);
    } else if (tok[0][0] == 'v' && created)
      varr_cmd (tok[0], arg, nt - 1);
    else
      printf ("err\n");
  }
  if (created) ops->destroy ();
  return 0;
}
