/* C11 harness: binary MIR write/read round trip against the real code of $VERIF_REPO.
   Single translation unit with mir.c so that static functions (write_uint, read_token,
   reduce_encode/decode, item_tab_find ...) are reachable without touching the repository.

   usage:  c11_harness <casefile>      (results on stdout)

   casefile:
     case <id> [exec] [load] [rebuild] [merge] [postlink] [labelbase=N]   description lines ... [call lines]   end
     case <id> text <path> [load]              end        (module text scanned by MIR_scan_string)
     case <id> raw                             hex <rawhex>   end   (raw token stream, compressed
                                                                     with reduce_encode, then MIR_read)
     tokw uint|int|flt|dbl|ldbl|type|lab <v>   /  tokw str|name|reg <num>     (real write_* functions)
     tokr <rawhex>                             (real read_token)
     len <v>                                   (real uint_length / int_length)
   All identifiers are prefixed h_/H_: mir.c defines many object-like macros (strings, aliases, ...). */
#include "mir.c"
#include <setjmp.h>
#include <unistd.h>
#include <stdarg.h>

#ifdef curr_label_num
#undef curr_label_num
#endif

/* ------------------------------------------------------------------ errors */
static jmp_buf h_jmp;
static char h_errmsg[600];
static int h_jmp_set;

static void MIR_NO_RETURN h_error_func (MIR_error_type_t t, const char *fmt, ...) {
  va_list ap;
  int n = snprintf (h_errmsg, sizeof (h_errmsg), "E%d ", (int) t);
  va_start (ap, fmt);
  vsnprintf (h_errmsg + n, sizeof (h_errmsg) - n, fmt, ap);
  va_end (ap);
  for (char *p = h_errmsg; *p; p++)
    if (*p == '\n' || *p == '\r') *p = ' ';
  if (h_jmp_set) longjmp (h_jmp, 1);
  fprintf (stderr, "uncaught MIR error: %s\n", h_errmsg);
  exit (3);
}

static void h_die (const char *fmt, ...) {
  va_list ap;
  va_start (ap, fmt);
  fprintf (stderr, "c11_harness: ");
  vfprintf (stderr, fmt, ap);
  fprintf (stderr, "\n");
  va_end (ap);
  exit (2);
}

/* ------------------------------------------------------------------ byte buffers */
typedef struct {
  uint8_t *p;
  size_t n, cap;
} h_buf_t;

static void h_buf_push (h_buf_t *b, int c) {
  if (b->n == b->cap) {
    b->cap = b->cap ? b->cap * 2 : 4096;
    b->p = realloc (b->p, b->cap);
    if (!b->p) h_die ("oom");
  }
  b->p[b->n++] = (uint8_t) c;
}
static void h_buf_free (h_buf_t *b) {
  free (b->p);
  b->p = NULL;
  b->n = b->cap = 0;
}
static int h_buf_eq (h_buf_t *a, h_buf_t *b) {
  return a->n == b->n && (a->n == 0 || memcmp (a->p, b->p, a->n) == 0);
}
static void h_print_hex (const char *tag, const uint8_t *p, size_t n) {
  static const char hd[] = "0123456789abcdef";
  char *s = malloc (2 * n + 1);
  for (size_t i = 0; i < n; i++) {
    s[2 * i] = hd[p[i] >> 4];
    s[2 * i + 1] = hd[p[i] & 15];
  }
  s[2 * n] = 0;
  printf ("%s %s\n", tag, s);
  free (s);
}
static int h_hexval (int c) {
  if (c >= '0' && c <= '9') return c - '0';
  if (c >= 'a' && c <= 'f') return c - 'a' + 10;
  if (c >= 'A' && c <= 'F') return c - 'A' + 10;
  return -1;
}
/* decode hex digits into a fresh NUL-terminated buffer; returns length */
static size_t h_unhex (const char *s, uint8_t **out) {
  size_t l = strlen (s);
  if (l % 2) h_die ("odd hex %s", s);
  uint8_t *p = malloc (l / 2 + 1);
  for (size_t i = 0; i < l / 2; i++) {
    int a = h_hexval (s[2 * i]), b = h_hexval (s[2 * i + 1]);
    if (a < 0 || b < 0) h_die ("bad hex %s", s);
    p[i] = (uint8_t) (a * 16 + b);
  }
  p[l / 2] = 0;
  *out = p;
  return l / 2;
}
/* "x<hex>" -> C string (allocated), "-" -> NULL */
static char *h_xname (const char *s, size_t *len) {
  uint8_t *p;
  size_t l;
  if (strcmp (s, "-") == 0) {
    if (len) *len = 0;
    return NULL;
  }
  if (s[0] != 'x') h_die ("name token without x: %s", s);
  l = h_unhex (s + 1, &p);
  if (len) *len = l;
  return (char *) p;
}
static void h_put_x (FILE *f, const char *s, size_t len) {
  fputc ('x', f);
  for (size_t i = 0; i < len; i++) fprintf (f, "%02x", (unsigned char) s[i]);
}
static void h_put_name (FILE *f, const char *s) {
  if (s == NULL)
    fputc ('-', f);
  else
    h_put_x (f, s, strlen (s));
}

/* ------------------------------------------------------------------ compression layer */
typedef struct {
  const uint8_t *in;
  size_t in_n, pos;
  h_buf_t *out;
} h_rd_t;
static size_t h_rd_reader (void *start, size_t len, void *aux) {
  h_rd_t *a = aux;
  size_t n = a->in_n - a->pos < len ? a->in_n - a->pos : len;
  memcpy (start, a->in + a->pos, n);
  a->pos += n;
  return n;
}
static size_t h_rd_writer (const void *start, size_t len, void *aux) {
  h_rd_t *a = aux;
  for (size_t i = 0; i < len; i++) h_buf_push (a->out, ((const uint8_t *) start)[i]);
  return len;
}
static int h_decompress (MIR_alloc_t alloc, h_buf_t *in, h_buf_t *out) {
  h_rd_t a = {in->p, in->n, 0, out};
  return reduce_decode (alloc, h_rd_reader, h_rd_writer, &a);
}
static int h_compress (MIR_alloc_t alloc, h_buf_t *in, h_buf_t *out) {
  h_rd_t a = {in->p, in->n, 0, out};
  return reduce_encode (alloc, h_rd_reader, h_rd_writer, &a);
}

/* ------------------------------------------------------------------ write / read through both APIs */
static h_buf_t *h_cb_out;
static int h_cb_writer (MIR_context_t ctx MIR_UNUSED, uint8_t b) {
  h_buf_push (h_cb_out, b);
  return 1;
}
static h_buf_t *h_cb_in;
static size_t h_cb_pos;
static int h_cb_reader (MIR_context_t ctx MIR_UNUSED) {
  return h_cb_pos < h_cb_in->n ? h_cb_in->p[h_cb_pos++] : EOF;
}
static void h_write_file (MIR_context_t ctx, h_buf_t *out) {
  char *mp = NULL;
  size_t ms = 0;
  FILE *f = open_memstream (&mp, &ms);
  MIR_write (ctx, f);
  fclose (f);
  for (size_t i = 0; i < ms; i++) h_buf_push (out, (uint8_t) mp[i]);
  free (mp);
}
static void h_write_one (MIR_context_t ctx, MIR_module_t m, h_buf_t *out) {
  char *mp = NULL;
  size_t ms = 0;
  FILE *f = open_memstream (&mp, &ms);
  MIR_write_module (ctx, f, m);
  fclose (f);
  for (size_t i = 0; i < ms; i++) h_buf_push (out, (uint8_t) mp[i]);
  free (mp);
}
static void h_write_cb (MIR_context_t ctx, h_buf_t *out) {
  h_cb_out = out;
  MIR_write_with_func (ctx, h_cb_writer);
}
static void h_read_file (MIR_context_t ctx, h_buf_t *in) {
  FILE *f = fmemopen (in->p, in->n, "rb");
  if (f == NULL) h_die ("fmemopen");
  MIR_read (ctx, f);
  fclose (f);
}
static void h_read_cb (MIR_context_t ctx, h_buf_t *in) {
  h_cb_in = in;
  h_cb_pos = 0;
  MIR_read_with_func (ctx, h_cb_reader);
}

/* ------------------------------------------------------------------ structural dump */
static void h_dump_type (FILE *f, MIR_type_t t) { fprintf (f, "%d", (int) t - (int) MIR_T_I8); }

static void h_dump_ld (FILE *f, const void *p) {
  uint64_t lo;
  uint16_t hi;
  memcpy (&lo, p, 8);
  memcpy (&hi, (const char *) p + 8, 2);
  fprintf (f, "%" PRIu64 "_%u", lo, (unsigned) hi);
}

static void h_dump_proto (FILE *f, int vararg_p, uint32_t nres, MIR_type_t *res, size_t nargs,
                          VARR (MIR_var_t) * args) {
  fprintf (f, " %d %u", vararg_p != 0, nres);
  for (uint32_t i = 0; i < nres; i++) {
    fputc (' ', f);
    h_dump_type (f, res[i]);
  }
  fprintf (f, " %lu", (unsigned long) nargs);
  for (size_t i = 0; i < nargs; i++) {
    MIR_var_t v = VARR_GET (MIR_var_t, args, i);
    fputc (' ', f);
    h_dump_type (f, v.type);
    fputc (' ', f);
    h_put_name (f, v.name);
    fprintf (f, " %lu", MIR_all_blk_type_p (v.type) ? (unsigned long) v.size : 0ul);
  }
  fputc ('\n', f);
}

static void h_dump_op (MIR_context_t ctx, FILE *f, MIR_func_t func, MIR_op_t op) {
  uint32_t u32;
  uint64_t u64;
  switch (op.mode) {
  case MIR_OP_REG:
    fprintf (f, "r:");
    h_put_name (f, MIR_reg_name (ctx, op.u.reg, func));
    break;
  case MIR_OP_INT: fprintf (f, "i:%" PRIu64, (uint64_t) op.u.i); break;
  case MIR_OP_UINT: fprintf (f, "u:%" PRIu64, op.u.u); break;
  case MIR_OP_FLOAT:
    memcpy (&u32, &op.u.f, 4);
    fprintf (f, "f:%u", u32);
    break;
  case MIR_OP_DOUBLE:
    memcpy (&u64, &op.u.d, 8);
    fprintf (f, "d:%" PRIu64, u64);
    break;
  case MIR_OP_LDOUBLE:
    fprintf (f, "L:");
    h_dump_ld (f, &op.u.ld);
    break;
  case MIR_OP_REF:
    fprintf (f, "R:");
    h_put_name (f, MIR_item_name (ctx, op.u.ref));
    break;
  case MIR_OP_STR:
    fprintf (f, "s:");
    h_put_x (f, op.u.str.s, op.u.str.len);
    break;
  case MIR_OP_LABEL: fprintf (f, "l:%" PRIu64, op.u.label->ops[0].u.u); break;
  case MIR_OP_MEM:
    fprintf (f, "m:");
    h_dump_type (f, op.u.mem.type);
    fprintf (f, ":%" PRIu64 ":", (uint64_t) op.u.mem.disp);
    if (op.u.mem.base != 0)
      h_put_name (f, MIR_reg_name (ctx, op.u.mem.base, func));
    else
      fputc ('-', f);
    fputc (':', f);
    if (op.u.mem.index != 0) {
      h_put_name (f, MIR_reg_name (ctx, op.u.mem.index, func));
      fprintf (f, ":%u:", (unsigned) op.u.mem.scale);
    } else
      fprintf (f, "-:0:");
    h_put_name (f, MIR_alias_name (ctx, op.u.mem.alias));
    fputc (':', f);
    h_put_name (f, MIR_alias_name (ctx, op.u.mem.nonalias));
    break;
  default: fprintf (f, "?mode%d", (int) op.mode); break;
  }
}

static void h_dump_item (MIR_context_t ctx, FILE *f, MIR_item_t item) {
  switch (item->item_type) {
  case MIR_import_item:
    fprintf (f, "import ");
    h_put_name (f, item->u.import_id);
    fputc ('\n', f);
    break;
  case MIR_export_item:
    fprintf (f, "export ");
    h_put_name (f, item->u.export_id);
    fputc ('\n', f);
    break;
  case MIR_forward_item:
    fprintf (f, "forward ");
    h_put_name (f, item->u.forward_id);
    fputc ('\n', f);
    break;
  case MIR_bss_item:
    fprintf (f, "bss ");
    h_put_name (f, item->u.bss->name);
    fprintf (f, " %" PRIu64 "\n", item->u.bss->len);
    break;
  case MIR_ref_data_item:
    fprintf (f, "ref ");
    h_put_name (f, item->u.ref_data->name);
    fputc (' ', f);
    h_put_name (f, MIR_item_name (ctx, item->u.ref_data->ref_item));
    fprintf (f, " %" PRIu64 "\n", (uint64_t) item->u.ref_data->disp);
    break;
  case MIR_lref_data_item:
    fprintf (f, "lref ");
    h_put_name (f, item->u.lref_data->name);
    fprintf (f, " %" PRIu64, item->u.lref_data->label->ops[0].u.u);
    if (item->u.lref_data->label2 == NULL)
      fprintf (f, " -");
    else
      fprintf (f, " %" PRIu64, item->u.lref_data->label2->ops[0].u.u);
    fprintf (f, " %" PRIu64 "\n", (uint64_t) item->u.lref_data->disp);
    break;
  case MIR_expr_data_item:
    fprintf (f, "expr ");
    h_put_name (f, item->u.expr_data->name);
    fputc (' ', f);
    h_put_name (f, MIR_item_name (ctx, item->u.expr_data->expr_item));
    fputc ('\n', f);
    break;
  case MIR_data_item: {
    MIR_data_t d = item->u.data;
    fprintf (f, "data ");
    h_put_name (f, d->name);
    fputc (' ', f);
    h_dump_type (f, d->el_type);
    fprintf (f, " %lu", (unsigned long) d->nel);
    for (size_t i = 0; i < d->nel; i++) {
      fputc (' ', f);
      switch (d->el_type) {
      case MIR_T_I8:
      case MIR_T_U8: fprintf (f, "%u", (unsigned) ((uint8_t *) d->u.els)[i]); break;
      case MIR_T_I16:
      case MIR_T_U16: fprintf (f, "%u", (unsigned) ((uint16_t *) d->u.els)[i]); break;
      case MIR_T_I32:
      case MIR_T_U32:
      case MIR_T_F: fprintf (f, "%u", (unsigned) ((uint32_t *) d->u.els)[i]); break;
      case MIR_T_I64:
      case MIR_T_U64:
      case MIR_T_D:
      case MIR_T_P: fprintf (f, "%" PRIu64, ((uint64_t *) d->u.els)[i]); break;
      case MIR_T_LD: h_dump_ld (f, d->u.els + 16 * i); break;
      default: fprintf (f, "?"); break;
      }
    }
    fputc ('\n', f);
    break;
  }
  case MIR_proto_item: {
    MIR_proto_t p = item->u.proto;
    fprintf (f, "proto ");
    h_put_name (f, p->name);
    h_dump_proto (f, p->vararg_p, p->nres, p->res_types, VARR_LENGTH (MIR_var_t, p->args), p->args);
    break;
  }
  case MIR_func_item: {
    MIR_func_t fn = item->u.func;
    size_t nv = VARR_LENGTH (MIR_var_t, fn->vars);
    fprintf (f, "func ");
    h_put_name (f, fn->name);
    h_dump_proto (f, fn->vararg_p, fn->nres, fn->res_types, fn->nargs, fn->vars);
    for (size_t i = fn->nargs; i < nv; i++) {
      MIR_var_t v = VARR_GET (MIR_var_t, fn->vars, i);
      fprintf (f, "local ");
      h_dump_type (f, v.type);
      fputc (' ', f);
      h_put_name (f, v.name);
      fputc ('\n', f);
    }
    if (fn->global_vars != NULL)
      for (size_t i = 0; i < VARR_LENGTH (MIR_var_t, fn->global_vars); i++) {
        MIR_var_t v = VARR_GET (MIR_var_t, fn->global_vars, i);
        fprintf (f, "global ");
        h_dump_type (f, v.type);
        fputc (' ', f);
        h_put_name (f, v.name);
        fputc (' ', f);
        h_put_name (f, MIR_reg_hard_reg_name (ctx, MIR_reg (ctx, v.name, fn), fn));
        fputc ('\n', f);
      }
    for (MIR_insn_t insn = DLIST_HEAD (MIR_insn_t, fn->insns); insn != NULL;
         insn = DLIST_NEXT (MIR_insn_t, insn)) {
      if (insn->code == MIR_LABEL) {
        fprintf (f, "label %" PRIu64 "\n", insn->ops[0].u.u);
        continue;
      }
      fprintf (f, "insn %d %u", (int) insn->code, insn->nops);
      for (unsigned i = 0; i < insn->nops; i++) {
        fputc (' ', f);
        h_dump_op (ctx, f, fn, insn->ops[i]);
      }
      fputc ('\n', f);
    }
    fprintf (f, "endfunc\n");
    break;
  }
  default: fprintf (f, "?item\n");
  }
}

static void h_dump_modules (MIR_context_t ctx, FILE *f) {
  for (MIR_module_t m = DLIST_HEAD (MIR_module_t, *MIR_get_module_list (ctx)); m != NULL;
       m = DLIST_NEXT (MIR_module_t, m)) {
    fprintf (f, "module ");
    h_put_name (f, m->name);
    fputc ('\n', f);
    for (MIR_item_t it = DLIST_HEAD (MIR_item_t, m->items); it != NULL;
         it = DLIST_NEXT (MIR_item_t, it))
      h_dump_item (ctx, f, it);
    fprintf (f, "endmodule\n");
  }
}

/* temp-name counters restored by the reader (process_reserved_name) */
static void h_dump_counters (MIR_context_t ctx, FILE *f) {
  for (MIR_module_t m = DLIST_HEAD (MIR_module_t, *MIR_get_module_list (ctx)); m != NULL;
       m = DLIST_NEXT (MIR_module_t, m)) {
    fprintf (f, "ctr module ");
    h_put_name (f, m->name);
    fprintf (f, " %u\n", (unsigned) m->last_temp_item_num);
    for (MIR_item_t it = DLIST_HEAD (MIR_item_t, m->items); it != NULL;
         it = DLIST_NEXT (MIR_item_t, it))
      if (it->item_type == MIR_func_item) {
        fprintf (f, "ctr func ");
        h_put_name (f, it->u.func->name);
        fprintf (f, " %u\n", (unsigned) it->u.func->last_temp_num);
      }
  }
}

/* label identity: does every label operand point to the label insn of the same function that
   carries the same number, and are lref labels label insns of a function of the module? */
static int h_is_label_of (MIR_func_t fn, MIR_label_t lab) {
  for (MIR_insn_t insn = DLIST_HEAD (MIR_insn_t, fn->insns); insn != NULL;
       insn = DLIST_NEXT (MIR_insn_t, insn))
    if (insn == lab) return 1;
  return 0;
}
static void h_dump_labids (MIR_context_t ctx, FILE *f) {
  for (MIR_module_t m = DLIST_HEAD (MIR_module_t, *MIR_get_module_list (ctx)); m != NULL;
       m = DLIST_NEXT (MIR_module_t, m))
    for (MIR_item_t it = DLIST_HEAD (MIR_item_t, m->items); it != NULL;
         it = DLIST_NEXT (MIR_item_t, it)) {
      if (it->item_type == MIR_func_item) {
        MIR_func_t fn = it->u.func;
        unsigned long nops = 0, att = 0, dup = 0;
        for (MIR_insn_t insn = DLIST_HEAD (MIR_insn_t, fn->insns); insn != NULL;
             insn = DLIST_NEXT (MIR_insn_t, insn)) {
          if (insn->code == MIR_LABEL) {
            /* two label insns with the same number must be the same object: count offenders */
            for (MIR_insn_t j = DLIST_NEXT (MIR_insn_t, insn); j != NULL; j = DLIST_NEXT (MIR_insn_t, j))
              if (j->code == MIR_LABEL && j != insn && j->ops[0].u.u == insn->ops[0].u.u) dup++;
            continue;
          }
          for (unsigned i = 0; i < insn->nops; i++)
            if (insn->ops[i].mode == MIR_OP_LABEL) {
              nops++;
              if (h_is_label_of (fn, insn->ops[i].u.label)) att++;
            }
        }
        fprintf (f, "func ");
        h_put_name (f, fn->name);
        fprintf (f, " ops=%lu attached=%lu dup=%lu\n", nops, att, dup);
      } else if (it->item_type == MIR_lref_data_item) {
        int a1 = 0, a2 = -1;
        for (MIR_item_t it2 = DLIST_HEAD (MIR_item_t, m->items); it2 != NULL;
             it2 = DLIST_NEXT (MIR_item_t, it2))
          if (it2->item_type == MIR_func_item) {
            if (h_is_label_of (it2->u.func, it->u.lref_data->label)) a1 = 1;
            if (it->u.lref_data->label2 != NULL) {
              if (a2 < 0) a2 = 0;
              if (h_is_label_of (it2->u.func, it->u.lref_data->label2)) a2 = 1;
            }
          }
        fprintf (f, "lref attached=%d,%d\n", a1, a2);
      }
    }
}

/* MIR_output, except that expr items are printed here (MIR_output_item falls through into the
   function printer for them: C10's finding, not ours) */
static void h_output_text (MIR_context_t ctx, FILE *f) {
  for (MIR_module_t m = DLIST_HEAD (MIR_module_t, *MIR_get_module_list (ctx)); m != NULL;
       m = DLIST_NEXT (MIR_module_t, m)) {
    fprintf (f, "%s:\tmodule\n", m->name);
    for (MIR_item_t it = DLIST_HEAD (MIR_item_t, m->items); it != NULL;
         it = DLIST_NEXT (MIR_item_t, it)) {
      if (it->item_type == MIR_expr_data_item) {
        if (it->u.expr_data->name != NULL) fprintf (f, "%s:", it->u.expr_data->name);
        fprintf (f, "\texpr\t%s\n", MIR_item_name (ctx, it->u.expr_data->expr_item));
      } else
        MIR_output_item (ctx, f, it);
    }
    fprintf (f, "\tendmodule\n");
  }
}

/* ------------------------------------------------------------------ builder */
typedef struct {
  MIR_context_t ctx;
  MIR_module_t mod;
  MIR_item_t func;
  MIR_label_t *labs;
  size_t nlabs;
} h_bld_t;

static MIR_label_t h_label (h_bld_t *b, uint64_t id) {
  if (id >= (1u << 26)) h_die ("label id too large");
  if (id >= b->nlabs) {
    size_t nn = b->nlabs ? b->nlabs : 64;
    while (nn <= id) nn *= 2;
    b->labs = realloc (b->labs, nn * sizeof (MIR_label_t));
    for (size_t i = b->nlabs; i < nn; i++) b->labs[i] = NULL;
    b->nlabs = nn;
  }
  if (b->labs[id] == NULL) b->labs[id] = MIR_new_label (b->ctx);
  return b->labs[id];
}

static MIR_type_t h_type (const char *s) { return (MIR_type_t) ((int) MIR_T_I8 + atoi (s)); }

static MIR_item_t h_find_item (h_bld_t *b, const char *name) {
  MIR_item_t it = item_tab_find (b->ctx, get_ctx_str (b->ctx, name), b->mod);
  if (it == NULL) h_die ("builder: item %s not found", name);
  return it;
}

static void h_parse_ld (const char *s, void *out16) {
  uint64_t lo;
  uint16_t hi;
  char *e;
  memset (out16, 0, 16);
  lo = strtoull (s, &e, 10);
  if (*e != '_') h_die ("bad ld %s", s);
  hi = (uint16_t) strtoul (e + 1, NULL, 10);
  memcpy (out16, &lo, 8);
  memcpy ((char *) out16 + 8, &hi, 2);
}

/* split s at ':' into at most max fields (in place) */
static int h_split (char *s, char sep, char **fld, int max) {
  int n = 0;
  fld[n++] = s;
  for (; *s; s++)
    if (*s == sep && n < max) {
      *s = 0;
      fld[n++] = s + 1;
    }
  return n;
}

/* pattern written over the dead stack right before an immediate operand is created (0 = off) */
static int h_pat = 0;
static int h_modlabels = 0; /* label ids of the description are module-wide, not per function */
static void h_scribble (int pat);

static MIR_op_t h_parse_op (h_bld_t *b, char *s) {
  MIR_context_t ctx = b->ctx;
  MIR_func_t fn = b->func->u.func;
  char *fld[9];
  int n = h_split (s, ':', fld, 9);
  size_t len;
  char *nm;
  MIR_op_t op;
  if (n < 2) h_die ("bad op %s", s);
  switch (fld[0][0]) {
  case 'r':
    nm = h_xname (fld[1], NULL);
    op = MIR_new_reg_op (ctx, MIR_reg (ctx, nm, fn));
    free (nm);
    return op;
  case 'i': return MIR_new_int_op (ctx, (int64_t) strtoull (fld[1], NULL, 10));
  case 'u': return MIR_new_uint_op (ctx, strtoull (fld[1], NULL, 10));
  case 'f': {
    uint32_t u = (uint32_t) strtoul (fld[1], NULL, 10);
    float fl;
    memcpy (&fl, &u, 4);
    return MIR_new_float_op (ctx, fl);
  }
  case 'd': {
    uint64_t u = strtoull (fld[1], NULL, 10);
    double d;
    memcpy (&d, &u, 8);
    return MIR_new_double_op (ctx, d);
  }
  case 'L': {
    long double ld;
    h_parse_ld (fld[1], &ld);
    if (h_pat) h_scribble (h_pat);
    return MIR_new_ldouble_op (ctx, ld);
  }
  case 'R':
    nm = h_xname (fld[1], NULL);
    op = MIR_new_ref_op (ctx, h_find_item (b, nm));
    free (nm);
    return op;
  case 's':
    nm = h_xname (fld[1], &len);
    op = MIR_new_str_op (ctx, (MIR_str_t){len, nm});
    free (nm);
    return op;
  case 'l': return MIR_new_label_op (ctx, h_label (b, strtoull (fld[1], NULL, 10)));
  case 'm': {
    MIR_reg_t base = 0, index = 0;
    MIR_alias_t al = 0, nal = 0;
    if (n != 8) h_die ("bad mem op");
    if (strcmp (fld[3], "-") != 0) {
      nm = h_xname (fld[3], NULL);
      base = MIR_reg (ctx, nm, fn);
      free (nm);
    }
    if (strcmp (fld[4], "-") != 0) {
      nm = h_xname (fld[4], NULL);
      index = MIR_reg (ctx, nm, fn);
      free (nm);
    }
    nm = h_xname (fld[6], &len);
    if (len != 0) al = MIR_alias (ctx, nm);
    free (nm);
    nm = h_xname (fld[7], &len);
    if (len != 0) nal = MIR_alias (ctx, nm);
    free (nm);
    return MIR_new_alias_mem_op (ctx, h_type (fld[1]), (MIR_disp_t) strtoull (fld[2], NULL, 10),
                                 base, index, (MIR_scale_t) atoi (fld[5]), al, nal);
  }
  default: h_die ("bad op kind %s", fld[0]);
  }
  return op;
}

/* tokenise a line at blanks */
typedef struct {
  char **w;
  size_t n, cap;
} h_words_t;
static void h_words (char *line, h_words_t *ws) {
  ws->n = 0;
  for (char *p = strtok (line, " \t\r\n"); p != NULL; p = strtok (NULL, " \t\r\n")) {
    if (ws->n == ws->cap) {
      ws->cap = ws->cap ? ws->cap * 2 : 64;
      ws->w = realloc (ws->w, ws->cap * sizeof (char *));
    }
    ws->w[ws->n++] = p;
  }
}

/* parse `<va> <nres> <ty>* <nargs> (<ty> <name> <size>)*` starting at w[k] */
static void h_parse_proto (h_words_t *ws, size_t k, int *va, size_t *nres, MIR_type_t **res,
                           size_t *nargs, MIR_var_t **args) {
  *va = atoi (ws->w[k++]);
  *nres = strtoul (ws->w[k++], NULL, 10);
  *res = malloc ((*nres + 1) * sizeof (MIR_type_t));
  for (size_t i = 0; i < *nres; i++) (*res)[i] = h_type (ws->w[k++]);
  *nargs = strtoul (ws->w[k++], NULL, 10);
  *args = malloc ((*nargs + 1) * sizeof (MIR_var_t));
  for (size_t i = 0; i < *nargs; i++) {
    (*args)[i].type = h_type (ws->w[k++]);
    (*args)[i].name = h_xname (ws->w[k++], NULL);
    (*args)[i].size = strtoull (ws->w[k++], NULL, 10);
  }
  if (k != ws->n) h_die ("proto line: %lu words left", (unsigned long) (ws->n - k));
}

static void h_build_line (h_bld_t *b, h_words_t *ws) {
  MIR_context_t ctx = b->ctx;
  char **w = ws->w;
  size_t n = ws->n;
  char *nm, *nm2, *nm3;
  if (strcmp (w[0], "module") == 0) {
    nm = h_xname (w[1], NULL);
    b->mod = MIR_new_module (ctx, nm);
    free (nm);
  } else if (strcmp (w[0], "endmodule") == 0) {
    MIR_finish_module (ctx);
    b->mod = NULL;
  } else if (strcmp (w[0], "import") == 0) {
    nm = h_xname (w[1], NULL);
    MIR_new_import (ctx, nm);
    free (nm);
  } else if (strcmp (w[0], "export") == 0) {
    nm = h_xname (w[1], NULL);
    MIR_new_export (ctx, nm);
    free (nm);
  } else if (strcmp (w[0], "forward") == 0) {
    nm = h_xname (w[1], NULL);
    MIR_new_forward (ctx, nm);
    free (nm);
  } else if (strcmp (w[0], "bss") == 0) {
    nm = h_xname (w[1], NULL);
    MIR_new_bss (ctx, nm, strtoull (w[2], NULL, 10));
    free (nm);
  } else if (strcmp (w[0], "ref") == 0) {
    nm = h_xname (w[1], NULL);
    nm2 = h_xname (w[2], NULL);
    MIR_new_ref_data (ctx, nm, h_find_item (b, nm2), (int64_t) strtoull (w[3], NULL, 10));
    free (nm);
    free (nm2);
  } else if (strcmp (w[0], "lref") == 0) {
    nm = h_xname (w[1], NULL);
    MIR_new_lref_data (ctx, nm, h_label (b, strtoull (w[2], NULL, 10)),
                       strcmp (w[3], "-") == 0 ? NULL : h_label (b, strtoull (w[3], NULL, 10)),
                       (int64_t) strtoull (w[4], NULL, 10));
    free (nm);
  } else if (strcmp (w[0], "expr") == 0) {
    nm = h_xname (w[1], NULL);
    nm2 = h_xname (w[2], NULL);
    MIR_new_expr_data (ctx, nm, h_find_item (b, nm2));
    free (nm);
    free (nm2);
  } else if (strcmp (w[0], "data") == 0) {
    MIR_type_t t = h_type (w[2]);
    size_t nel = strtoul (w[3], NULL, 10), sz;
    uint8_t *els;
    nm = h_xname (w[1], NULL);
    if (n != 4 + nel) h_die ("data: element count");
    sz = (t >= MIR_T_I8 && t <= MIR_T_P) ? _MIR_type_size (ctx, t) : 16;
    els = calloc (nel + 1, 16);
    for (size_t i = 0; i < nel; i++) {
      if (t == MIR_T_LD)
        h_parse_ld (w[4 + i], els + 16 * i);
      else {
        uint64_t v = strtoull (w[4 + i], NULL, 10);
        memcpy (els + sz * i, &v, sz);
      }
    }
    MIR_new_data (ctx, nm, t, nel, els);
    free (els);
    free (nm);
  } else if (strcmp (w[0], "proto") == 0 || strcmp (w[0], "func") == 0) {
    int va;
    size_t nres, nargs;
    MIR_type_t *res;
    MIR_var_t *args;
    char **anames; /* new_func_arr overwrites args[i].name with the interned string */
    nm = h_xname (w[1], NULL);
    h_parse_proto (ws, 2, &va, &nres, &res, &nargs, &args);
    anames = malloc ((nargs + 1) * sizeof (char *));
    for (size_t i = 0; i < nargs; i++) anames[i] = (char *) args[i].name;
    if (strcmp (w[0], "proto") == 0) {
      if (va)
        MIR_new_vararg_proto_arr (ctx, nm, nres, res, nargs, args);
      else
        MIR_new_proto_arr (ctx, nm, nres, res, nargs, args);
    } else {
      b->func = va ? MIR_new_vararg_func_arr (ctx, nm, nres, res, nargs, args)
                   : MIR_new_func_arr (ctx, nm, nres, res, nargs, args);
      /* labels are per function in the description; an lref after the function still uses them */
      if (!h_modlabels)
        for (size_t i = 0; i < b->nlabs; i++) b->labs[i] = NULL;
    }
    for (size_t i = 0; i < nargs; i++) free (anames[i]);
    free (anames);
    free (args);
    free (res);
    free (nm);
  } else if (strcmp (w[0], "local") == 0) {
    nm = h_xname (w[2], NULL);
    MIR_new_func_reg (ctx, b->func->u.func, h_type (w[1]), nm);
    free (nm);
  } else if (strcmp (w[0], "global") == 0) {
    nm = h_xname (w[2], NULL);
    nm3 = h_xname (w[3], NULL);
    MIR_new_global_func_reg (ctx, b->func->u.func, h_type (w[1]), nm, nm3);
    free (nm);
    free (nm3);
  } else if (strcmp (w[0], "label") == 0) {
    MIR_append_insn (ctx, b->func, h_label (b, strtoull (w[1], NULL, 10)));
  } else if (strcmp (w[0], "insn") == 0) {
    int code = atoi (w[1]);
    size_t nops = strtoul (w[2], NULL, 10);
    MIR_op_t *ops = malloc ((nops + 1) * sizeof (MIR_op_t));
    if (n != 3 + nops) h_die ("insn: operand count");
    for (size_t i = 0; i < nops; i++) ops[i] = h_parse_op (b, w[3 + i]);
    MIR_append_insn (ctx, b->func, MIR_new_insn_arr (ctx, (MIR_insn_code_t) code, nops, ops));
    free (ops);
  } else if (strcmp (w[0], "endfunc") == 0) {
    MIR_finish_func (ctx);
  } else if (strcmp (w[0], "labelbase") == 0) {
    ctx->curr_label_num = strtoull (w[1], NULL, 10);
  } else
    h_die ("builder: unknown line %s", w[0]);
}

/* ------------------------------------------------------------------ execution */
static int64_t h_dummy_extern (void) { return 0; }
static void *h_resolver (const char *name MIR_UNUSED) { return (void *) h_dummy_extern; }

static MIR_item_t h_find_func (MIR_context_t ctx, const char *name) {
  for (MIR_module_t m = DLIST_HEAD (MIR_module_t, *MIR_get_module_list (ctx)); m != NULL;
       m = DLIST_NEXT (MIR_module_t, m))
    for (MIR_item_t it = DLIST_HEAD (MIR_item_t, m->items); it != NULL;
         it = DLIST_NEXT (MIR_item_t, it))
      if (it->item_type == MIR_func_item && strcmp (it->u.func->name, name) == 0) return it;
  return NULL;
}

typedef struct {
  char *fname;
  size_t nargs;
  MIR_val_t *args;
} h_call_t;

/* load (+ link and run the calls when exec_p); prints lines prefixed by tag */
static int h_already_linked = 0; /* context A was loaded and linked before it was written */

static void h_load_and_run (MIR_context_t ctx, const char *tag, int exec_p, h_call_t *calls,
                            size_t ncalls, int linked_p) {
  h_jmp_set = 1;
  if (setjmp (h_jmp)) {
    h_jmp_set = 0;
    printf ("%s loaderr %s\n", tag, h_errmsg);
    return;
  }
  if (!linked_p)
    for (MIR_module_t m = DLIST_HEAD (MIR_module_t, *MIR_get_module_list (ctx)); m != NULL;
         m = DLIST_NEXT (MIR_module_t, m))
      MIR_load_module (ctx, m);
  printf ("%s load ok\n", tag);
  if (!exec_p) {
    h_jmp_set = 0;
    return;
  }
  if (!linked_p) MIR_link (ctx, MIR_set_interp_interface, h_resolver);
  for (size_t c = 0; c < ncalls; c++) {
    MIR_item_t fi = h_find_func (ctx, calls[c].fname);
    MIR_val_t res[16];
    if (fi == NULL) {
      printf ("%s call %lu nofunc\n", tag, (unsigned long) c);
      continue;
    }
    memset (res, 0, sizeof (res));
    if (fi->u.func->nres > 16) h_die ("too many results");
    MIR_interp_arr (ctx, fi, res, calls[c].nargs, calls[c].args);
    printf ("%s call %lu", tag, (unsigned long) c);
    for (uint32_t i = 0; i < fi->u.func->nres; i++) {
      MIR_type_t t = fi->u.func->res_types[i];
      if (t == MIR_T_F) {
        uint32_t u;
        memcpy (&u, &res[i].f, 4);
        printf (" f:%u", u);
      } else if (t == MIR_T_D) {
        printf (" d:%" PRIu64, res[i].u);
      } else if (t == MIR_T_LD) {
        printf (" L:");
        h_dump_ld (stdout, &res[i].ld);
      } else
        printf (" i:%" PRIu64, res[i].u);
    }
    printf ("\n");
  }
  h_jmp_set = 0;
}

/* ------------------------------------------------------------------ one case */
static char *h_slurp (const char *path) {
  FILE *f = fopen (path, "rb");
  long n;
  char *s;
  if (!f) return NULL;
  fseek (f, 0, SEEK_END);
  n = ftell (f);
  fseek (f, 0, SEEK_SET);
  s = malloc (n + 1);
  if (fread (s, 1, n, f) != (size_t) n) h_die ("read %s", path);
  s[n] = 0;
  fclose (f);
  return s;
}

static void h_print_block (const char *tag, const char *text, size_t len) {
  /* every line of text prefixed by tag */
  size_t i = 0;
  while (i < len) {
    size_t j = i;
    while (j < len && text[j] != '\n') j++;
    printf ("%s ", tag);
    fwrite (text + i, 1, j - i, stdout);
    fputc ('\n', stdout);
    i = j + 1;
  }
}

static void h_dump_to (MIR_context_t ctx, char **p, size_t *n, void (*fn) (MIR_context_t, FILE *)) {
  FILE *f = open_memstream (p, n);
  fn (ctx, f);
  fclose (f);
}

/* after ctx A holds the modules: write (3 ways), decode, read back (2 ways), compare, run */
static void h_roundtrip (MIR_context_t a, int exec_p, int load_p, h_call_t *calls, size_t ncalls) {
  h_buf_t w1 = {0}, w2 = {0}, w3 = {0}, raw = {0};
  char *d1 = NULL, *t1 = NULL, *d2 = NULL, *t2 = NULL, *d3 = NULL, *c2 = NULL;
  size_t d1n = 0, t1n = 0, d2n = 0, t2n = 0, d3n = 0, c2n = 0;
  MIR_context_t b = NULL, c = NULL;
  int read_ok = 0;

  h_dump_to (a, &d1, &d1n, h_dump_modules);
  h_print_block ("D1", d1, d1n);
  {
    char *l1 = NULL;
    size_t l1n = 0;
    h_dump_to (a, &l1, &l1n, h_dump_labids);
    h_print_block ("L1", l1, l1n);
    free (l1);
  }
  h_dump_to (a, &t1, &t1n, h_output_text);

  h_jmp_set = 1;
  if (setjmp (h_jmp)) {
    h_jmp_set = 0;
    printf ("writeerr %s\n", h_errmsg);
    goto fin;
  }
  /* history of writes in one context: the first module alone, everything (three times), then
     every module alone in reverse order; the image of a module must not depend on what was
     written before it */
#define H_MAXMOD 6
  {
    MIR_module_t mods[H_MAXMOD];
    h_buf_t pre0 = {0}, single[H_MAXMOD];
    size_t nm = 0, total = 0;
    for (MIR_module_t m = DLIST_HEAD (MIR_module_t, *MIR_get_module_list (a)); m != NULL;
         m = DLIST_NEXT (MIR_module_t, m)) {
      if (total < H_MAXMOD) mods[total] = m;
      total++;
    }
    nm = total;
    if (nm >= 2 && nm <= H_MAXMOD) h_write_one (a, mods[0], &pre0);
    h_write_file (a, &w1);
    h_write_file (a, &w2);
    h_write_cb (a, &w3);
    if (nm >= 2 && nm <= H_MAXMOD) {
      int same = 1;
      for (size_t i = nm; i-- > 0;) {
        memset (&single[i], 0, sizeof (h_buf_t));
        h_write_one (a, mods[i], &single[i]);
      }
      if (!h_buf_eq (&pre0, &single[0])) same = 0;
      printf ("wmod %s\n", same ? "same" : "diff module 0 written first vs. written after the others");
      for (size_t i = 0; i < nm; i++) {
        h_buf_t r = {0};
        char tag[32];
        h_decompress (MIR_get_alloc (a), &single[i], &r);
        if (r.n <= 400000) {
          snprintf (tag, sizeof (tag), "MRAW%lu", (unsigned long) i);
          h_print_hex (tag, r.p, r.n);
        }
        h_buf_free (&r);
        h_buf_free (&single[i]);
      }
      h_buf_free (&pre0);
    }
  }
  h_jmp_set = 0;
  printf ("wlen %lu\n", (unsigned long) w1.n);
  printf ("w2 %s\n", h_buf_eq (&w1, &w2) ? "same" : "diff");
  printf ("wcb %s\n", h_buf_eq (&w1, &w3) ? "same" : "diff");
  if (!h_buf_eq (&w1, &w2)) {
    h_print_hex ("W1", w1.p, w1.n);
    h_print_hex ("W2", w2.p, w2.n);
  }
  if (!h_decompress (MIR_get_alloc (a), &w1, &raw)) printf ("decodeerr\n");
  h_print_hex ("RAW", raw.p, raw.n);

  /* read back through the FILE API into a fresh context */
  b = MIR_init ();
  MIR_set_error_func (b, h_error_func);
  h_jmp_set = 1;
  if (setjmp (h_jmp)) {
    h_jmp_set = 0;
    printf ("readerr %s\n", h_errmsg);
  } else {
    h_read_file (b, &w1);
    h_jmp_set = 0;
    read_ok = 1;
  }
  if (read_ok) {
    h_dump_to (b, &d2, &d2n, h_dump_modules);
    h_print_block ("D2", d2, d2n);
    h_dump_to (b, &t2, &t2n, h_output_text);
    if (t1n == t2n && memcmp (t1, t2, t1n) == 0)
      printf ("text same %lu\n", (unsigned long) t1n);
    else {
      printf ("text diff\n");
      h_print_block ("T1", t1, t1n);
      h_print_block ("T2", t2, t2n);
    }
    {
      /* write after read: the re-read context must produce the same image */
      h_buf_t wb = {0};
      h_jmp_set = 1;
      if (setjmp (h_jmp)) {
        h_jmp_set = 0;
        printf ("wafter err %s\n", h_errmsg);
      } else {
        h_write_file (b, &wb);
        h_jmp_set = 0;
        printf ("wafter %s\n", h_buf_eq (&w1, &wb) ? "same" : "diff");
      }
      h_buf_free (&wb);
    }
    h_dump_to (b, &c2, &c2n, h_dump_counters);
    h_print_block ("C2", c2, c2n);
    {
      char *l2 = NULL;
      size_t l2n = 0;
      h_dump_to (b, &l2, &l2n, h_dump_labids);
      h_print_block ("L2", l2, l2n);
      free (l2);
    }
    /* and through the callback API into a third context */
    c = MIR_init ();
    MIR_set_error_func (c, h_error_func);
    h_jmp_set = 1;
    if (setjmp (h_jmp)) {
      h_jmp_set = 0;
      printf ("readcb err %s\n", h_errmsg);
    } else {
      h_read_cb (c, &w3);
      h_jmp_set = 0;
      h_dump_to (c, &d3, &d3n, h_dump_modules);
      printf ("readcb %s\n", d3n == d2n && memcmp (d2, d3, d2n) == 0 ? "same" : "diff");
    }
  }
  if (load_p || exec_p) {
    h_load_and_run (a, "X1", exec_p, calls, ncalls, h_already_linked);
    if (read_ok) h_load_and_run (b, "X2", exec_p, calls, ncalls, 0);
  }
fin:
  h_buf_free (&w1);
  h_buf_free (&w2);
  h_buf_free (&w3);
  h_buf_free (&raw);
  free (d1);
  free (t1);
  free (d2);
  free (t2);
  free (d3);
  free (c2);
  /* contexts are abandoned after an error (their state is undefined); otherwise finished */
}

static char *h_line = NULL;
static size_t h_line_cap = 0;

/* overwrite the dead part of the stack with a pattern (shows whether output depends on it) */
static void __attribute__ ((noinline)) h_scribble (int pat) {
  volatile char junk[65536];
  for (size_t i = 0; i < sizeof (junk); i++) junk[i] = (char) pat;
  __asm__ volatile ("" ::: "memory");
}

/* build a context from buffered description lines; NULL (and a builderr line) on a MIR error */
static MIR_context_t h_build_ctx (char **lines, size_t nlines, const char *text_path,
                                  uint64_t labelbase, int report) {
  MIR_context_t volatile a = MIR_init ();
  h_bld_t bld = {0};
  h_words_t ws = {0};
  MIR_set_error_func (a, h_error_func);
  a->curr_label_num = labelbase;
  bld.ctx = a;
  h_jmp_set = 1;
  if (setjmp (h_jmp)) {
    h_jmp_set = 0;
    if (report) printf ("builderr %s\n", h_errmsg);
    return NULL;
  }
  for (size_t i = 0; i < nlines; i++) {
    char *copy = strdup (lines[i]);
    h_words (copy, &ws);
    if (ws.n != 0 && strcmp (ws.w[0], "call") != 0 && strcmp (ws.w[0], "hex") != 0)
      h_build_line (&bld, &ws);
    free (copy);
  }
  if (text_path != NULL) {
    char *src = h_slurp (text_path);
    if (src == NULL) h_die ("cannot read %s", text_path);
    MIR_scan_string (a, src);
    free (src);
  }
  h_jmp_set = 0;
  free (bld.labs);
  free (ws.w);
  return a;
}

/* history "separate contexts": every module of the description is built in a context of its own
   (labels numbered from labelbase+1 in each), written with MIR_write, and all the binaries are read
   into one fresh context, which is returned */
static MIR_context_t h_build_merged (char **lines, size_t nlines, uint64_t labelbase) {
  MIR_context_t volatile c = MIR_init ();
  size_t volatile i = 0;
  MIR_set_error_func (c, h_error_func);
  while (i < nlines) {
    size_t j = i, k;
    h_buf_t w = {0};
    MIR_context_t ai;
    if (strncmp (lines[i], "module ", 7) != 0) {
      i++;
      continue;
    }
    for (k = i; k < nlines && strncmp (lines[k], "endmodule", 9) != 0; k++)
      ;
    if (k == nlines) h_die ("merge: module without endmodule");
    ai = h_build_ctx (lines + j, k - j + 1, NULL, labelbase, 1);
    if (ai == NULL) return NULL;
    h_jmp_set = 1;
    if (setjmp (h_jmp)) {
      h_jmp_set = 0;
      printf ("builderr merge: %s\n", h_errmsg);
      return NULL;
    }
    h_write_file (ai, &w);
    h_read_file (c, &w);
    h_jmp_set = 0;
    h_buf_free (&w);
    MIR_finish (ai);
    i = k + 1;
  }
  return c;
}

static void h_run_case (FILE *in, h_words_t *hdr) {
  const char *id = hdr->w[1];
  int exec_p = 0, load_p = 0, raw_p = 0, rebuild_p = 0, merge_p = 0, postlink_p = 0;
  h_modlabels = 0;
  const char *text_path = NULL;
  uint64_t labelbase = 0;
  h_call_t *calls = NULL;
  size_t ncalls = 0;
  MIR_context_t a;
  h_words_t ws = {0};
  h_buf_t rawin = {0};
  char *idc = strdup (id);
  char **lines = NULL;
  size_t nlines = 0, caplines = 0;

  for (size_t i = 2; i < hdr->n; i++) {
    if (strcmp (hdr->w[i], "exec") == 0)
      exec_p = 1;
    else if (strcmp (hdr->w[i], "load") == 0)
      load_p = 1;
    else if (strcmp (hdr->w[i], "raw") == 0)
      raw_p = 1;
    else if (strcmp (hdr->w[i], "rebuild") == 0)
      rebuild_p = 1;
    else if (strcmp (hdr->w[i], "modlabels") == 0)
      h_modlabels = 1;
    else if (strcmp (hdr->w[i], "merge") == 0)
      merge_p = 1;
    else if (strcmp (hdr->w[i], "postlink") == 0)
      postlink_p = 1;
    else if (strcmp (hdr->w[i], "text") == 0 && i + 1 < hdr->n)
      text_path = strdup (hdr->w[++i]);
    else if (strncmp (hdr->w[i], "labelbase=", 10) == 0)
      labelbase = strtoull (hdr->w[i] + 10, NULL, 10);
    else
      h_die ("case flag %s", hdr->w[i]);
  }
  printf ("begin %s\n", idc);
  /* buffer the lines of the case */
  while (getline (&h_line, &h_line_cap, in) > 0) {
    if (strncmp (h_line, "end", 3) == 0 && (h_line[3] == '\n' || h_line[3] == 0 || h_line[3] == '\r')) break;
    if (nlines == caplines) {
      caplines = caplines ? 2 * caplines : 256;
      lines = realloc (lines, caplines * sizeof (char *));
    }
    lines[nlines++] = strdup (h_line);
  }
  for (size_t i = 0; i < nlines; i++) {
    if (strncmp (lines[i], "call ", 5) == 0) {
      char *copy = strdup (lines[i]);
      h_call_t cl;
      h_words (copy, &ws);
      cl.fname = h_xname (ws.w[1], NULL);
      cl.nargs = strtoul (ws.w[2], NULL, 10);
      cl.args = calloc (cl.nargs + 1, sizeof (MIR_val_t));
      for (size_t k = 0; k < cl.nargs; k++) {
        char *sa = ws.w[3 + k];
        uint64_t v = strtoull (sa + 2, NULL, 10);
        if (sa[0] == 'f') {
          uint32_t u = (uint32_t) v;
          memcpy (&cl.args[k].f, &u, 4);
        } else
          cl.args[k].u = v;
      }
      calls = realloc (calls, (ncalls + 1) * sizeof (h_call_t));
      calls[ncalls++] = cl;
      free (copy);
    } else if (strncmp (lines[i], "hex ", 4) == 0) {
      char *copy = strdup (lines[i]);
      uint8_t *p;
      size_t l;
      h_words (copy, &ws);
      l = h_unhex (ws.w[1], &p);
      for (size_t k = 0; k < l; k++) h_buf_push (&rawin, p[k]);
      free (p);
      free (copy);
    }
  }
  h_pat = rebuild_p ? 0x11 : 0;
  a = merge_p ? h_build_merged (lines, nlines, labelbase)
              : h_build_ctx (lines, nlines, text_path, labelbase, 1);
  h_already_linked = 0;
  if (a != NULL && postlink_p) {
    /* history "written after link": MIR_link simplifies the functions and renumbers labels */
    MIR_context_t volatile av = a;
    h_jmp_set = 1;
    if (setjmp (h_jmp)) {
      h_jmp_set = 0;
      printf ("builderr link: %s\n", h_errmsg);
      a = NULL;
    } else {
      for (MIR_module_t m = DLIST_HEAD (MIR_module_t, *MIR_get_module_list (av)); m != NULL;
           m = DLIST_NEXT (MIR_module_t, m))
        MIR_load_module (av, m);
      MIR_link (av, MIR_set_interp_interface, h_resolver);
      h_jmp_set = 0;
      h_already_linked = 1;
    }
  }
  if (a != NULL && raw_p) {
    /* reading direction only: raw bytes -> reduce_encode -> MIR_read */
    h_buf_t comp = {0};
    char *d = NULL;
    size_t dn = 0;
    h_compress (MIR_get_alloc (a), &rawin, &comp);
    h_jmp_set = 1;
    if (setjmp (h_jmp)) {
      h_jmp_set = 0;
      printf ("readerr %s\n", h_errmsg);
    } else {
      h_read_file (a, &comp);
      h_jmp_set = 0;
      h_dump_to (a, &d, &dn, h_dump_modules);
      h_print_block ("D2", d, dn);
      free (d);
    }
    h_buf_free (&comp);
  } else if (a != NULL) {
    if (rebuild_p) {
      /* the same description built a second time over a differently scribbled stack must give
         the same bytes */
      h_buf_t wa = {0}, wb = {0};
      MIR_context_t a2;
      h_jmp_set = 1;
      if (setjmp (h_jmp)) {
        h_jmp_set = 0;
        printf ("rebuild err %s\n", h_errmsg);
      } else {
        h_scribble (0x11);
        h_write_file (a, &wa);
        h_jmp_set = 0;
        h_pat = 0xEE;
        a2 = h_build_ctx (lines, nlines, text_path, labelbase, 0);
        h_pat = 0;
        if (a2 != NULL) {
          h_jmp_set = 1;
          h_scribble (0xEE);
          h_write_file (a2, &wb);
          h_jmp_set = 0;
          if (h_buf_eq (&wa, &wb))
            printf ("rebuild same\n");
          else {
            h_buf_t ra = {0}, rb = {0};
            size_t k = 0;
            h_decompress (MIR_get_alloc (a), &wa, &ra);
            h_decompress (MIR_get_alloc (a), &wb, &rb);
            while (k < ra.n && k < rb.n && ra.p[k] == rb.p[k]) k++;
            printf ("rebuild diff raw-offset=%lu of %lu/%lu\n", (unsigned long) k, (unsigned long) ra.n,
                    (unsigned long) rb.n);
            h_buf_free (&ra);
            h_buf_free (&rb);
          }
        } else
          printf ("rebuild err second build failed\n");
      }
      h_buf_free (&wa);
      h_buf_free (&wb);
    }
    h_roundtrip (a, exec_p, load_p, calls, ncalls);
  }
  printf ("done %s\n", idc);
  fflush (stdout);
  free (idc);
  free (ws.w);
  for (size_t i = 0; i < nlines; i++) free (lines[i]);
  free (lines);
  h_buf_free (&rawin);
}

/* ------------------------------------------------------------------ token-level unit ties */
static h_buf_t h_tok_out;
static int h_tok_writer (MIR_context_t ctx MIR_UNUSED, uint8_t b) {
  h_buf_push (&h_tok_out, b);
  return 1;
}

/* run one real write_* function inside an encoder session and print the decoded raw bytes */
static void h_tokw (MIR_context_t ctx, h_words_t *ws) {
  h_buf_t raw = {0};
  const char *k = ws->w[1];
  uint64_t v = strtoull (ws->w[2], NULL, 10);
  h_tok_out.n = 0;
  io_writer = h_tok_writer;
  io_reduce_data = reduce_encode_start (ctx->alloc, reduce_writer, ctx);
  output_int_len = output_float_len = output_labs_len = output_regs_len = 0;
  if (strcmp (k, "uint") == 0)
    write_uint (ctx, reduce_writer, v);
  else if (strcmp (k, "int") == 0)
    write_int (ctx, reduce_writer, (int64_t) v);
  else if (strcmp (k, "flt") == 0) {
    uint32_t u = (uint32_t) v;
    float f;
    memcpy (&f, &u, 4);
    write_float (ctx, reduce_writer, f);
  } else if (strcmp (k, "dbl") == 0) {
    double d;
    memcpy (&d, &v, 8);
    write_double (ctx, reduce_writer, d);
  } else if (strcmp (k, "ldbl") == 0) {
    long double ld;
    h_parse_ld (ws->w[2], &ld);
    write_ldouble (ctx, reduce_writer, ld);
  } else if (strcmp (k, "type") == 0)
    write_type (ctx, reduce_writer, (MIR_type_t) ((int) MIR_T_I8 + (int) v));
  else if (strcmp (k, "lab") == 0) {
    MIR_insn_t lab = create_label (ctx, (int64_t) v);
    write_lab (ctx, reduce_writer, lab);
  } else if (strcmp (k, "str") == 0 || strcmp (k, "name") == 0 || strcmp (k, "reg") == 0) {
    /* a string table whose only entry carries the requested number */
    string_t s, el;
    static const char nm[] = "q";
    string_init (ctx->alloc, &output_strings, &output_string_tab);
    s.num = v + 1;
    s.str.s = nm;
    s.str.len = 2;
    HTAB_DO (string_t, output_string_tab, s, HTAB_INSERT, el);
    if (strcmp (k, "str") == 0)
      write_str (ctx, reduce_writer, (MIR_str_t){2, nm});
    else if (strcmp (k, "name") == 0)
      write_name (ctx, reduce_writer, nm);
    else
      write_reg (ctx, reduce_writer, nm);
    VARR_DESTROY (string_t, output_strings);
    HTAB_DESTROY (string_t, output_string_tab);
  } else
    h_die ("tokw kind %s", k);
  reduce_encode_finish (ctx->alloc, io_reduce_data);
  h_decompress (ctx->alloc, &h_tok_out, &raw);
  h_print_hex ("bytes", raw.p, raw.n);
  h_buf_free (&raw);
}

static void h_tokr (MIR_context_t ctx, h_words_t *ws) {
  uint8_t *p;
  size_t l = h_unhex (ws->w[1], &p);
  h_buf_t rawb = {p, l, l}, comp = {0};
  token_attr_t attr;
  bin_tag_t tag;
  int left = 0;
  h_compress (ctx->alloc, &rawb, &comp);
  h_cb_in = &comp;
  h_cb_pos = 0;
  io_reader = h_cb_reader;
  io_reduce_data = reduce_decode_start (ctx->alloc, reduce_reader, ctx);
  memset (&attr, 0, sizeof (attr));
  h_jmp_set = 1;
  if (setjmp (h_jmp)) {
    h_jmp_set = 0;
    printf ("error %s\n", h_errmsg);
  } else {
    tag = read_token (ctx, &attr);
    h_jmp_set = 0;
    while (reduce_decode_get (io_reduce_data) >= 0) left++;
    if (tag == TAG_U0 || (TAG_U1 <= tag && tag <= TAG_U8))
      printf ("uint %" PRIu64, attr.u);
    else if (TAG_I1 <= tag && tag <= TAG_I8)
      printf ("int %" PRIu64, attr.u);
    else if (tag == TAG_F) {
      uint32_t u;
      memcpy (&u, &attr.f, 4);
      printf ("flt %u", u);
    } else if (tag == TAG_D)
      printf ("dbl %" PRIu64, attr.u);
    else if (tag == TAG_LD) {
      printf ("ldbl ");
      h_dump_ld (stdout, &attr.ld);
    } else if (TAG_REG1 <= tag && tag <= TAG_REG4)
      printf ("reg %" PRIu64, attr.u);
    else if (TAG_NAME1 <= tag && tag <= TAG_NAME4)
      printf ("name %" PRIu64 " %d", attr.u, (int) (tag - TAG_NAME1 + 1));
    else if (TAG_STR1 <= tag && tag <= TAG_STR4)
      printf ("str %" PRIu64, attr.u);
    else if (TAG_LAB1 <= tag && tag <= TAG_LAB4)
      printf ("lab %" PRIu64, attr.u);
    else if (tag == TAG_EOI)
      printf ("eoi");
    else if (tag == TAG_EOFILE)
      printf ("eof");
    else if (TAG_TI8 <= tag && tag <= TAG_TRBLOCK)
      printf ("type %d", (int) attr.t - (int) MIR_T_I8);
    else
      printf ("mem %d", (int) tag);
    printf (" rest %d\n", left);
  }
  MIR_free (ctx->alloc, io_reduce_data);
  free (p);
  h_buf_free (&comp);
}

int main (int argc, char **argv) {
  FILE *in;
  h_words_t ws = {0};
  MIR_context_t uctx = NULL;
  if (argc < 2) h_die ("usage: c11_harness <casefile>");
  alarm (1500); /* safety net: never outlive the check that started us */
  in = strcmp (argv[1], "-") == 0 ? stdin : fopen (argv[1], "r");
  if (in == NULL) h_die ("cannot open %s", argv[1]);
  while (getline (&h_line, &h_line_cap, in) > 0) {
    h_words (h_line, &ws);
    if (ws.n == 0) continue;
    if (strcmp (ws.w[0], "case") == 0) {
      /* copy the header words: h_line is reused while the case is read */
      h_words_t hdr = {0};
      hdr.w = malloc (ws.n * sizeof (char *));
      hdr.n = ws.n;
      for (size_t i = 0; i < ws.n; i++) hdr.w[i] = strdup (ws.w[i]);
      h_run_case (in, &hdr);
      for (size_t i = 0; i < hdr.n; i++) free (hdr.w[i]);
      free (hdr.w);
    } else if (strcmp (ws.w[0], "tokw") == 0 || strcmp (ws.w[0], "tokr") == 0
               || strcmp (ws.w[0], "len") == 0) {
      if (uctx == NULL) {
        uctx = MIR_init ();
        MIR_set_error_func (uctx, h_error_func);
      }
      if (strcmp (ws.w[0], "tokw") == 0)
        h_tokw (uctx, &ws);
      else if (strcmp (ws.w[0], "tokr") == 0)
        h_tokr (uctx, &ws);
      else {
        uint64_t v = strtoull (ws.w[1], NULL, 10);
        printf ("%lu %lu\n", (unsigned long) uint_length (v), (unsigned long) int_length ((int64_t) v));
      }
      fflush (stdout);
    } else
      h_die ("unknown top-level line %s", ws.w[0]);
  }
  return 0;
}
