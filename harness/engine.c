/* Multi-engine execution harness (C01, C02, C03, C04, C16, C20 correspondence stages).

   usage: engine <engine,engine,...> <file.mir> [-q] < plan > results

   engines: interp   MIR_interp_arr on a module linked with MIR_set_interp_interface
            interpc  call through item->addr of a module linked with MIR_set_interp_interface
            gen0..gen3   MIR_link (MIR_set_gen_interface) at that optimisation level, call item->addr
            lazy0..lazy3 MIR_set_lazy_gen_interface; bb0..bb3 MIR_set_lazy_bb_gen_interface
   Each engine owns a private MIR context into which the same text is scanned, loaded and linked.

   plan (stdin), one command per line:
     ivals <hex>...            integer grid        dvals <hex>...  double grid (bit patterns)
     fvals <hex>...            float grid (bit patterns)
     grid <func> <sig> <dom>   run func over the grid(s) its signature needs
     call <func> <sig> <hex>.. one call with explicit argument bit patterns
     prog <func> <hex a0..a3> <hex x0 x1>   C01-style entry: i64 f (p buf, i64 a0..a3, d x0, d x1)
   output: one line per evaluation: `R <func> <args..> | <result per engine..>` (hex bit patterns,
   `!SIGn` = engine crashed with signal n, `!T` = timeout); for `prog` also buffer bytes and call log.

   Built against /repo's current sources by lib/vf.py (`#include "mir.c"` etc.). */
#define _GNU_SOURCE
#include <stdio.h>
#include <stdlib.h>
#include <string.h>
#include <stdint.h>
#include <signal.h>
#include <setjmp.h>
#include <unistd.h>
#include "mir.h"
#include "mir-gen.h"

#define MAXENG 16
#define BUFSZ 512
#define MAXLOG 256

typedef enum { E_INTERP, E_INTERPC, E_GEN, E_LAZY, E_BB } ekind_t;
typedef struct {
  char name[16];
  ekind_t kind;
  int level;
  MIR_context_t ctx;
} eng_t;

static eng_t engs[MAXENG];
static int neng;

/* ---------------- externals callable from MIR (logged) ---------------- */
static int64_t logbuf[MAXLOG][6];
static int nlog;
static uint64_t mix (uint64_t h, uint64_t v) {
  h ^= v + 0x9e3779b97f4a7c15ull + (h << 6) + (h >> 2);
  return h;
}
static void logcall (int id, int64_t a, int64_t b, int64_t c, int64_t d) {
  if (nlog < MAXLOG) {
    logbuf[nlog][0] = id; logbuf[nlog][1] = a; logbuf[nlog][2] = b; logbuf[nlog][3] = c; logbuf[nlog][4] = d;
    nlog++;
  }
}
int64_t ext0 (void) { logcall (0, 0, 0, 0, 0); return 1000 + nlog; }
int64_t ext1 (int64_t a) { logcall (1, a, 0, 0, 0); return (int64_t) mix (1, (uint64_t) a); }
int64_t ext2 (int64_t a, int64_t b) { logcall (2, a, b, 0, 0); return (int64_t) mix (mix (2, (uint64_t) a), (uint64_t) b); }
int64_t ext4 (int64_t a, int64_t b, int64_t c, int64_t d) {
  logcall (4, a, b, c, d);
  return (int64_t) mix (mix (mix (mix (4, (uint64_t) a), (uint64_t) b), (uint64_t) c), (uint64_t) d);
}
double extd (double x, int64_t a) {
  int64_t xb; memcpy (&xb, &x, 8); logcall (5, xb, a, 0, 0);
  return (double) (a % 1000) * 0.5 + 1.25;
}
void extv (int64_t a) { logcall (6, a, 0, 0, 0); }
/* store through a pointer given by MIR code (memory written by an external) */
void extp (int64_t *p, int64_t v) { logcall (7, v, 0, 0, 0); *p = v ^ 0x5555; }

/* two results in rax:rdx */
typedef struct { int64_t a, b; } pair_t;
pair_t extpair (int64_t a) {
  pair_t p;
  logcall (8, a, 0, 0, 0);
  p.a = (int64_t) mix (8, (uint64_t) a); p.b = (int64_t) mix (9, (uint64_t) a);
  return p;
}
/* reads and writes a long double local of the MIR code through its address */
void extld (long double *p, int64_t a) {
  int64_t lo; memcpy (&lo, p, 8); logcall (9, lo, a, 0, 0);
  *p = *p * 0.5L + (long double) (a % 1000);
}

/* ---------------- crash containment ---------------- */
static sigjmp_buf crash_env;
static volatile int in_call;
static void on_sig (int sig) {
  if (in_call) siglongjmp (crash_env, sig);
  _exit (70 + sig % 20);
}

static MIR_NO_RETURN void err_func (MIR_error_type_t t, const char *fmt, ...) {
  fprintf (stdout, "E mir-error %d %s\n", (int) t, fmt);
  fflush (stdout);
  exit (3);
}

static char *read_file (const char *name) {
  FILE *f = fopen (name, "rb");
  if (!f) { perror (name); exit (2); }
  fseek (f, 0, SEEK_END); long n = ftell (f); fseek (f, 0, SEEK_SET);
  char *s = malloc (n + 1);
  if (fread (s, 1, n, f) != (size_t) n) exit (2);
  s[n] = 0; fclose (f);
  return s;
}

static void load_all (eng_t *e, const char *text) {
  MIR_context_t ctx = e->ctx = MIR_init ();
  MIR_set_error_func (ctx, err_func);
  MIR_scan_string (ctx, text);
  for (MIR_module_t m = DLIST_HEAD (MIR_module_t, *MIR_get_module_list (ctx)); m != NULL;
       m = DLIST_NEXT (MIR_module_t, m))
    MIR_load_module (ctx, m);
  MIR_load_external (ctx, "ext0", ext0); MIR_load_external (ctx, "ext1", ext1);
  MIR_load_external (ctx, "ext2", ext2); MIR_load_external (ctx, "ext4", ext4);
  MIR_load_external (ctx, "extd", extd); MIR_load_external (ctx, "extv", extv);
  MIR_load_external (ctx, "extp", extp);
  MIR_load_external (ctx, "extpair", extpair); MIR_load_external (ctx, "extld", extld);
  switch (e->kind) {
  case E_INTERP: case E_INTERPC: MIR_link (ctx, MIR_set_interp_interface, NULL); break;
  case E_GEN: MIR_gen_init (ctx); MIR_gen_set_optimize_level (ctx, e->level);
    if (getenv ("ENGINE_DEBUG")) { MIR_gen_set_debug_file (ctx, stderr); MIR_gen_set_debug_level (ctx, atoi (getenv ("ENGINE_DEBUG"))); }
    MIR_link (ctx, MIR_set_gen_interface, NULL); break;
  case E_LAZY: MIR_gen_init (ctx); MIR_gen_set_optimize_level (ctx, e->level); MIR_link (ctx, MIR_set_lazy_gen_interface, NULL); break;
  case E_BB: MIR_gen_init (ctx); MIR_gen_set_optimize_level (ctx, e->level); MIR_link (ctx, MIR_set_lazy_bb_gen_interface, NULL); break;
  }
}

static MIR_item_t find_func (MIR_context_t ctx, const char *name) {
  for (MIR_module_t m = DLIST_HEAD (MIR_module_t, *MIR_get_module_list (ctx)); m != NULL;
       m = DLIST_NEXT (MIR_module_t, m))
    for (MIR_item_t it = DLIST_HEAD (MIR_item_t, m->items); it != NULL; it = DLIST_NEXT (MIR_item_t, it))
      if (it->item_type == MIR_func_item && strcmp (it->u.func->name, name) == 0) return it;
  return NULL;
}

/* a value of any class, as bit pattern(s) */
typedef struct { uint64_t lo; uint16_t hi; } bits_t; /* hi only for long double */

static double b2d (uint64_t b) { double d; memcpy (&d, &b, 8); return d; }
static uint64_t d2b (double d) { uint64_t b; memcpy (&b, &d, 8); return b; }
static float b2f (uint64_t b) { uint32_t u = (uint32_t) b; float f; memcpy (&f, &u, 4); return f; }
static uint64_t f2b (float f) { uint32_t u; memcpy (&u, &f, 4); return u; }
static long double b2l (bits_t b) { long double l = 0; memcpy (&l, &b.lo, 8); memcpy ((char *) &l + 8, &b.hi, 2); return l; }
static bits_t l2b (long double l) { bits_t b; memcpy (&b.lo, &l, 8); memcpy (&b.hi, (char *) &l + 8, 2); return b; }

/* signature string: argument classes then '_' then result class; classes i f d l */
static void call_native (void *addr, const char *sig, bits_t *a, bits_t *r) {
  char s[16]; strncpy (s, sig, 15); s[15] = 0;
#define I(k) ((int64_t) a[k].lo)
#define D(k) b2d (a[k].lo)
#define F(k) b2f (a[k].lo)
#define L(k) b2l (a[k])
  r->hi = 0;
  if (!strcmp (s, "ii_i")) r->lo = ((int64_t (*) (int64_t, int64_t)) addr) (I (0), I (1));
  else if (!strcmp (s, "i_i")) r->lo = ((int64_t (*) (int64_t)) addr) (I (0));
  else if (!strcmp (s, "_i")) r->lo = ((int64_t (*) (void)) addr) ();
  else if (!strcmp (s, "dd_d")) r->lo = d2b (((double (*) (double, double)) addr) (D (0), D (1)));
  else if (!strcmp (s, "dd_i")) r->lo = ((int64_t (*) (double, double)) addr) (D (0), D (1));
  else if (!strcmp (s, "d_d")) r->lo = d2b (((double (*) (double)) addr) (D (0)));
  else if (!strcmp (s, "d_i")) r->lo = ((int64_t (*) (double)) addr) (D (0));
  else if (!strcmp (s, "i_d")) r->lo = d2b (((double (*) (int64_t)) addr) (I (0)));
  else if (!strcmp (s, "ff_f")) r->lo = f2b (((float (*) (float, float)) addr) (F (0), F (1)));
  else if (!strcmp (s, "ff_i")) r->lo = ((int64_t (*) (float, float)) addr) (F (0), F (1));
  else if (!strcmp (s, "f_f")) r->lo = f2b (((float (*) (float)) addr) (F (0)));
  else if (!strcmp (s, "f_i")) r->lo = ((int64_t (*) (float)) addr) (F (0));
  else if (!strcmp (s, "i_f")) r->lo = f2b (((float (*) (int64_t)) addr) (I (0)));
  else if (!strcmp (s, "f_d")) r->lo = d2b (((double (*) (float)) addr) (F (0)));
  else if (!strcmp (s, "d_f")) r->lo = f2b (((float (*) (double)) addr) (D (0)));
  else if (!strcmp (s, "ll_l")) *r = l2b (((long double (*) (long double, long double)) addr) (L (0), L (1)));
  else if (!strcmp (s, "ll_i")) r->lo = ((int64_t (*) (long double, long double)) addr) (L (0), L (1));
  else if (!strcmp (s, "l_l")) *r = l2b (((long double (*) (long double)) addr) (L (0)));
  else if (!strcmp (s, "l_i")) r->lo = ((int64_t (*) (long double)) addr) (L (0));
  else if (!strcmp (s, "i_l")) *r = l2b (((long double (*) (int64_t)) addr) (I (0)));
  else if (!strcmp (s, "l_d")) r->lo = d2b (((double (*) (long double)) addr) (L (0)));
  else if (!strcmp (s, "d_l")) *r = l2b (((long double (*) (double)) addr) (D (0)));
  else if (!strcmp (s, "l_f")) r->lo = f2b (((float (*) (long double)) addr) (L (0)));
  else if (!strcmp (s, "f_l")) *r = l2b (((long double (*) (float)) addr) (F (0)));
  else if (!strcmp (s, "piiiidd_i"))
    r->lo = ((int64_t (*) (void *, int64_t, int64_t, int64_t, int64_t, double, double)) addr) (
      (void *) a[0].lo, I (1), I (2), I (3), I (4), D (5), D (6));
  else { printf ("E bad-sig %s\n", sig); exit (2); }
}

static void set_val (MIR_val_t *v, char cls, bits_t b) {
  memset (v, 0, sizeof (*v));
  switch (cls) {
  case 'i': case 'p': v->i = (int64_t) b.lo; break;
  case 'd': v->d = b2d (b.lo); break;
  case 'f': v->f = b2f (b.lo); break;
  case 'l': v->ld = b2l (b); break;
  }
}
static bits_t get_val (MIR_val_t *v, char cls) {
  bits_t b = {0, 0};
  switch (cls) {
  case 'i': b.lo = (uint64_t) v->i; break;
  case 'd': b.lo = d2b (v->d); break;
  case 'f': b.lo = f2b (v->f); break;
  case 'l': b = l2b (v->ld); break;
  }
  return b;
}

static int run_one (eng_t *e, MIR_item_t fi, const char *sig, bits_t *args, bits_t *res) {
  const char *us = strchr (sig, '_');
  int nargs = (int) (us - sig);
  char rcls = us[1];
  int sg;
  in_call = 1;
  alarm (4);
  if ((sg = sigsetjmp (crash_env, 1)) != 0) { in_call = 0; alarm (0); return sg; }
  if (e->kind == E_INTERP) {
    MIR_val_t vals[8], r[2];
    for (int i = 0; i < nargs; i++) set_val (&vals[i], sig[i], args[i]);
    memset (r, 0, sizeof (r));
    MIR_interp_arr (e->ctx, fi, r, nargs, vals);
    *res = get_val (&r[0], rcls);
  } else {
    call_native (fi->addr, sig, args, res);
  }
  alarm (0);
  in_call = 0;
  return 0;
}

static void print_bits (char cls, bits_t b) {
  if (cls == 'l') printf ("%04x%016llx", b.hi, (unsigned long long) b.lo);
  else if (cls == 'f') printf ("%08llx", (unsigned long long) (b.lo & 0xffffffffu));
  else printf ("%llx", (unsigned long long) b.lo);
}

/* ---------------- grids ---------------- */
#define MAXG 512
static uint64_t ivals[MAXG], dvals[MAXG], fvals[MAXG];
static bits_t lvals[MAXG];
static int nival, ndval, nfval, nlval;

static int in_dom (const char *dom, uint64_t a, uint64_t b) {
  if (!strcmp (dom, "any")) return 1;
  if (!strcmp (dom, "div64")) return b != 0 && !((int64_t) a == INT64_MIN && (int64_t) b == -1);
  if (!strcmp (dom, "div32")) return (uint32_t) b != 0 && !((int32_t) a == INT32_MIN && (int32_t) b == -1);
  if (!strcmp (dom, "udiv64")) return b != 0;
  if (!strcmp (dom, "udiv32")) return (uint32_t) b != 0;
  if (!strcmp (dom, "sh64")) return b < 64;
  if (!strcmp (dom, "sh32")) return (uint32_t) b < 32;
  if (!strcmp (dom, "d2i")) { double d = b2d (a); return d == d && d > -9.2233720368547e18 && d < 9.2233720368547e18; }
  if (!strcmp (dom, "f2i")) { float f = b2f (a); return f == f && f > -9.22337e18f && f < 9.22337e18f; }
  if (!strcmp (dom, "l2i")) { bits_t t = {a, (uint16_t) b}; long double l = b2l (t); return l == l && l > -9.2233720368547e18L && l < 9.2233720368547e18L; }
  return 1;
}


/* ---------------- native reference for long double instructions (gcc-compiled C as oracle) ---------------- */
static int ld_ref (const char *op, bits_t a, bits_t b, char *rcls, bits_t *r) {
  long double x = b2l (a), y = b2l (b);
  r->lo = 0; r->hi = 0;
#define LR(v) do { *r = l2b (v); *rcls = 'l'; return 1; } while (0)
#define IR(v) do { r->lo = (uint64_t) (int64_t) (v); *rcls = 'i'; return 1; } while (0)
  if (!strcmp (op, "ldadd")) LR (x + y);
  if (!strcmp (op, "ldsub")) LR (x - y);
  if (!strcmp (op, "ldmul")) LR (x * y);
  if (!strcmp (op, "lddiv")) LR (x / y);
  if (!strcmp (op, "ldneg")) LR (-x);
  if (!strcmp (op, "ldeq")) IR (x == y);
  if (!strcmp (op, "ldne")) IR (x != y);
  if (!strcmp (op, "ldlt")) IR (x < y);
  if (!strcmp (op, "ldle")) IR (x <= y);
  if (!strcmp (op, "ldgt")) IR (x > y);
  if (!strcmp (op, "ldge")) IR (x >= y);
  if (!strcmp (op, "i2ld")) LR ((long double) (int64_t) a.lo);
  if (!strcmp (op, "ui2ld")) LR ((long double) (uint64_t) a.lo);
  if (!strcmp (op, "ld2i")) IR ((int64_t) x);
  if (!strcmp (op, "ld2d")) { r->lo = d2b ((double) x); *rcls = 'd'; return 1; }
  if (!strcmp (op, "ld2f")) { r->lo = f2b ((float) x); *rcls = 'f'; return 1; }
  if (!strcmp (op, "d2ld")) LR ((long double) b2d (a.lo));
  if (!strcmp (op, "f2ld")) LR ((long double) b2f (a.lo));
  return 0;
}

static bits_t parse_bits (char *s) {
  bits_t b = {0, 0};
  size_t len = strlen (s);
  if (len > 16) { b.lo = strtoull (s + len - 16, NULL, 16); s[len - 16] = 0; b.hi = (uint16_t) strtoul (s, NULL, 16); }
  else b.lo = strtoull (s, NULL, 16);
  return b;
}

static int quiet;

static void eval_and_print (const char *fname, MIR_item_t *fis, const char *sig, bits_t *args) {
  const char *us = strchr (sig, '_');
  int nargs = (int) (us - sig);
  printf ("R %s", fname);
  for (int i = 0; i < nargs; i++) { printf (" "); print_bits (sig[i], args[i]); }
  printf (" |");
  bits_t rs[MAXENG]; int sgs[MAXENG]; int same = 1;
  for (int k = 0; k < neng; k++) {
    rs[k].lo = 0; rs[k].hi = 0;
    sgs[k] = run_one (&engs[k], fis[k], sig, args, &rs[k]);
    if (k > 0 && (sgs[k] != sgs[0] || rs[k].lo != rs[0].lo || rs[k].hi != rs[0].hi)) same = 0;
  }
  for (int k = 0; k < (same ? 1 : neng); k++) {
    printf (same ? " =" : " ");
    if (sgs[k] == SIGALRM) printf ("!T");
    else if (sgs[k]) printf ("!SIG%d", sgs[k]);
    else print_bits (us[1], rs[k]);
  }
  printf ("\n");
}

static void do_grid (const char *fname, const char *sig, const char *dom) {
  MIR_item_t fis[MAXENG];
  for (int k = 0; k < neng; k++)
    if ((fis[k] = find_func (engs[k].ctx, fname)) == NULL) { printf ("E no-func %s\n", fname); return; }
  const char *us = strchr (sig, '_');
  int nargs = (int) (us - sig);
  int n[2] = {1, 1};
  for (int i = 0; i < nargs && i < 2; i++)
    n[i] = sig[i] == 'i' ? nival : sig[i] == 'd' ? ndval : sig[i] == 'f' ? nfval : nlval;
  for (int i = 0; i < n[0]; i++)
    for (int j = 0; j < n[1]; j++) {
      bits_t args[2] = {{0, 0}, {0, 0}};
      int idx[2] = {i, j};
      for (int k = 0; k < nargs && k < 2; k++) {
        if (sig[k] == 'i') args[k].lo = ivals[idx[k]];
        else if (sig[k] == 'd') args[k].lo = dvals[idx[k]];
        else if (sig[k] == 'f') args[k].lo = fvals[idx[k]];
        else args[k] = lvals[idx[k]];
      }
      if (!in_dom (dom, args[0].lo, sig[0] == 'l' ? args[0].hi : args[1].lo)) continue;
      eval_and_print (fname, fis, sig, args);
    }
}

static unsigned char buf[MAXENG][BUFSZ + 64];

static void do_prog (const char *fname, uint64_t *iv, uint64_t *dv) {
  int64_t logs[MAXENG][MAXLOG][6];
  int nlogs[MAXENG];
  bits_t rs[MAXENG];
  int sgs[MAXENG];
  for (int k = 0; k < neng; k++) {
    MIR_item_t fi = find_func (engs[k].ctx, fname);
    if (fi == NULL) { printf ("E no-func %s\n", fname); return; }
    for (int i = 0; i < BUFSZ + 64; i++) buf[k][i] = (unsigned char) (i * 7 + 3);
    nlog = 0;
    bits_t args[7] = {{(uint64_t) (uintptr_t) (buf[k] + 32), 0}, {iv[0], 0}, {iv[1], 0}, {iv[2], 0}, {iv[3], 0}, {dv[0], 0}, {dv[1], 0}};
    rs[k].lo = 0; rs[k].hi = 0;
    sgs[k] = run_one (&engs[k], fi, "piiiidd_i", args, &rs[k]);
    nlogs[k] = nlog;
    memcpy (logs[k], logbuf, sizeof (logbuf[0]) * nlog);
  }
  /* engine 0 is the reference (interp): print its full observation, then per engine same/diff */
  printf ("P %s %llx %llx %llx %llx %llx %llx |", fname, (unsigned long long) iv[0], (unsigned long long) iv[1],
          (unsigned long long) iv[2], (unsigned long long) iv[3], (unsigned long long) dv[0], (unsigned long long) dv[1]);
  int allsame = 1;
  for (int k = 1; k < neng; k++)
    if (!(sgs[k] == sgs[0] && rs[k].lo == rs[0].lo && nlogs[k] == nlogs[0]
          && memcmp (buf[k], buf[0], BUFSZ + 64) == 0
          && memcmp (logs[k], logs[0], sizeof (logbuf[0]) * nlogs[0]) == 0))
      allsame = 0;
  if (allsame) {
    if (sgs[0]) printf (" =!SIG%d", sgs[0]);
    else printf (" =%llx log%d", (unsigned long long) rs[0].lo, nlogs[0]);
  } else
    for (int k = 0; k < neng; k++) {
      int same = sgs[k] == sgs[0] && rs[k].lo == rs[0].lo && nlogs[k] == nlogs[0]
                 && memcmp (buf[k], buf[0], BUFSZ + 64) == 0
                 && memcmp (logs[k], logs[0], sizeof (logbuf[0]) * nlogs[0]) == 0;
      if (sgs[k]) printf (" !SIG%d", sgs[k]);
      else printf (" %llx%s", (unsigned long long) rs[k].lo, same ? "" : "*");
    }
  printf ("\n");
  if (allsame && quiet) return;
  {
    for (int k = 0; k < neng; k++) {
      int same = k > 0 && nlogs[k] == nlogs[0] && memcmp (buf[k], buf[0], BUFSZ + 64) == 0
                 && memcmp (logs[k], logs[0], sizeof (logbuf[0]) * nlogs[0]) == 0;
      if (same) continue;
      printf ("M %s %s ", fname, engs[k].name);
      for (int i = 0; i < BUFSZ + 64; i++) printf ("%02x", buf[k][i]);
      printf ("\nL %s %s", fname, engs[k].name);
      for (int i = 0; i < nlogs[k]; i++)
        printf (" %lld:%llx,%llx,%llx,%llx", (long long) logs[k][i][0], (unsigned long long) logs[k][i][1],
                (unsigned long long) logs[k][i][2], (unsigned long long) logs[k][i][3], (unsigned long long) logs[k][i][4]);
      printf ("\n");
    }
  }
}

int main (int argc, char **argv) {
  if (argc < 3) { fprintf (stderr, "usage: engine <engines> <file.mir> [-q]\n"); return 2; }
  quiet = argc > 3 && !strcmp (argv[3], "-q");
  char *text = read_file (argv[2]);
  char *list = strdup (argv[1]);
  for (char *t = strtok (list, ","); t != NULL; t = strtok (NULL, ",")) {
    eng_t *e = &engs[neng++];
    strncpy (e->name, t, 15);
    if (!strcmp (t, "interp")) e->kind = E_INTERP;
    else if (!strcmp (t, "interpc")) e->kind = E_INTERPC;
    else if (!strncmp (t, "gen", 3)) { e->kind = E_GEN; e->level = t[3] - '0'; }
    else if (!strncmp (t, "lazy", 4)) { e->kind = E_LAZY; e->level = t[4] - '0'; }
    else if (!strncmp (t, "bb", 2)) { e->kind = E_BB; e->level = t[2] - '0'; }
    else { fprintf (stderr, "unknown engine %s\n", t); return 2; }
  }
  struct sigaction sa; memset (&sa, 0, sizeof (sa)); sa.sa_handler = on_sig; sa.sa_flags = SA_NODEFER;
  sigaction (SIGSEGV, &sa, NULL); sigaction (SIGFPE, &sa, NULL); sigaction (SIGILL, &sa, NULL);
  sigaction (SIGBUS, &sa, NULL); sigaction (SIGALRM, &sa, NULL); sigaction (SIGABRT, &sa, NULL);
  for (int k = 0; k < neng; k++) load_all (&engs[k], text);
  printf ("H engines");
  for (int k = 0; k < neng; k++) printf (" %s", engs[k].name);
  printf ("\n");
  char *line = NULL; size_t cap = 0;
  while (getline (&line, &cap, stdin) > 0) {
    static char *tok[MAXG + 8]; int nt = 0;
    for (char *t = strtok (line, " \t\n"); t != NULL && nt < MAXG + 8; t = strtok (NULL, " \t\n")) tok[nt++] = t;
    if (nt == 0) continue;
    if (!strcmp (tok[0], "ivals") || !strcmp (tok[0], "dvals") || !strcmp (tok[0], "fvals") || !strcmp (tok[0], "lvals")) {
      /* grids can be long: re-read from the raw line is not possible after strtok; use continuation lines */
      uint64_t *dst = tok[0][0] == 'i' ? ivals : tok[0][0] == 'd' ? dvals : fvals;
      int *cnt = tok[0][0] == 'i' ? &nival : tok[0][0] == 'd' ? &ndval : tok[0][0] == 'f' ? &nfval : &nlval;
      for (int i = 1; i < nt && *cnt < MAXG; i++) {
        if (tok[0][0] == 'l') {
          /* hhhhllllllllllllllll */
          char *s = tok[i]; size_t len = strlen (s);
          bits_t b = {0, 0};
          if (len > 16) { b.lo = strtoull (s + len - 16, NULL, 16); s[len - 16] = 0; b.hi = (uint16_t) strtoul (s, NULL, 16); }
          else b.lo = strtoull (s, NULL, 16);
          lvals[(*cnt)++] = b;
        } else dst[(*cnt)++] = strtoull (tok[i], NULL, 16);
      }
    } else if (!strcmp (tok[0], "grid") && nt >= 4) {
      do_grid (tok[1], tok[2], tok[3]);
    } else if (!strcmp (tok[0], "call") && nt >= 3) {
      MIR_item_t fis[MAXENG]; int ok = 1;
      for (int k = 0; k < neng; k++) if ((fis[k] = find_func (engs[k].ctx, tok[1])) == NULL) ok = 0;
      if (!ok) { printf ("E no-func %s\n", tok[1]); continue; }
      bits_t args[8]; memset (args, 0, sizeof (args));
      for (int i = 3; i < nt && i - 3 < 8; i++) {
        char *s = tok[i]; size_t len = strlen (s);
        if (len > 16) { args[i - 3].lo = strtoull (s + len - 16, NULL, 16); s[len - 16] = 0; args[i - 3].hi = (uint16_t) strtoul (s, NULL, 16); }
        else args[i - 3].lo = strtoull (s, NULL, 16);
      }
      eval_and_print (tok[1], fis, tok[2], args);
    } else if (!strcmp (tok[0], "ref") && nt >= 3) { /* ref <op> <a> [<b>] : native reference value */
      bits_t a = parse_bits (tok[2]), b = {0, 0}, r;
      char rc = 'i';
      if (nt > 3) b = parse_bits (tok[3]);
      if (ld_ref (tok[1], a, b, &rc, &r)) { printf ("N %s ", tok[1]); print_bits (rc, r); printf ("\n"); }
      else printf ("E bad-ref %s\n", tok[1]);
    } else if (!strcmp (tok[0], "prog") && nt >= 8) {
      uint64_t iv[4], dv[2];
      for (int i = 0; i < 4; i++) iv[i] = strtoull (tok[2 + i], NULL, 16);
      for (int i = 0; i < 2; i++) dv[i] = strtoull (tok[6 + i], NULL, 16);
      do_prog (tok[1], iv, dv);
    }
    fflush (stdout);
  }
  return 0;
}
