/* C04 unit-level tie: scan a MIR text file, load every module, MIR_link with a NULL interface
   (simplification + inlining only, no engine), print every function with MIR_output_item.

   usage: c04_lower <file.mir>
   Output: the library's own text of each function after link-time simplification, preceded by a
   line `F <name>`; errors of the library are printed as `E <code> <format>` and end the run.
   Every import is resolved to a dummy address (nothing is executed). */
#include <stdio.h>
#include <stdlib.h>
#include <string.h>
#include "mir.h"

static MIR_NO_RETURN void err_func (MIR_error_type_t t, const char *fmt, ...) {
  printf ("E %d %s\n", (int) t, fmt);
  fflush (stdout);
  exit (3);
}

static void dummy (void) {}
static void *resolver (const char *name) { (void) name; return (void *) dummy; }

int main (int argc, char **argv) {
  if (argc < 2) return 2;
  FILE *f = fopen (argv[1], "rb");
  if (!f) return 2;
  fseek (f, 0, SEEK_END); long n = ftell (f); fseek (f, 0, SEEK_SET);
  char *s = malloc (n + 1);
  if (fread (s, 1, n, f) != (size_t) n) return 2;
  s[n] = 0; fclose (f);
  MIR_context_t ctx = MIR_init ();
  MIR_set_error_func (ctx, err_func);
  MIR_scan_string (ctx, s);
  for (MIR_module_t m = DLIST_HEAD (MIR_module_t, *MIR_get_module_list (ctx)); m != NULL;
       m = DLIST_NEXT (MIR_module_t, m))
    MIR_load_module (ctx, m);
  MIR_link (ctx, NULL, resolver);
  for (MIR_module_t m = DLIST_HEAD (MIR_module_t, *MIR_get_module_list (ctx)); m != NULL;
       m = DLIST_NEXT (MIR_module_t, m))
    for (MIR_item_t it = DLIST_HEAD (MIR_item_t, m->items); it != NULL; it = DLIST_NEXT (MIR_item_t, it))
      if (it->item_type == MIR_func_item) {
        printf ("F %s\n", it->u.func->name);
        MIR_output_item (ctx, stdout, it);
      }
  fflush (stdout);
  MIR_finish (ctx);
  return 0;
}
