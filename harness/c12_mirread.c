/* C12 harness 2: the compression layer as binary MIR uses it (mir.c: get_byte over
   reduce_decode_get, MIR_read_with_func / MIR_write_with_func).

   usage: c12_mirread <target-size> [<target-size> ...]
   For every target it builds a module (one u8 data item + a padded module name) whose UNCOMPRESSED
   binary stream is exactly <target> bytes, writes it with MIR_write_with_func, and then feeds
   damaged copies of the compressed bytes both to plain reduce_decode and to MIR_read_with_func:
     "S <target> <uncompressed> <compressed-len>"
     "C <target> <case> dec=<0|1> read=<0|1> same=<0|1>"   dec = reduce_decode's ok flag,
                           read = MIR_read_with_func returned without calling the error function,
                           same = the module read back re-writes to the original compressed bytes
   A damaged stream with dec=0 and read=1 means the reader glue accepted what the decoder reported
   as a failure.  The error function longjmps (contexts of rejected reads are leaked on purpose). */
#include "mir.c"
#include <stdio.h>
#include <setjmp.h>

typedef struct { uint8_t *p; size_t len, cap; } bytes_t;
static bytes_t wb, orig, rb;
static size_t rpos, dpos, dcount;

static void bpush (bytes_t *b, uint8_t v) {
  if (b->len == b->cap) { b->cap = b->cap * 2 + 4096; b->p = realloc (b->p, b->cap); if (b->p == NULL) abort (); }
  b->p[b->len++] = v;
}
static int writer (MIR_context_t ctx, uint8_t b) { (void) ctx; bpush (&wb, b); return 1; }
static int reader (MIR_context_t ctx) { (void) ctx; return rpos < rb.len ? rb.p[rpos++] : EOF; }
static size_t drd (void *s, size_t l, void *a) {
  size_t n = rb.len - dpos < l ? rb.len - dpos : l;
  (void) a; if (n) memcpy (s, rb.p + dpos, n); dpos += n; return n;
}
static size_t dwr (const void *s, size_t l, void *a) { (void) s; (void) a; dcount += l; return l; }

static int err_seen;
static jmp_buf jb;
static void MIR_NO_RETURN err (MIR_error_type_t t, const char *fmt, ...) { (void) t; (void) fmt; err_seen = 1; longjmp (jb, 1); }

static size_t build (size_t n, size_t pad) {
  MIR_context_t ctx = MIR_init ();
  char *nm = malloc (pad + 2);
  uint8_t *d = malloc (n ? n : 1);
  memset (nm, 'm', pad + 1); nm[pad + 1] = 0;
  for (size_t i = 0; i < n; i++) d[i] = (uint8_t) ((i * 2654435761u) >> 13);
  MIR_new_module (ctx, nm);
  MIR_new_data (ctx, "d", MIR_T_U8, n, d);
  MIR_finish_module (ctx);
  wb.len = 0;
  MIR_write_with_func (ctx, writer);
  MIR_finish (ctx);
  free (d); free (nm);
  rb.len = 0;
  for (size_t i = 0; i < wb.len; i++) bpush (&rb, wb.p[i]);
  dpos = 0; dcount = 0;
  if (!reduce_decode (&default_alloc, drd, dwr, NULL)) return 0;
  return dcount;
}

static void try_case (size_t target, const char *name) {
  int dec, rd, same = 0;
  dpos = 0; dcount = 0;
  dec = reduce_decode (&default_alloc, drd, dwr, NULL) != 0;
  MIR_context_t ctx = MIR_init ();
  MIR_set_error_func (ctx, err);
  rpos = 0; err_seen = 0;
  if (setjmp (jb) == 0) MIR_read_with_func (ctx, reader);
  rd = !err_seen;
  if (rd) {
    wb.len = 0;
    if (setjmp (jb) == 0) {
      MIR_write_with_func (ctx, writer);
      same = wb.len == orig.len && memcmp (wb.p, orig.p, wb.len) == 0;
      MIR_finish (ctx);
    }
  }
  printf ("C %zu %s dec=%d read=%d same=%d\n", target, name, dec, rd, same);
  fflush (stdout);
}

static void set_rb (size_t len) {
  rb.len = 0;
  for (size_t i = 0; i < len && i < orig.len; i++) bpush (&rb, orig.p[i]);
}

int main (int argc, char **argv) {
  char name[64];
  for (int a = 1; a < argc; a++) {
    size_t target = strtoul (argv[a], 0, 0), n, u, pad = 0;
    if (target < 2000) { printf ("? target too small\n"); continue; }
    n = (target - 600) * 2 / 3;
    u = build (n, 0);
    while (u != 0 && u + 400 < target) { n += (target - 300 - u) / 2 + 1; u = build (n, 0); }
    for (int it = 0; it < 600 && u != 0 && u < target; it++) { pad += (target - u > 100 ? 100 : target - u); u = build (n, pad); }
    printf ("S %zu %zu %zu\n", target, u, wb.len);
    if (u != target) { printf ("? cannot reach target %zu (got %zu)\n", target, u); continue; }
    orig.len = 0;
    for (size_t i = 0; i < wb.len; i++) bpush (&orig, wb.p[i]);
    set_rb (orig.len); try_case (target, "unmodified");
    for (int i = 1; i <= 8; i++) {
      set_rb (orig.len); rb.p[orig.len - i] ^= 1 << (i - 1);
      snprintf (name, sizeof name, "hash-byte-%d-flipped", 9 - i); try_case (target, name);
    }
    set_rb (orig.len); rb.p[orig.len - 9] ^= 0x20; try_case (target, "trailer-tag-altered");
    for (int i = 1; i <= 9; i++) {
      set_rb (orig.len - i);
      snprintf (name, sizeof name, "truncated-by-%d", i); try_case (target, name);
    }
    set_rb (orig.len); bpush (&rb, 0); try_case (target, "extended-by-1");
    for (int i = 1; i <= 24; i++) {
      size_t pos = 3 + (orig.len - 12) * i / 25;
      set_rb (orig.len); rb.p[pos] ^= 0x10;
      snprintf (name, sizeof name, "body-byte-%zu-flipped", pos); try_case (target, name);
    }
  }
  return 0;
}
