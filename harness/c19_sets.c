/* C19 (bitmap / VARR / DLIST part): line-protocol harness on the REAL headers of the repository.
   Same protocol as lean/Drv/C19b.lean.  Every output line is

       <what the Lean model must print too> [ | <annotations of the built-in reference> ]

   The reference is a deliberately trivial implementation of the *specification* (fixed-size word
   arrays without length normalisation for sets, a plain array for the sequence, an id array for the
   list).  Annotations:
     chg=<0|1> dl=<dst words before> sl=<max source words>   set-level "dst changed" for op2/op3 (reference)
     FLAGBAD lowsame=..   returned change flag != chg (lowsame: no change below word sl)
     REFBAD <detail>      real code disagrees with the reference (contents or returned value)
   Compile with -DNDEBUG for the flavour the CMake build uses (asserts off; calls the header would
   assert on are then never executed, only reported as "rej skipped"). */
#include <stdio.h>
#include <stdlib.h>
#include <string.h>
#include <stdint.h>
#include <inttypes.h>
#include <signal.h>
#include <setjmp.h>

#include "mir-alloc.h"
#include "mir-varr.h"
#include "mir-bitmap.h"
#include "mir-dlist.h"
#include "mir-alloc-default.c"

/* ---------------------------------------------------------------- assert catching */
static sigjmp_buf abort_jmp;
static volatile int abort_armed = 0;
static void on_abort (int sig) {
  (void) sig;
  if (abort_armed) {
    abort_armed = 0;
    siglongjmp (abort_jmp, 1);
  }
  fflush (stdout);
  signal (SIGABRT, SIG_DFL);
  raise (SIGABRT);
}
#ifdef NDEBUG
#define CHECKED 0
#else
#define CHECKED 1
#endif
/* run STMT; `rejected` = a header assert fired */
#define GUARDED(STMT, rejected)                 \
  do {                                          \
    rejected = 0;                               \
    if (sigsetjmp (abort_jmp, 1) == 0) {        \
      abort_armed = 1;                          \
      STMT;                                     \
      abort_armed = 0;                          \
    } else {                                    \
      rejected = 1;                             \
    }                                           \
  } while (0)

/* ---------------------------------------------------------------- bitmaps */
#define MAXBM 8
#define UW 80 /* reference universe: 80 words = 5120 bits (bitmap_create starts with 64 words, so growth by realloc is reachable) */
#define UNIV (UW * 64)
static bitmap_t bm[MAXBM];
static uint64_t refw[MAXBM][UW];
static int nbm = 0;

static int ref_bit (int b, size_t i) { return (refw[b][i / 64] >> (i % 64)) & 1; }
static void ref_set (int b, size_t i, int v) {
  if (v)
    refw[b][i / 64] |= (uint64_t) 1 << (i % 64);
  else
    refw[b][i / 64] &= ~((uint64_t) 1 << (i % 64));
}
static uint64_t real_word (int b, size_t w) {
  return w < VARR_LENGTH (bitmap_el_t, bm[b]) ? VARR_ADDR (bitmap_el_t, bm[b])[w] : 0;
}
static void dump_bm (int b) {
  size_t i, len = VARR_LENGTH (bitmap_el_t, bm[b]);
  printf ("%zu:", len);
  for (i = 0; i < len; i++) printf ("%s%" PRIx64, i ? "," : "", VARR_ADDR (bitmap_el_t, bm[b])[i]);
}
/* 0 = equal */
static int cmp_ref (int b) {
  size_t w, len = VARR_LENGTH (bitmap_el_t, bm[b]);
  if (len > UW) return 1;
  for (w = 0; w < UW; w++)
    if (real_word (b, w) != refw[b][w]) return 1;
  return 0;
}
static char annot[512];
static void ann (const char *fmt, ...) __attribute__ ((format (printf, 1, 2)));
#include <stdarg.h>
static void ann (const char *fmt, ...) {
  va_list ap;
  size_t l = strlen (annot);
  va_start (ap, fmt);
  vsnprintf (annot + l, sizeof (annot) - l, fmt, ap);
  va_end (ap);
}
static void check_dst (int d) {
  if (cmp_ref (d)) ann (" REFBAD contents bm%d", d);
}
static void endline (void) {
  if (annot[0])
    printf (" |%s\n", annot);
  else
    printf ("\n");
  annot[0] = 0;
}

typedef int (*op2_t) (bitmap_t, bitmap_t, bitmap_t);
typedef int (*op3_t) (bitmap_t, bitmap_t, bitmap_t, bitmap_t);

static void flag_annot (int d, int flag, uint64_t *before, size_t dstlen, size_t srclen) {
  int chg = memcmp (before, refw[d], sizeof (uint64_t) * UW) != 0;
  ann (" chg=%d dl=%zu sl=%zu", chg, dstlen, srclen);
  if ((flag != 0) != chg) {
    int lowsame = 1;
    size_t w;
    for (w = 0; w < srclen && w < UW; w++)
      if (before[w] != refw[d][w]) lowsame = 0;
    ann (" FLAGBAD lowsame=%d", lowsame);
  }
}

static size_t max_z (size_t a, size_t b) { return a > b ? a : b; }

static void do_op (const char *cmd, int *a, int na) {
  int d = a[0], x = a[1], y = a[2], z = na > 3 ? a[3] : 0, flag, w;
  uint64_t before[UW], r[UW];
  size_t dstlen = VARR_LENGTH (bitmap_el_t, bm[d]);
  size_t srclen = max_z (VARR_LENGTH (bitmap_el_t, bm[x]), VARR_LENGTH (bitmap_el_t, bm[y]));
  if (na > 3) srclen = max_z (srclen, VARR_LENGTH (bitmap_el_t, bm[z]));
  memcpy (before, refw[d], sizeof (before));
  for (w = 0; w < UW; w++) {
    uint64_t X = refw[x][w], Y = refw[y][w], Z = refw[z][w];
    if (!strcmp (cmd, "band"))
      r[w] = X & Y;
    else if (!strcmp (cmd, "bandc"))
      r[w] = X & ~Y;
    else if (!strcmp (cmd, "bior"))
      r[w] = X | Y;
    else if (!strcmp (cmd, "bia"))
      r[w] = X | (Y & Z);
    else
      r[w] = X | (Y & ~Z);
  }
  memcpy (refw[d], r, sizeof (r));
  if (!strcmp (cmd, "band"))
    flag = bitmap_and (bm[d], bm[x], bm[y]);
  else if (!strcmp (cmd, "bandc"))
    flag = bitmap_and_compl (bm[d], bm[x], bm[y]);
  else if (!strcmp (cmd, "bior"))
    flag = bitmap_ior (bm[d], bm[x], bm[y]);
  else if (!strcmp (cmd, "bia"))
    flag = bitmap_ior_and (bm[d], bm[x], bm[y], bm[z]);
  else
    flag = bitmap_ior_and_compl (bm[d], bm[x], bm[y], bm[z]);
  printf ("%d ", flag != 0);
  dump_bm (d);
  check_dst (d);
  flag_annot (d, flag, before, dstlen, srclen);
  endline ();
}

static void bitmap_cmd (const char *cmd, long *arg, int na) {
  int a[4] = {0, 0, 0, 0}, i, nid;
  int first_only = !strcmp (cmd, "bs") || !strcmp (cmd, "bc") || !strcmp (cmd, "bt")
                   || !strcmp (cmd, "brs") || !strcmp (cmd, "brc");
  nid = first_only ? 1 : na;
  if (na > 4 || (first_only && na < 2)) goto err;
  for (i = 0; i < na; i++) {
    if (arg[i] < 0) goto err;
    if (i < nid && arg[i] >= nbm) goto err;
    if (i < 4) a[i] = (int) arg[i];
  }
  if (!strcmp (cmd, "bs") && na == 2) {
    size_t n = arg[1];
    int r, exp;
    if (n >= UNIV) goto err;
    exp = !ref_bit (a[0], n);
    ref_set (a[0], n, 1);
    r = bitmap_set_bit_p (bm[a[0]], n);
    printf ("%d ", r != 0);
    dump_bm (a[0]);
    if ((r != 0) != exp) ann (" REFBAD flag");
    check_dst (a[0]);
  } else if (!strcmp (cmd, "bc") && na == 2) {
    size_t n = arg[1];
    int r, exp;
    if (n >= UNIV) goto err;
    exp = ref_bit (a[0], n);
    ref_set (a[0], n, 0);
    r = bitmap_clear_bit_p (bm[a[0]], n);
    printf ("%d ", r != 0);
    dump_bm (a[0]);
    if ((r != 0) != exp) ann (" REFBAD flag");
    check_dst (a[0]);
  } else if (!strcmp (cmd, "bt") && na == 2) {
    size_t n = arg[1];
    int r = bitmap_bit_p (bm[a[0]], n);
    printf ("%d", r != 0);
    if ((r != 0) != (n < UNIV ? ref_bit (a[0], n) : 0)) ann (" REFBAD value");
  } else if ((!strcmp (cmd, "brs") || !strcmp (cmd, "brc")) && na == 3) {
    size_t n = arg[1], len = arg[2], k;
    int setp = !strcmp (cmd, "brs"), r, exp = 0;
    if (n + len > UNIV) goto err;
    for (k = n; k < n + len; k++) {
      if (ref_bit (a[0], k) != setp) exp = 1;
      ref_set (a[0], k, setp);
    }
    r = setp ? bitmap_set_bit_range_p (bm[a[0]], n, len) : bitmap_clear_bit_range_p (bm[a[0]], n, len);
    printf ("%d ", r != 0);
    dump_bm (a[0]);
    if ((r != 0) != exp) ann (" REFBAD flag");
    check_dst (a[0]);
  } else if (!strcmp (cmd, "bcp") && na == 2) {
    if (a[0] == a[1]) goto err; /* memcpy (p, p, n) */
    memcpy (refw[a[0]], refw[a[1]], sizeof (refw[0]));
    bitmap_copy (bm[a[0]], bm[a[1]]);
    dump_bm (a[0]);
    check_dst (a[0]);
  } else if (!strcmp (cmd, "beq") && na == 2) {
    int r = bitmap_equal_p (bm[a[0]], bm[a[1]]);
    printf ("%d", r != 0);
    if ((r != 0) != (memcmp (refw[a[0]], refw[a[1]], sizeof (refw[0])) == 0)) ann (" REFBAD value");
  } else if (!strcmp (cmd, "bis") && na == 2) {
    int r = bitmap_intersect_p (bm[a[0]], bm[a[1]]), exp = 0, w;
    for (w = 0; w < UW; w++)
      if (refw[a[0]][w] & refw[a[1]][w]) exp = 1;
    printf ("%d", r != 0);
    if ((r != 0) != exp) ann (" REFBAD value");
  } else if (!strcmp (cmd, "bem") && na == 1) {
    int r = bitmap_empty_p (bm[a[0]]), exp = 1, w;
    for (w = 0; w < UW; w++)
      if (refw[a[0]][w]) exp = 0;
    printf ("%d", r != 0);
    if ((r != 0) != exp) ann (" REFBAD value");
  } else if ((!strcmp (cmd, "bcn") || !strcmp (cmd, "bmn") || !strcmp (cmd, "bmx")) && na == 1) {
    size_t r, cnt = 0, mn = 0, mx = 0, k;
    int any = 0;
    for (k = 0; k < UNIV; k++)
      if (ref_bit (a[0], k)) {
        cnt++;
        if (!any) mn = k;
        mx = k;
        any = 1;
      }
    if (!strcmp (cmd, "bcn")) {
      r = bitmap_bit_count (bm[a[0]]);
      if (r != cnt) ann (" REFBAD value");
    } else if (!strcmp (cmd, "bmn")) {
      r = bitmap_bit_min (bm[a[0]]);
      if (r != mn) ann (" REFBAD value");
    } else {
      r = bitmap_bit_max (bm[a[0]]);
      if (r != mx) ann (" REFBAD value");
    }
    printf ("%zu", r);
  } else if ((!strcmp (cmd, "band") || !strcmp (cmd, "bandc") || !strcmp (cmd, "bior")) && na == 3) {
    do_op (cmd, a, na);
    return;
  } else if ((!strcmp (cmd, "bia") || !strcmp (cmd, "biac")) && na == 4) {
    do_op (cmd, a, na);
    return;
  } else if (!strcmp (cmd, "bcl") && na == 1) {
    memset (refw[a[0]], 0, sizeof (refw[0]));
    bitmap_clear (bm[a[0]]);
    dump_bm (a[0]);
    check_dst (a[0]);
  } else if (!strcmp (cmd, "bit") && na == 1) {
    bitmap_iterator_t iter;
    size_t nbit, cnt = 0, prev = 0, k, expcnt = 0;
    int bad = 0;
    for (k = 0; k < UNIV; k++) expcnt += ref_bit (a[0], k);
    FOREACH_BITMAP_BIT (iter, bm[a[0]], nbit) {
      printf ("%s%zu", cnt ? "," : "", nbit);
      if (nbit >= UNIV || !ref_bit (a[0], nbit) || (cnt && nbit <= prev)) bad = 1;
      prev = nbit;
      if (++cnt > UNIV + 1) {
        ann (" REFBAD LOOP");
        break;
      }
    }
    if (bad || cnt != expcnt) ann (" REFBAD iteration");
  } else if (!strcmp (cmd, "bdump") && na == 0) {
    for (i = 0; i < nbm; i++) {
      if (i) printf (" ");
      dump_bm (i);
      check_dst (i);
    }
  } else
    goto err;
  endline ();
  return;
err:
  printf ("err\n");
}

/* ---------------------------------------------------------------- VARR */
DEF_VARR (int64_t);
static VARR (int64_t) * va;
#define MAXV (1 << 16)
static int64_t ref_v[MAXV];
static unsigned char ref_known[MAXV];
static size_t ref_n;

static void pval (size_t i, int64_t v) {
  if (ref_known[i])
    printf ("%" PRId64, v);
  else
    printf ("?");
}

static void varr_cmd (const char *cmd, long *arg, int na) {
  int rej = 0;
  size_t i;
  if (!strcmp (cmd, "vpush") && na == 1) {
    if (ref_n + 1 >= MAXV) goto err;
    VARR_PUSH (int64_t, va, (int64_t) arg[0]);
    ref_v[ref_n] = arg[0];
    ref_known[ref_n++] = 1;
    printf ("ok");
  } else if (!strcmp (cmd, "vpusharr")) {
    int64_t tmp[64];
    if (na > 64 || ref_n + na >= MAXV) goto err;
    for (i = 0; i < (size_t) na; i++) {
      tmp[i] = arg[i];
      ref_v[ref_n] = arg[i];
      ref_known[ref_n++] = 1;
    }
    VARR_PUSH_ARR (int64_t, va, tmp, (size_t) na);
    printf ("ok");
  } else if ((!strcmp (cmd, "vpop") || !strcmp (cmd, "vlast")) && na == 0) {
    int pop = !strcmp (cmd, "vpop");
    int64_t v = 0;
    if (ref_n == 0 && !CHECKED) {
      printf ("rej");
      ann (" skipped");
      endline ();
      return;
    }
    if (pop)
      GUARDED (v = VARR_POP (int64_t, va), rej);
    else
      GUARDED (v = VARR_LAST (int64_t, va), rej);
    if (rej != (ref_n == 0)) ann (" REFBAD reject");
    if (rej) {
      printf ("rej");
      endline ();
      return;
    }
    if (ref_n > 0) {
      pval (ref_n - 1, v);
      if (ref_known[ref_n - 1] && v != ref_v[ref_n - 1]) ann (" REFBAD value");
      if (pop) ref_n--;
    } else
      printf ("?");
  } else if (!strcmp (cmd, "vget") && na == 1 && arg[0] >= 0) {
    int64_t v = 0;
    size_t ix = arg[0];
    if (ix >= ref_n && !CHECKED) {
      printf ("rej");
      ann (" skipped");
      endline ();
      return;
    }
    GUARDED (v = VARR_GET (int64_t, va, ix), rej);
    if (rej != (ix >= ref_n)) ann (" REFBAD reject");
    if (rej) {
      printf ("rej");
      endline ();
      return;
    }
    if (ix < ref_n) {
      pval (ix, v);
      if (ref_known[ix] && v != ref_v[ix]) ann (" REFBAD value");
    } else
      printf ("?");
  } else if (!strcmp (cmd, "vset") && na == 2 && arg[0] >= 0) {
    size_t ix = arg[0];
    if (ix >= ref_n && !CHECKED) {
      printf ("rej");
      ann (" skipped");
      endline ();
      return;
    }
    GUARDED (VARR_SET (int64_t, va, ix, (int64_t) arg[1]), rej);
    if (rej != (ix >= ref_n)) ann (" REFBAD reject");
    if (rej) {
      printf ("rej");
      endline ();
      return;
    }
    if (ix < ref_n) {
      ref_v[ix] = arg[1];
      ref_known[ix] = 1;
    }
    printf ("ok");
  } else if (!strcmp (cmd, "vtrunc") && na == 1 && arg[0] >= 0) {
    size_t n = arg[0];
    if (n > ref_n && !CHECKED) {
      printf ("rej");
      ann (" skipped");
      endline ();
      return;
    }
    GUARDED (VARR_TRUNC (int64_t, va, n), rej);
    if (rej != (n > ref_n)) ann (" REFBAD reject");
    if (rej) {
      printf ("rej");
      endline ();
      return;
    }
    if (n <= ref_n) ref_n = n;
    printf ("ok");
  } else if (!strcmp (cmd, "vexpand") && na == 1 && arg[0] >= 0) {
    size_t n = arg[0], oldcap = VARR_CAPACITY (int64_t, va);
    int r;
    if (n >= MAXV) goto err;
    r = VARR_EXPAND (int64_t, va, n);
    printf ("pol:%d", r != 0);
    if ((r != 0) != (oldcap < n) || VARR_CAPACITY (int64_t, va) < n) ann (" REFBAD expand");
  } else if (!strcmp (cmd, "vtailor") && na == 1 && arg[0] >= 0) {
    size_t n = arg[0];
    /* n == 0: realloc (p, 0) returns NULL on glibc, after which every checked VARR call asserts on
       `varr->varr`; tailoring to zero is treated as outside the domain (never generated) */
    if (n >= MAXV || n == 0) goto err;
    VARR_TAILOR (int64_t, va, n);
    for (i = ref_n; i < n; i++) ref_known[i] = 0;
    ref_n = n;
    if (VARR_CAPACITY (int64_t, va) != n) ann (" REFBAD capacity");
    printf ("ok");
  } else if (!strcmp (cmd, "vlen") && na == 0) {
    printf ("%zu", VARR_LENGTH (int64_t, va));
  } else if (!strcmp (cmd, "vdump") && na == 0) {
    size_t n = VARR_LENGTH (int64_t, va), k = 0;
    int64_t el;
    printf ("n=%zu els=", n);
    if (n != ref_n) ann (" REFBAD length");
    VARR_FOREACH_ELEM (int64_t, va, k, el) {
      if (k) printf (",");
      if (k < ref_n) {
        pval (k, el);
        if (ref_known[k] && el != ref_v[k]) ann (" REFBAD element %zu", k);
      } else
        printf ("!");
    }
    printf (" pol:%zu", VARR_CAPACITY (int64_t, va));
    if (VARR_CAPACITY (int64_t, va) < n) ann (" REFBAD capacity");
    endline ();
    return;
  } else
    goto err;
  printf (" n=%zu", VARR_LENGTH (int64_t, va));
  if (VARR_LENGTH (int64_t, va) != ref_n) ann (" REFBAD length");
  if (VARR_CAPACITY (int64_t, va) < VARR_LENGTH (int64_t, va)) ann (" REFBAD capacity");
  endline ();
  return;
err:
  printf ("err\n");
}

/* ---------------------------------------------------------------- DLIST */
typedef struct node *node_t;
DEF_DLIST_LINK (node_t);
struct node {
  int id;
  DLIST_LINK (node_t) link;
};
DEF_DLIST (node_t, link);
#define MAXN 64
static struct node nodes[MAXN];
static DLIST (node_t) list;
static int nn = 0;
static int ref_l[MAXN + 1], ref_ln = 0;

static int ref_pos (int e) {
  int i;
  for (i = 0; i < ref_ln; i++)
    if (ref_l[i] == e) return i;
  return -1;
}
static void ref_insert_at (int pos, int e) {
  int i;
  for (i = ref_ln; i > pos; i--) ref_l[i] = ref_l[i - 1];
  ref_l[pos] = e;
  ref_ln++;
}
static void ref_remove_at (int pos) {
  int i;
  for (i = pos; i + 1 < ref_ln; i++) ref_l[i] = ref_l[i + 1];
  ref_ln--;
}
static void pid (node_t n) {
  if (n == NULL)
    printf ("-");
  else
    printf ("%d", n->id);
}
/* returns 1 if the forward traversal ends within nn nodes */
static int dump_list (void) {
  node_t e;
  int k, ok = 1, bad = 0;
  printf ("f=");
  for (k = 0, e = DLIST_HEAD (node_t, list); e != NULL && k <= nn; e = DLIST_NEXT (node_t, e), k++) {
    printf ("%s%d", k ? "," : "", e->id);
    if (k >= ref_ln || ref_l[k] != e->id) bad = 1;
  }
  if (k != ref_ln) bad = 1;
  if (e != NULL) ok = 0;
  printf (" b=");
  for (k = 0, e = DLIST_TAIL (node_t, list); e != NULL && k <= nn; e = DLIST_PREV (node_t, e), k++) {
    printf ("%s%d", k ? "," : "", e->id);
    if (k >= ref_ln || ref_l[ref_ln - 1 - k] != e->id) bad = 1;
  }
  if (k != ref_ln) bad = 1;
  printf (" h=");
  pid (DLIST_HEAD (node_t, list));
  printf (" t=");
  pid (DLIST_TAIL (node_t, list));
  if (bad) ann (" REFBAD list");
  return ok;
}

static void dlist_cmd (const char *cmd, long *arg, int na) {
  int rej = 0, i, valid;
  if (strcmp (cmd, "lel"))
    for (i = 0; i < na; i++)
      if (arg[i] < 0 || arg[i] >= nn) goto err;
  if ((!strcmp (cmd, "lpre") || !strcmp (cmd, "lapp")) && na == 1) {
    int e = arg[0], pre = !strcmp (cmd, "lpre");
    valid = ref_pos (e) < 0;
    if (!valid) goto err; /* undetected misuse: outside the specification, never generated */
    if (pre)
      GUARDED (DLIST_PREPEND (node_t, list, &nodes[e]), rej);
    else
      GUARDED (DLIST_APPEND (node_t, list, &nodes[e]), rej);
    if (rej) ann (" REFBAD reject");
    if (!rej) ref_insert_at (pre ? 0 : ref_ln, e);
  } else if ((!strcmp (cmd, "lib") || !strcmp (cmd, "lia")) && na == 2) {
    int anchor = arg[0], e = arg[1], before = !strcmp (cmd, "lib"), pos = ref_pos (anchor);
    if (ref_pos (e) >= 0 || anchor == e) goto err; /* undetected misuse */
    valid = pos >= 0;
    if (!valid && !CHECKED) {
      printf ("rej ");
      dump_list ();
      ann (" skipped");
      endline ();
      return;
    }
    if (before)
      GUARDED (DLIST_INSERT_BEFORE (node_t, list, &nodes[anchor], &nodes[e]), rej);
    else
      GUARDED (DLIST_INSERT_AFTER (node_t, list, &nodes[anchor], &nodes[e]), rej);
    if (rej == valid) ann (" REFBAD reject");
    if (!rej && valid) ref_insert_at (before ? pos : pos + 1, e);
  } else if (!strcmp (cmd, "lrm") && na == 1) {
    int e = arg[0], pos = ref_pos (e);
    valid = pos >= 0;
    if (!valid && !CHECKED) {
      printf ("rej ");
      dump_list ();
      ann (" skipped");
      endline ();
      return;
    }
    GUARDED (DLIST_REMOVE (node_t, list, &nodes[e]), rej);
    if (rej == valid) ann (" REFBAD reject");
    if (!rej && valid) {
      ref_remove_at (pos);
      if (DLIST_PREV (node_t, &nodes[e]) != NULL || DLIST_NEXT (node_t, &nodes[e]) != NULL)
        ann (" REFBAD removed-links");
    }
  } else if (!strcmp (cmd, "lel") && na == 1) {
    int n = (int) arg[0], exp;
    node_t r = DLIST_EL (node_t, list, n);
    exp = n >= 0 ? (n < ref_ln ? ref_l[n] : -1) : (-n - 1 < ref_ln ? ref_l[ref_ln + n] : -1);
    pid (r);
    if ((r == NULL ? -1 : r->id) != exp) ann (" REFBAD value");
    endline ();
    return;
  } else if (!strcmp (cmd, "llen") && na == 0) {
    node_t e;
    int k;
    for (k = 0, e = DLIST_HEAD (node_t, list); e != NULL && k <= nn; e = DLIST_NEXT (node_t, e), k++)
      ;
    if (e != NULL) {
      printf ("LOOP");
      ann (" REFBAD cyclic");
    } else {
      size_t r = DLIST_LENGTH (node_t, list);
      printf ("%zu", r);
      if (r != (size_t) ref_ln) ann (" REFBAD value");
    }
    endline ();
    return;
  } else if (!strcmp (cmd, "lpn") && na == 1) {
    pid (DLIST_PREV (node_t, &nodes[arg[0]]));
    printf (" ");
    pid (DLIST_NEXT (node_t, &nodes[arg[0]]));
    endline ();
    return;
  } else if (!strcmp (cmd, "ldump") && na == 0) {
    dump_list ();
    endline ();
    return;
  } else
    goto err;
  printf (rej ? "rej " : "ok ");
  dump_list ();
  endline ();
  return;
err:
  printf ("err\n");
}

/* ---------------------------------------------------------------- main */
static void reset (int b, size_t vsz, int n) {
  int i;
  for (i = 0; i < nbm; i++) bitmap_destroy (bm[i]);
  if (va != NULL) VARR_DESTROY (int64_t, va);
  nbm = b;
  for (i = 0; i < nbm; i++) bm[i] = bitmap_create (&default_alloc);
  memset (refw, 0, sizeof (refw));
  VARR_CREATE (int64_t, va, &default_alloc, vsz);
  ref_n = 0;
  nn = n;
  for (i = 0; i < MAXN; i++) {
    nodes[i].id = i;
    nodes[i].link.prev = nodes[i].link.next = NULL;
  }
  DLIST_INIT (node_t, list);
  ref_ln = 0;
}

int main (void) {
  static char line[4096];
  signal (SIGABRT, on_abort);
  /* the check re-runs a script whose run died with C19_LINEBUF=1, so that the output ends exactly at
     the call that died (a sanitizer _exit()s without flushing stdio) */
  if (getenv ("C19_LINEBUF") != NULL) setvbuf (stdout, NULL, _IOLBF, 0);
  reset (4, 0, 8);
  while (fgets (line, sizeof (line), stdin) != NULL) {
    char *tok[80], *p;
    long arg[80];
    int nt = 0, i, bad = 0;
    for (p = strtok (line, " \t\r\n"); p != NULL && nt < 80; p = strtok (NULL, " \t\r\n")) tok[nt++] = p;
    if (nt == 0) {
      printf ("err\n");
      continue;
    }
    for (i = 1; i < nt; i++) {
      char *end;
      arg[i - 1] = strtol (tok[i], &end, 10);
      if (*end != 0) bad = 1;
    }
    if (bad) {
      printf ("err\n");
    } else if (!strcmp (tok[0], "R")) {
      if (nt != 4 || arg[0] < 0 || arg[0] > MAXBM || arg[1] < 0 || arg[1] > 4096 || arg[2] < 0
          || arg[2] > MAXN)
        printf ("err\n");
      else {
        reset ((int) arg[0], (size_t) arg[1], (int) arg[2]);
        printf ("ok\n");
      }
    } else if (!strcmp (tok[0], "variant")) {
      /* which flag semantics the header has is *measured*, by the witness of defect #7 */
      bitmap_t d = bitmap_create (&default_alloc), e = bitmap_create (&default_alloc);
      int f;
      bitmap_set_bit_p (d, 130);
      f = bitmap_and (d, e, e);
      printf ("%s\n", f ? "fixed" : "current");
      bitmap_destroy (d);
      bitmap_destroy (e);
    } else if (tok[0][0] == 'b')
      bitmap_cmd (tok[0], arg, nt - 1);
    else if (tok[0][0] == 'v')
      varr_cmd (tok[0], arg, nt - 1);
    else if (tok[0][0] == 'l')
      dlist_cmd (tok[0], arg, nt - 1);
    else
      printf ("err\n");
  }
  reset (0, 0, 0);
  VARR_DESTROY (int64_t, va);
  return 0;
}
