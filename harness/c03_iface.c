/* C03 T3 harness: the same multi-module MIR program linked under every execution interface.

   Extends the shared multi-engine executor harness/engine.c (included below, its `main` renamed):
   engines interp, interpc, gen0-3, lazy0-3, bb0-3, externals ext0..extp with call log, `prog`.
   Added here:
     * externals that re-enter MIR through a function's public address (native callbacks):
         extcb  (fp, a, b, x)   calls fp (a, b, x) twice              [fp : i64 (i64, i64, d)]
         extcbw (fp, s)         calls fp with 8 integer and 9 double arguments derived from s
         exttab (tab, n, a, x)  calls every entry of a table of function addresses
     * every context allocates through an allocator that clobbers all caller-saved registers on
       every malloc/calloc/realloc/free (any C callee may do so): a wrapper, shim or stub that
       fails to preserve a live register around the generator/interpreter shows up as a wrong result;
     * engines mix<x><y><level>, x, y in {i,g,l,b}: ONE link whose set_interface callback gives the functions
       of modules named ...a the interface x (interp/gen/lazy/bb) and all other functions interface y;
     * plan commands
         addrs                 item->addr of every function vs the value recorded after the link,
                               per engine: `A <engine> <n> same` | `A <engine> <n> CHANGED <names>`
         callh <f> <a> <b> <xbits>   C call of a helper-signature function through item->addr
         wide <f> <seed>       C call of a wide-signature function (8 x i64, 9 x d) through item->addr
         callb <f> <ni> <nf> <cls> <size> <seed>
                               C call, through item->addr, of  f (ni x i64, nf x d, BLOCK by value, i64, d)  where the
                               block has MIR type blk+cls (cls 0..4) or rblk (cls 5) and <size> bytes.  The caller is
                               this harness: it places the arguments itself according to the System V ABI
                               (c03_call_abi), independently of MIR; engine `interp` uses MIR_interp_arr
         callm <f> <t1,t2[,t3]> <a> <b> <xbits>
                               C call, through item->addr, of a MULTI-RESULT function  f (i64, i64, d) -> (t1, t2[, t3]);
                               the harness reads rax:rdx, xmm0:xmm1, st(0):st(1) itself (c03_call_ret) and hashes the
                               results in order, each truncated to its type; engine `interp` uses MIR_interp_arr
         callx <f> <s1> <s2> <a> <b>
                               C call of a helper-signature function that passes one buffer as blk:<s1> and then as
                               blk:<s2> to the native callees extb<s1>, extb<s2> (prototypes differing only in the block
                               size).  The harness computes the expected value itself in C (`ref:`): an engine that
                               differs from it is wrong whatever the others do
     Usage and the `prog` command are those of engine.c. */
#define _GNU_SOURCE
#include <stdio.h>
#include <stdlib.h>
#include <string.h>
#include <stdint.h>
#include "mir.h"
#include "mir-gen.h"

extern void c03_trash (void), c03_trash_lo (void), c03_trash_hi (void);
static void no_trash (void) {}
/* C03_TRASH=all|lo|hi|none: which caller-saved registers the allocator clobbers (default all; lo = all
   except xmm8-15, hi = only xmm8-15: finding C03:bb-wrapper-xmm8-15, fixed, regression corpus/C03/kf-bb-xmm8) */
static void (*trash) (void) = c03_trash;
static void *t_malloc (size_t n, void *ud) { void *p = malloc (n); (void) ud; trash (); return p; }
static void *t_calloc (size_t n, size_t s, void *ud) { void *p = calloc (n, s); (void) ud; trash (); return p; }
static void *t_realloc (void *q, size_t o, size_t n, void *ud) { void *p = realloc (q, n); (void) ud; (void) o; trash (); return p; }
static void t_free (void *p, void *ud) { (void) ud; free (p); trash (); }
static struct MIR_alloc trash_alloc = {t_malloc, t_calloc, t_realloc, t_free, NULL};

static MIR_context_t c03_init (void) { return MIR_init2 (&trash_alloc, NULL); }

static void c03_logcall (int id, int64_t a, int64_t b, int64_t c, int64_t d);
static uint64_t c03_mix (uint64_t h, uint64_t v) {
  h ^= v + 0x9e3779b97f4a7c15ull + (h << 6) + (h >> 2);
  return h;
}

typedef int64_t (*helper_t) (int64_t, int64_t, double);
typedef int64_t (*wide_t) (int64_t, int64_t, int64_t, int64_t, int64_t, int64_t, int64_t, int64_t, double, double,
                           double, double, double, double, double, double, double);

int64_t extcb (helper_t fp, int64_t a, int64_t b, double x) {
  c03_logcall (8, a, b, 0, 0);
  int64_t r1 = fp (a, b, x);
  int64_t r2 = fp (b ^ 5, r1, x + 0.5);
  c03_logcall (9, r1, r2, 0, 0);
  return (int64_t) c03_mix ((uint64_t) r1, (uint64_t) r2);
}

static int64_t call_wide (wide_t fp, int64_t s) {
  uint64_t h = (uint64_t) s;
  int64_t a[8];
  double x[9];
  for (int i = 0; i < 8; i++) { h = c03_mix (h, (uint64_t) i + 11); a[i] = (int64_t) h; }
  for (int i = 0; i < 9; i++) { h = c03_mix (h, (uint64_t) i + 29); x[i] = (double) (int64_t) (h % 2000003) * 0.25 - 1000.0 * i; }
  return fp (a[0], a[1], a[2], a[3], a[4], a[5], a[6], a[7], x[0], x[1], x[2], x[3], x[4], x[5], x[6], x[7], x[8]);
}

int64_t extcbw (wide_t fp, int64_t s) {
  c03_logcall (10, s, 0, 0, 0);
  int64_t r = call_wide (fp, s);
  c03_logcall (11, r, 0, 0, 0);
  return r;
}

int64_t exttab (helper_t *tab, int64_t n, int64_t a, double x) {
  int64_t r = 0;
  c03_logcall (12, n, a, 0, 0);
  for (int64_t i = 0; i < n; i++) r = (int64_t) c03_mix ((uint64_t) r, (uint64_t) tab[i](a + i, r, x));
  c03_logcall (13, r, 0, 0, 0);
  return r;
}

/* mixed engines `mix<x><y><level>` (x, y in i g l b): one MIR_link whose set_interface callback gives
   the functions of modules named ...a interface x and all others interface y */
static char mix_cur[2];
static void (*iface_of (char c)) (MIR_context_t, MIR_item_t) {
  return c == 'i' ? MIR_set_interp_interface : c == 'g' ? MIR_set_gen_interface : c == 'l' ? MIR_set_lazy_gen_interface
                                                                                            : MIR_set_lazy_bb_gen_interface;
}
static void mix_iface (MIR_context_t ctx, MIR_item_t item) {
  if (item == NULL) {
    iface_of (mix_cur[0]) (ctx, NULL);
    if (mix_cur[1] != mix_cur[0]) iface_of (mix_cur[1]) (ctx, NULL);
    return;
  }
  const char *mn = item->module->name;
  size_t n = strlen (mn);
  iface_of (n > 0 && mn[n - 1] == 'a' ? mix_cur[0] : mix_cur[1]) (ctx, item);
}

/* native callees taking a MEMORY-class block by value: extb<N> (struct of N bytes, tag) */
#define DEFB(N)                                                       \
  struct cb##N { uint64_t w[N / 8]; };                                \
  int64_t extb##N (struct cb##N s, int64_t tag) {                     \
    uint64_t h = (uint64_t) tag;                                      \
    for (int i = 0; i < N / 8; i++) h = c03_mix (h, s.w[i]);          \
    c03_logcall (14, N, (int64_t) h, 0, 0);                           \
    return (int64_t) h;                                               \
  }
DEFB (24) DEFB (40) DEFB (56) DEFB (72)

static void c03_link (MIR_context_t ctx, void (*set_interface) (MIR_context_t ctx, MIR_item_t item),
                      void *import_resolver (const char *)) {
  MIR_load_external (ctx, "extcb", extcb);
  MIR_load_external (ctx, "extcbw", extcbw);
  MIR_load_external (ctx, "exttab", exttab);
  MIR_load_external (ctx, "extb24", extb24);
  MIR_load_external (ctx, "extb40", extb40);
  MIR_load_external (ctx, "extb56", extb56);
  MIR_load_external (ctx, "extb72", extb72);
  MIR_link (ctx, mix_cur[0] != 0 ? mix_iface : set_interface, import_resolver);
}

#define MIR_link c03_link
#define MIR_init c03_init
#define main engine_main_unused
#include "engine.c"
#undef main
#undef MIR_init
#undef MIR_link

static void c03_logcall (int id, int64_t a, int64_t b, int64_t c, int64_t d) { logcall (id, a, b, c, d); }

/* ---------------- public addresses ---------------- */
#define MAXFUNCS 256
static void *addr0[MAXENG][MAXFUNCS];
static int naddr0[MAXENG];

static void do_addrs (void) {
  for (int k = 0; k < neng; k++) {
    int n = 0, changed = 0;
    char names[400];
    names[0] = 0;
    for (MIR_module_t m = DLIST_HEAD (MIR_module_t, *MIR_get_module_list (engs[k].ctx)); m != NULL; m = DLIST_NEXT (MIR_module_t, m))
      for (MIR_item_t it = DLIST_HEAD (MIR_item_t, m->items); it != NULL; it = DLIST_NEXT (MIR_item_t, it))
        if (it->item_type == MIR_func_item && n < MAXFUNCS) {
          if (n >= naddr0[k]) { addr0[k][n] = it->addr; naddr0[k] = n + 1; }
          const unsigned char *t = it->addr;
          int bad = it->addr != addr0[k][n] || it->addr == NULL || !(t[0] == 0xe9 || (t[0] == 0x49 && t[1] == 0xbb));
          if (bad) {
            changed++;
            if (strlen (names) + strlen (it->u.func->name) + 2 < sizeof (names)) { strcat (names, " "); strcat (names, it->u.func->name); }
          }
          n++;
        }
    if (changed) printf ("A %s %d CHANGED%s\n", engs[k].name, n, names);
    else printf ("A %s %d same\n", engs[k].name, n);
  }
}

/* ---------------- C calls with other signatures ---------------- */
static void print_cmp (const char *tag, const char *fname, const char *args, int64_t *rs, int *sgs, int *nlogs,
                       int64_t logs[][MAXLOG][6]) {
  int same = 1;
  for (int k = 1; k < neng; k++)
    if (sgs[k] != sgs[0] || rs[k] != rs[0] || nlogs[k] != nlogs[0]
        || memcmp (logs[k], logs[0], sizeof (logbuf[0]) * nlogs[0]) != 0)
      same = 0;
  printf ("%s %s %s |", tag, fname, args);
  if (same) {
    if (sgs[0]) printf (" =!SIG%d\n", sgs[0]); else printf (" =%llx log%d\n", (unsigned long long) rs[0], nlogs[0]);
    return;
  }
  for (int k = 0; k < neng; k++) {
    int s = sgs[k] == sgs[0] && rs[k] == rs[0] && nlogs[k] == nlogs[0] && memcmp (logs[k], logs[0], sizeof (logbuf[0]) * nlogs[0]) == 0;
    if (sgs[k]) printf (" !SIG%d", sgs[k]); else printf (" %llx%s", (unsigned long long) rs[k], s ? "" : "*");
  }
  printf ("\n");
  for (int k = 0; k < neng; k++) {
    printf ("L %s %s", fname, engs[k].name);
    for (int i = 0; i < nlogs[k]; i++)
      printf (" %lld:%llx,%llx", (long long) logs[k][i][0], (unsigned long long) logs[k][i][1], (unsigned long long) logs[k][i][2]);
    printf ("\n");
  }
}

static int64_t c_logs[MAXENG][MAXLOG][6];

static void do_callh (const char *fname, uint64_t a, uint64_t b, uint64_t xb) {
  int64_t rs[MAXENG]; int sgs[MAXENG], nlogs[MAXENG];
  for (int k = 0; k < neng; k++) {
    MIR_item_t fi = find_func (engs[k].ctx, fname);
    if (fi == NULL) { printf ("E no-func %s\n", fname); return; }
    nlog = 0; rs[k] = 0;
    int sg;
    in_call = 1; alarm (4);
    if ((sg = sigsetjmp (crash_env, 1)) == 0) {
      if (engs[k].kind == E_INTERP) {
        MIR_val_t v[3], r[1];
        memset (v, 0, sizeof (v)); memset (r, 0, sizeof (r));
        v[0].i = (int64_t) a; v[1].i = (int64_t) b; v[2].d = b2d (xb);
        MIR_interp_arr (engs[k].ctx, fi, r, 3, v);
        rs[k] = r[0].i;
      } else
        rs[k] = ((helper_t) fi->addr) ((int64_t) a, (int64_t) b, b2d (xb));
    }
    alarm (0); in_call = 0;
    sgs[k] = sg; nlogs[k] = nlog;
    memcpy (c_logs[k], logbuf, sizeof (logbuf[0]) * nlog);
  }
  char args[100];
  snprintf (args, sizeof (args), "%llx %llx %llx", (unsigned long long) a, (unsigned long long) b, (unsigned long long) xb);
  print_cmp ("H", fname, args, rs, sgs, nlogs, c_logs);
}

static void do_wide (const char *fname, uint64_t seed) {
  int64_t rs[MAXENG]; int sgs[MAXENG], nlogs[MAXENG];
  for (int k = 0; k < neng; k++) {
    MIR_item_t fi = find_func (engs[k].ctx, fname);
    if (fi == NULL) { printf ("E no-func %s\n", fname); return; }
    nlog = 0; rs[k] = 0;
    int sg;
    in_call = 1; alarm (4);
    if ((sg = sigsetjmp (crash_env, 1)) == 0) {
      if (engs[k].kind == E_INTERP) {
        /* same argument derivation as call_wide */
        uint64_t h = seed;
        MIR_val_t v[17], r[1];
        memset (v, 0, sizeof (v)); memset (r, 0, sizeof (r));
        for (int i = 0; i < 8; i++) { h = c03_mix (h, (uint64_t) i + 11); v[i].i = (int64_t) h; }
        for (int i = 0; i < 9; i++) { h = c03_mix (h, (uint64_t) i + 29); v[8 + i].d = (double) (int64_t) (h % 2000003) * 0.25 - 1000.0 * i; }
        MIR_interp_arr (engs[k].ctx, fi, r, 17, v);
        rs[k] = r[0].i;
      } else
        rs[k] = call_wide ((wide_t) fi->addr, (int64_t) seed);
    }
    alarm (0); in_call = 0;
    sgs[k] = sg; nlogs[k] = nlog;
    memcpy (c_logs[k], logbuf, sizeof (logbuf[0]) * nlog);
  }
  char args[40];
  snprintf (args, sizeof (args), "%llx", (unsigned long long) seed);
  print_cmp ("W", fname, args, rs, sgs, nlogs, c_logs);
}

/* ---------------- by-value block arguments, System V placement done here ---------------- */
extern int64_t c03_call_abi (void *fn, const uint64_t *gp, const double *xmm, const uint64_t *stk, uint64_t nstk);

/* fields of the block (must agree with checks/c03_gen.py block_fields): kind 0 = i64, 1 = i32, 2 = d */
static int block_fields (int cls, int size, int off[8], int kind[8]) {
  int n = 0;
  if (cls == 0 || cls == 5) {
    for (int o = 0; o + 8 <= size; o += 8) { off[n] = o; kind[n++] = 0; }
  } else if (cls == 1) {
    off[n] = 0; kind[n++] = 0;
    if (size == 12) { off[n] = 8; kind[n++] = 1; }
    if (size == 16) { off[n] = 8; kind[n++] = 0; }
  } else if (cls == 2) {
    off[n] = 0; kind[n++] = 2;
    if (size == 16) { off[n] = 8; kind[n++] = 2; }
  } else if (cls == 3) {
    off[0] = 0; kind[0] = 0; off[1] = 8; kind[1] = 2; n = 2;
  } else {
    off[0] = 0; kind[0] = 2; off[1] = 8; kind[1] = 0; n = 2;
  }
  return n;
}

static void do_callb (const char *fname, int ni, int nf, int cls, int size, uint64_t seed) {
  int64_t rs[MAXENG]; int sgs[MAXENG], nlogs[MAXENG];
  uint64_t h = seed, ia[8], g;
  double xa[10], y;
  uint64_t blk[8];
  int off[8], kind[8], nfld;
  if (ni < 0 || ni > 7 || nf < 0 || nf > 9 || cls < 0 || cls > 5 || size < 8 || size > 48) { printf ("E bad-callb\n"); return; }
  for (int i = 0; i < ni; i++) { h = c03_mix (h, (uint64_t) i + 3); ia[i] = h; }
  for (int i = 0; i < nf; i++) { h = c03_mix (h, (uint64_t) i + 41); xa[i] = (double) (int64_t) (h % 1000003) * 0.25 - 500.0 * i; }
  h = c03_mix (h, 77); g = h;
  h = c03_mix (h, 78); y = (double) (int64_t) (h % 1000003) * 0.25;
  memset (blk, 0, sizeof (blk));
  nfld = block_fields (cls, size, off, kind);
  for (int i = 0; i < nfld; i++) {
    h = c03_mix (h, (uint64_t) i + 91);
    if (kind[i] == 0) { memcpy ((char *) blk + off[i], &h, 8); }
    else if (kind[i] == 1) { uint32_t w = (uint32_t) h; memcpy ((char *) blk + off[i], &w, 4); }
    else { double d = (double) (int64_t) (h % 1000003) * 0.25 + 7.0 * i; memcpy ((char *) blk + off[i], &d, 8); }
  }
  /* System V placement */
  uint64_t gp[6], stk[40];
  double xmm[8];
  int ngp = 0, nxmm = 0, nstk = 0, nw = (size + 7) / 8, rblk_gp = -1, rblk_stk = -1;
  memset (gp, 0, sizeof (gp)); memset (xmm, 0, sizeof (xmm)); memset (stk, 0, sizeof (stk));
  for (int i = 0; i < ni; i++) { if (ngp < 6) gp[ngp++] = ia[i]; else stk[nstk++] = ia[i]; }
  for (int i = 0; i < nf; i++) { if (nxmm < 8) xmm[nxmm++] = xa[i]; else memcpy (&stk[nstk++], &xa[i], 8); }
  if (cls == 5) { /* the address, as an INTEGER argument: filled per engine below */
    if (ngp < 6) rblk_gp = ngp++; else rblk_stk = nstk++;
  } else if (cls == 1 && ngp + nw <= 6) {
    for (int w = 0; w < nw; w++) gp[ngp++] = blk[w];
  } else if (cls == 2 && nxmm + nw <= 8) {
    for (int w = 0; w < nw; w++) memcpy (&xmm[nxmm++], &blk[w], 8);
  } else if (cls == 3 && ngp < 6 && nxmm < 8) {
    gp[ngp++] = blk[0]; memcpy (&xmm[nxmm++], &blk[1], 8);
  } else if (cls == 4 && ngp < 6 && nxmm < 8) {
    memcpy (&xmm[nxmm++], &blk[0], 8); gp[ngp++] = blk[1];
  } else { /* MEMORY */
    for (int w = 0; w < nw; w++) stk[nstk++] = blk[w];
  }
  if (ngp < 6) gp[ngp++] = g; else stk[nstk++] = g;
  if (nxmm < 8) xmm[nxmm++] = y; else memcpy (&stk[nstk++], &y, 8);
  for (int k = 0; k < neng; k++) {
    MIR_item_t fi = find_func (engs[k].ctx, fname);
    if (fi == NULL) { printf ("E no-func %s\n", fname); return; }
    uint64_t copy[8];
    memcpy (copy, blk, sizeof (blk));
    nlog = 0; rs[k] = 0;
    int sg;
    in_call = 1; alarm (4);
    if ((sg = sigsetjmp (crash_env, 1)) == 0) {
      if (engs[k].kind == E_INTERP) {
        MIR_val_t v[24], r[1];
        int n = 0;
        memset (v, 0, sizeof (v)); memset (r, 0, sizeof (r));
        for (int i = 0; i < ni; i++) v[n++].i = (int64_t) ia[i];
        for (int i = 0; i < nf; i++) v[n++].d = xa[i];
        v[n++].a = copy;
        v[n++].i = (int64_t) g;
        v[n++].d = y;
        MIR_interp_arr (engs[k].ctx, fi, r, n, v);
        rs[k] = r[0].i;
      } else {
        if (rblk_gp >= 0) gp[rblk_gp] = (uint64_t) (uintptr_t) copy;
        if (rblk_stk >= 0) stk[rblk_stk] = (uint64_t) (uintptr_t) copy;
        rs[k] = c03_call_abi (fi->addr, gp, xmm, stk, nstk);
      }
      if (cls == 5) rs[k] = (int64_t) c03_mix ((uint64_t) rs[k], copy[0]); /* what the callee stored into the block */
    }
    alarm (0); in_call = 0;
    sgs[k] = sg; nlogs[k] = nlog;
    memcpy (c_logs[k], logbuf, sizeof (logbuf[0]) * nlog);
  }
  char args[100];
  snprintf (args, sizeof (args), "%d %d %d %d %llx", ni, nf, cls, size, (unsigned long long) seed);
  print_cmp ("B", fname, args, rs, sgs, nlogs, c_logs);
}

/* ---------------- block arguments of several sizes to native callees ---------------- */
static int64_t call_extb (int sz, const uint64_t *w, int64_t tag) {
  switch (sz) {
  case 24: { struct cb24 s; memcpy (&s, w, 24); return extb24 (s, tag); }
  case 40: { struct cb40 s; memcpy (&s, w, 40); return extb40 (s, tag); }
  case 56: { struct cb56 s; memcpy (&s, w, 56); return extb56 (s, tag); }
  default: { struct cb72 s; memcpy (&s, w, 72); return extb72 (s, tag); }
  }
}

static void do_callx (const char *fname, int s1, int s2, uint64_t a, uint64_t b) {
  int64_t rs[MAXENG]; int sgs[MAXENG], nlogs[MAXENG];
  uint64_t w[10];
  for (int i = 0; i < 10; i++) w[i] = (a + 1000003ull * (uint64_t) (i + 1)) ^ b; /* as checks/c03_gen.py xblk_func */
  nlog = 0;
  int64_t r1 = call_extb (s1, w, (int64_t) b), r2 = call_extb (s2, w, (int64_t) a);
  int64_t ref = (int64_t) (((uint64_t) r1 * 31) ^ (uint64_t) r2);
  for (int k = 0; k < neng; k++) {
    MIR_item_t fi = find_func (engs[k].ctx, fname);
    if (fi == NULL) { printf ("E no-func %s\n", fname); return; }
    nlog = 0; rs[k] = 0;
    int sg;
    in_call = 1; alarm (4);
    if ((sg = sigsetjmp (crash_env, 1)) == 0) {
      if (engs[k].kind == E_INTERP) {
        MIR_val_t v[3], r[1];
        memset (v, 0, sizeof (v)); memset (r, 0, sizeof (r));
        v[0].i = (int64_t) a; v[1].i = (int64_t) b; v[2].d = 0.0;
        MIR_interp_arr (engs[k].ctx, fi, r, 3, v);
        rs[k] = r[0].i;
      } else
        rs[k] = ((helper_t) fi->addr) ((int64_t) a, (int64_t) b, 0.0);
    }
    alarm (0); in_call = 0;
    sgs[k] = sg; nlogs[k] = nlog;
    memcpy (c_logs[k], logbuf, sizeof (logbuf[0]) * nlog);
  }
  int same = 1;
  for (int k = 0; k < neng; k++)
    if (sgs[k] || rs[k] != ref || nlogs[k] != nlogs[0] || memcmp (c_logs[k], c_logs[0], sizeof (logbuf[0]) * nlogs[0]) != 0) same = 0;
  printf ("X %s %d %d %llx %llx |", fname, s1, s2, (unsigned long long) a, (unsigned long long) b);
  if (same) { printf (" =%llx log%d\n", (unsigned long long) ref, nlogs[0]); return; }
  printf (" ref:%llx", (unsigned long long) ref);
  for (int k = 0; k < neng; k++) {
    if (sgs[k]) printf (" !SIG%d", sgs[k]);
    else printf (" %llx%s", (unsigned long long) rs[k], rs[k] == ref ? "" : "*");
  }
  printf ("\n");
}

/* ---------------- multiple results ---------------- */
struct c03_ret { uint64_t rax, rdx; double x0, x1; long double st0, st1; };
extern void c03_call_ret (void *fn, int64_t a, int64_t b, double x, struct c03_ret *o, int64_t nld);

static int res_type (const char *t) { /* 0 i64, 1 i32, 2 u32, 3 i16, 4 u16, 5 i8, 6 u8, 7 f, 8 d, 9 ld */
  static const char *n[] = {"i64", "i32", "u32", "i16", "u16", "i8", "u8", "f", "d", "ld"};
  for (int i = 0; i < 10; i++) if (!strcmp (t, n[i])) return i;
  return -1;
}
static uint64_t norm_int (int t, uint64_t v) {
  switch (t) {
  case 1: return (uint64_t) (int64_t) (int32_t) v;
  case 2: return (uint32_t) v;
  case 3: return (uint64_t) (int64_t) (int16_t) v;
  case 4: return (uint16_t) v;
  case 5: return (uint64_t) (int64_t) (int8_t) v;
  case 6: return (uint8_t) v;
  default: return v;
  }
}

static void do_callm (const char *fname, char *types, uint64_t a, uint64_t b, uint64_t xb) {
  int64_t rs[MAXENG]; int sgs[MAXENG], nlogs[MAXENG];
  int ts[4], nt = 0, nld = 0;
  char tcopy[64];
  snprintf (tcopy, sizeof (tcopy), "%s", types);
  for (char *t = strtok (types, ","); t != NULL && nt < 4; t = strtok (NULL, ",")) {
    if ((ts[nt] = res_type (t)) < 0) { printf ("E bad-callm-type %s\n", t); return; }
    if (ts[nt] == 9) nld++;
    nt++;
  }
  for (int k = 0; k < neng; k++) {
    MIR_item_t fi = find_func (engs[k].ctx, fname);
    if (fi == NULL) { printf ("E no-func %s\n", fname); return; }
    nlog = 0; rs[k] = 0;
    int sg;
    in_call = 1; alarm (4);
    if ((sg = sigsetjmp (crash_env, 1)) == 0) {
      uint64_t h = 99;
      if (engs[k].kind == E_INTERP) {
        MIR_val_t v[3], r[4];
        memset (v, 0, sizeof (v)); memset (r, 0, sizeof (r));
        v[0].i = (int64_t) a; v[1].i = (int64_t) b; v[2].d = b2d (xb);
        MIR_interp_arr (engs[k].ctx, fi, r, 3, v);
        for (int i = 0; i < nt; i++) {
          if (ts[i] <= 6) h = c03_mix (h, norm_int (ts[i], (uint64_t) r[i].i));
          else if (ts[i] == 7) { uint32_t w; memcpy (&w, &r[i].f, 4); h = c03_mix (h, w); }
          else if (ts[i] == 8) { uint64_t w; memcpy (&w, &r[i].d, 8); h = c03_mix (h, w); }
          else { double d = (double) r[i].ld; uint64_t w; memcpy (&w, &d, 8); h = c03_mix (h, w); }
        }
      } else {
        struct c03_ret o;
        int ii = 0, xi = 0, li = 0;
        memset (&o, 0, sizeof (o));
        c03_call_ret (fi->addr, (int64_t) a, (int64_t) b, b2d (xb), &o, nld);
        for (int i = 0; i < nt; i++) {
          if (ts[i] <= 6) h = c03_mix (h, norm_int (ts[i], ii++ == 0 ? o.rax : o.rdx));
          else if (ts[i] == 7) { uint32_t w; memcpy (&w, xi++ == 0 ? &o.x0 : &o.x1, 4); h = c03_mix (h, w); }
          else if (ts[i] == 8) { uint64_t w; memcpy (&w, xi++ == 0 ? &o.x0 : &o.x1, 8); h = c03_mix (h, w); }
          else { double d = (double) (li++ == 0 ? o.st0 : o.st1); uint64_t w; memcpy (&w, &d, 8); h = c03_mix (h, w); }
        }
      }
      rs[k] = (int64_t) h;
    }
    alarm (0); in_call = 0;
    sgs[k] = sg; nlogs[k] = nlog;
    memcpy (c_logs[k], logbuf, sizeof (logbuf[0]) * nlog);
  }
  char args[160];
  snprintf (args, sizeof (args), "%s %llx %llx %llx", tcopy, (unsigned long long) a, (unsigned long long) b, (unsigned long long) xb);
  print_cmp ("T", fname, args, rs, sgs, nlogs, c_logs);
}

int main (int argc, char **argv) {
  if (argc < 3) { fprintf (stderr, "usage: c03_iface <engines> <file.mir> [-q]\n"); return 2; }
  quiet = argc > 3 && !strcmp (argv[3], "-q");
  const char *tr = getenv ("C03_TRASH");
  if (tr != NULL) trash = !strcmp (tr, "all") ? c03_trash : !strcmp (tr, "hi") ? c03_trash_hi : !strcmp (tr, "none") ? no_trash : !strcmp (tr, "lo") ? c03_trash_lo : c03_trash;
  char *text = read_file (argv[2]);
  char *list = strdup (argv[1]);
  for (char *t = strtok (list, ","); t != NULL; t = strtok (NULL, ",")) {
    eng_t *e = &engs[neng++];
    strncpy (e->name, t, 15);
    if (!strcmp (t, "interp")) e->kind = E_INTERP;
    else if (!strcmp (t, "interpc")) e->kind = E_INTERPC;
    else if (!strncmp (t, "gen", 3)) { e->kind = E_GEN; e->level = t[3] - '0'; }
    else if (!strncmp (t, "lazy", 4)) { e->kind = E_LAZY; e->level = t[4] - '0'; }
    else if (!strncmp (t, "bb", 2)) { e->kind = E_BB; e->level = t[2] - '0'; }
    else if (!strncmp (t, "mix", 3) && strlen (t) == 6 && strchr ("iglb", t[3]) && strchr ("iglb", t[4])) {
      e->kind = E_LAZY; e->level = t[5] - '0'; /* load_all: MIR_gen_init + level + MIR_link -> c03_link -> mix_iface */
    } else { fprintf (stderr, "unknown engine %s\n", t); return 2; }
  }
  struct sigaction sa; memset (&sa, 0, sizeof (sa)); sa.sa_handler = on_sig; sa.sa_flags = SA_NODEFER;
  sigaction (SIGSEGV, &sa, NULL); sigaction (SIGFPE, &sa, NULL); sigaction (SIGILL, &sa, NULL);
  sigaction (SIGBUS, &sa, NULL); sigaction (SIGALRM, &sa, NULL); sigaction (SIGABRT, &sa, NULL);
  for (int k = 0; k < neng; k++) {
    mix_cur[0] = mix_cur[1] = 0;
    if (!strncmp (engs[k].name, "mix", 3)) { mix_cur[0] = engs[k].name[3]; mix_cur[1] = engs[k].name[4]; }
    load_all (&engs[k], text);
  }
  mix_cur[0] = mix_cur[1] = 0;
  printf ("H engines");
  for (int k = 0; k < neng; k++) printf (" %s", engs[k].name);
  printf ("\n");
  char *line = NULL; size_t cap = 0;
  while (getline (&line, &cap, stdin) > 0) {
    char *tok[16]; int nt = 0;
    for (char *t = strtok (line, " \t\n"); t != NULL && nt < 16; t = strtok (NULL, " \t\n")) tok[nt++] = t;
    if (nt == 0) continue;
    if (!strcmp (tok[0], "prog") && nt >= 8) {
      uint64_t iv[4], dv[2];
      for (int i = 0; i < 4; i++) iv[i] = strtoull (tok[2 + i], NULL, 16);
      for (int i = 0; i < 2; i++) dv[i] = strtoull (tok[6 + i], NULL, 16);
      do_prog (tok[1], iv, dv);
    } else if (!strcmp (tok[0], "addrs")) {
      do_addrs ();
    } else if (!strcmp (tok[0], "callh") && nt >= 5) {
      do_callh (tok[1], strtoull (tok[2], NULL, 16), strtoull (tok[3], NULL, 16), strtoull (tok[4], NULL, 16));
    } else if (!strcmp (tok[0], "wide") && nt >= 3) {
      do_wide (tok[1], strtoull (tok[2], NULL, 16));
    } else if (!strcmp (tok[0], "callx") && nt >= 6) {
      do_callx (tok[1], atoi (tok[2]), atoi (tok[3]), strtoull (tok[4], NULL, 16), strtoull (tok[5], NULL, 16));
    } else if (!strcmp (tok[0], "callm") && nt >= 6) {
      do_callm (tok[1], tok[2], strtoull (tok[3], NULL, 16), strtoull (tok[4], NULL, 16), strtoull (tok[5], NULL, 16));
    } else if (!strcmp (tok[0], "callb") && nt >= 7) {
      do_callb (tok[1], atoi (tok[2]), atoi (tok[3]), atoi (tok[4]), atoi (tok[5]), strtoull (tok[6], NULL, 16));
    } else
      printf ("E bad-line %s\n", tok[0]);
    fflush (stdout);
  }
  return 0;
}
