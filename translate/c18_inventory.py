#!/usr/bin/env python3
"""C18 T1 translator: inventory of every object with static storage duration in MIR's library
translation units that is not `const`, together with every WRITE site, from clang-14's typed AST.

    python3 translate/c18_inventory.py            # honours VERIF_REPO (default /repo)

writes  lean/MirVerif/Gen/C18_Inventory.lean   (definitions `Gen.C18.objects/sharedWrites/writeSites`)
and     lean/MirVerif/Gen/C18_Inventory.json   (same content + per-site details, read by checks/c18.py)

Translation units (the library code of the property): mir.c (includes mir-interp.c, mir-x86_64.c,
mir-alloc-default.c, mir-code-alloc-default.c), mir-gen.c (includes mir-gen-x86_64.c),
c2mir/c2mir.c (includes the x86_64 target files and the mirc_*.h string headers), mir2c/mir2c.c.

What is an inventory object: a VarDecl at file scope (any linkage) or a function-local VarDecl with
storage class `static`, declared in a file below the repository root, whose (desugared) type is not
const-qualified at the object level (arrays: the element type; pointers: the pointer itself, so
`static const char *p` is an object, `static const char *const p` is not).

What is a write site of object X (reported by the NAME OF THE ENCLOSING FUNCTION, never by line):
every DeclRefExpr to X is classified by walking up its parents --
  * through parentheses, `.member`, `[index]` (lvalue designating part of X) to
      `=` lhs / compound assignment lhs / ++ / --                  -> write  (assign|compound|incdec)
      lvalue-to-rvalue conversion                                   -> read
      sizeof/_Alignof                                               -> no access
      `&` or array-to-pointer decay                                 -> a pointer into X, followed
  * through casts, parentheses, pointer arithmetic, `?:`, `,` to its consumer
      `*p`, `p[i]`, `p->m`                                          -> lvalue again (continue above)
      argument of memset/memcpy/memmove/strcpy/sprintf/... (dest)   -> write  (mem-dest)
      argument whose parameter type points to non-const             -> write  (nonconst-arg:<callee>)
      argument whose parameter type points to const                 -> read
      comparison, pointer difference, conversion to bool/int        -> no access
      stored (initialiser, rhs of `=`, return, aggregate init) as pointer to non-const
                                                                    -> write  (addr-escape)
      stored as pointer to const                                    -> read   (const-escape)
  * anything not understood                                         -> write  (other:<node kind>)
so the classification errs on the side of reporting a write.  A use in the initialiser of another
file-scope object is attributed to the pseudo function `<file-scope>`.

Two further outputs:
  * calls from library code to libc functions documented MT-Unsafe because of process-wide state
    (`strtok`, `localtime`, `rand`, `setlocale`, ...; list LIBC_UNSAFE) become write sites of the
    pseudo object (`<libc>`, name) -- ThreadSanitizer cannot see into an uninstrumented libc;
  * `apiWrites`: for each harness phase (list API) the inventory objects with a write site reachable
    from the phase's entry points through the direct-call / address-taken graph (static functions
    are qualified by translation unit); used by checks/c18.py to give the model operations their
    predicted shared-write footprints.
Results are cached in /verif/.cache/c18inv keyed by the content of the sources and of this file.
"""
import hashlib, json, os, re, subprocess, sys, time
from concurrent.futures import ProcessPoolExecutor

VERIF = os.path.dirname(os.path.dirname(os.path.abspath(__file__)))
REPO = os.path.realpath(os.environ.get("VERIF_REPO", "/repo"))
GEN = os.path.join(VERIF, "lean", "MirVerif", "Gen")
TUS = ["mir.c", "mir-gen.c", "c2mir/c2mir.c", "mir2c/mir2c.c"]
MEM_DEST = {"memset": [0], "memcpy": [0], "memmove": [0], "strcpy": [0], "strncpy": [0], "strcat": [0],
            "strncat": [0], "sprintf": [0], "snprintf": [0], "vsprintf": [0], "vsnprintf": [0],
            "fread": [0], "fgets": [0], "read": [1], "qsort": [0], "bzero": [0], "stpcpy": [0],
            "__builtin_memset": [0], "__builtin_memcpy": [0], "__builtin_memmove": [0],
            "__builtin_strcpy": [0], "__builtin_sprintf": [0], "__builtin___memcpy_chk": [0],
            "__builtin___memset_chk": [0], "__builtin___strcpy_chk": [0], "__builtin___sprintf_chk": [0],
            "__builtin___snprintf_chk": [0], "scanf": [], "sscanf": []}


# libc entry points documented MT-Unsafe because they keep process-wide state (glibc manual, POSIX 2.9.1):
# a call from library code is reported as a write to the pseudo object (<libc>, name)
LIBC_UNSAFE = {"localtime", "gmtime", "ctime", "asctime", "strtok", "rand", "srand", "random", "srandom",
               "drand48", "lrand48", "mrand48", "srand48", "setlocale", "tmpnam", "tempnam", "ttyname", "readdir",
               "getpwnam", "getpwuid", "getgrnam", "getgrgid", "gethostbyname", "ecvt", "fcvt", "gcvt",
               "setenv", "putenv", "unsetenv", "getopt", "strsignal", "basename", "dirname", "crypt", "l64a",
               "ptsname", "getlogin", "mktemp", "signal"}


def object_is_const(t):
    s = t.get("desugaredQualType", t["qualType"])
    m = re.search(r"\(\*([^)\[]*)", s)          # (array of) pointer to function / to array
    if m:
        return "const" in m.group(1)
    s = re.sub(r"(\[[^\]]*\])+$", "", s).strip()
    if "*" in s:
        return "const" in s[s.rindex("*"):]
    return "const" in s.split()


def pointee_is_const(t):
    """t: type dict of a pointer-valued expression; True iff it points to a const-qualified type"""
    s = t.get("desugaredQualType", t["qualType"]).strip()
    m = re.search(r"\(\*", s)
    if m:                                        # pointer to array/function: look at element type
        return "const" in s[:m.start()].split()
    if "*" not in s:
        return False
    base = s[:s.rindex("*")].strip()
    if "*" in base:                              # pointer to pointer: qualifiers after the inner '*'
        return "const" in base[base.rindex("*"):]
    return "const" in base.split()


class TU:
    def __init__(self, path):
        self.path = path
        self.cur_file = None
        self.cur_line = 0        # clang prints file/line only when they change: tracked in document order
        self.statics = {}        # decl id -> object record
        self.refs = []           # (decl id, enclosing fn, [ancestors], node)
        self.edges = {}          # function -> set of functions it calls or whose address it takes
        self.libc_calls = []     # (libc function, caller, file of caller)

    def note(self, l):
        if not isinstance(l, dict):
            return
        for k, v in l.items():
            if k == "file":
                self.cur_file = v
            elif k == "line":
                self.cur_line = v
            elif k in ("spellingLoc", "expansionLoc", "begin", "end"):
                self.note(v)

    def walk(self, n, stack, fn, topfile):
        k = n.get("kind")
        if "loc" in n:
            self.note(n["loc"])
        here = self.cur_file
        if "range" in n:
            self.note(n["range"].get("begin"))
            n["_lb"] = self.cur_line
            self.note(n["range"].get("end"))
            n["_le"] = self.cur_line
        if k == "VarDecl":
            sc = n.get("storageClass")
            if (fn is None) or sc == "static":
                f = here if fn is None else topfile
                self.statics[n["id"]] = {
                    "name": n.get("name", "<anon>"), "fn": fn, "file": f, "storage": sc or "extern-linkage",
                    "type": n["type"].get("desugaredQualType", n["type"]["qualType"]),
                    "const": object_is_const(n["type"]),
                    "has_init": "init" in n}
        elif k == "DeclRefExpr":
            rd = n.get("referencedDecl") or {}
            if rd.get("kind") == "VarDecl":
                self.refs.append((rd["id"], fn, list(stack), n, rel(topfile)))
            elif rd.get("kind") == "FunctionDecl" and fn is not None:
                self.edges.setdefault(fn, set()).add(rd.get("name", "?"))
                if rd.get("name") in LIBC_UNSAFE and rel(topfile) is not None:
                    self.libc_calls.append((rd["name"], fn, rel(topfile)))
        stack.append(n)
        for c in n.get("inner", ()):
            if isinstance(c, dict) and c:
                self.walk(c, stack, fn, topfile)
        stack.pop()

    # ---------------------------------------------------------------- classification
    @staticmethod
    def callee_name(call):
        f = call["inner"][0]
        while f.get("kind") in ("ImplicitCastExpr", "ParenExpr") and f.get("inner"):
            f = f["inner"][0]
        if f.get("kind") == "DeclRefExpr":
            return (f.get("referencedDecl") or {}).get("name", "?")
        return "<indirect>"

    def classify(self, node, stack):
        """returns (access, kind) with access in {'write','read','none'}"""
        cur, i, mode = node, len(stack) - 1, "lvalue"
        while i >= 0:
            p = stack[i]
            k = p.get("kind")
            inner = p.get("inner", [])
            if k == "ParenExpr":
                cur, i = p, i - 1
                continue
            if mode == "lvalue":
                if k == "MemberExpr" and not p.get("isArrow"):
                    cur, i = p, i - 1
                    continue
                if k == "ImplicitCastExpr":
                    ck = p.get("castKind")
                    if ck == "LValueToRValue":
                        return ("read", "rvalue")
                    if ck == "ArrayToPointerDecay":
                        cur, i, mode = p, i - 1, "pointer"
                        continue
                    if ck in ("NoOp", "LValueBitCast"):
                        cur, i = p, i - 1
                        continue
                    return ("write", "other:cast-" + str(ck))
                if k == "BinaryOperator" and p.get("opcode") == "=":
                    if inner and inner[0] is cur:
                        return ("write", "assign")
                    return ("write", "other:assign-rhs-lvalue")
                if k == "CompoundAssignOperator":
                    if inner and inner[0] is cur:
                        return ("write", "compound" + p.get("opcode", ""))
                    return ("write", "other:compound-rhs-lvalue")
                if k == "UnaryOperator":
                    op = p.get("opcode")
                    if op in ("++", "--"):
                        return ("write", "incdec")
                    if op == "&":
                        cur, i, mode = p, i - 1, "pointer"
                        continue
                    if op in ("__extension__",):
                        cur, i = p, i - 1
                        continue
                    return ("write", "other:unary" + str(op))
                if k == "UnaryExprOrTypeTraitExpr":
                    return ("none", "sizeof")
                if k in ("GCCAsmStmt",):
                    return ("write", "asm-operand")
                return ("write", "other:" + str(k))
            # mode == "pointer": cur is a pointer into the object
            if k in ("CStyleCastExpr",):
                cur, i = p, i - 1
                continue
            if k == "ImplicitCastExpr":
                ck = p.get("castKind")
                if ck in ("BitCast", "NoOp"):
                    cur, i = p, i - 1
                    continue
                if ck in ("PointerToBoolean", "PointerToIntegral"):
                    return ("none", "address-value")
                return ("write", "other:ptrcast-" + str(ck))
            if k == "UnaryOperator":
                op = p.get("opcode")
                if op == "*":
                    cur, i, mode = p, i - 1, "lvalue"
                    continue
                if op == "!":
                    return ("none", "address-value")
                return ("write", "other:ptr-unary" + str(op))
            if k == "ArraySubscriptExpr":
                cur, i, mode = p, i - 1, "lvalue"
                continue
            if k == "MemberExpr" and p.get("isArrow"):
                cur, i, mode = p, i - 1, "lvalue"
                continue
            if k == "BinaryOperator":
                op = p.get("opcode")
                if op in ("==", "!=", "<", "<=", ">", ">=", "&&", "||"):
                    return ("none", "address-value")
                if op == "+":
                    cur, i = p, i - 1
                    continue
                if op == "-":
                    t = p.get("type", {}).get("qualType", "")
                    if "*" in t:
                        cur, i = p, i - 1
                        continue
                    return ("none", "address-value")
                if op == ",":
                    if inner and inner[-1] is cur:
                        cur, i = p, i - 1
                        continue
                    return ("none", "discarded")
                if op == "=":
                    return self.escape(cur, "assigned")
                return ("write", "other:ptr-binop" + str(op))
            if k == "ConditionalOperator":
                if inner and inner[0] is cur:
                    return ("none", "address-value")
                cur, i = p, i - 1
                continue
            if k == "CallExpr":
                idx = next((j for j, c in enumerate(inner) if c is cur), None)
                if idx is None or idx == 0:
                    return ("write", "other:call-callee")
                name = self.callee_name(p)
                if name in MEM_DEST:
                    if (idx - 1) in MEM_DEST[name] or not MEM_DEST[name]:
                        return ("write", "mem-dest:" + name)
                    # a source operand of memcpy & co
                    return ("read", "mem-src:" + name)
                if pointee_is_const(cur.get("type", {})):
                    return ("read", "const-arg:" + name)
                return ("write", "nonconst-arg:" + name)
            if k in ("VarDecl", "InitListExpr", "ReturnStmt", "CompoundLiteralExpr", "DesignatedInitExpr"):
                return self.escape(cur, {"VarDecl": "init", "ReturnStmt": "returned"}.get(k, "aggregate-init"))
            if k in ("IfStmt", "WhileStmt", "ForStmt", "DoStmt", "CompoundStmt"):
                return ("none", "address-value")
            if k == "UnaryExprOrTypeTraitExpr":
                return ("none", "sizeof")
            return ("write", "other:ptr-" + str(k))
        # reached the top of a file-scope initialiser
        if mode == "pointer":
            return self.escape(cur, "init")
        return ("read", "rvalue")

    @staticmethod
    def escape(cur, how):
        if pointee_is_const(cur.get("type", {})):
            return ("read", "const-escape:" + how)
        return ("write", "addr-escape:" + how)


def rel(p):
    if p is None:
        return None
    p = os.path.realpath(p) if os.path.isabs(p) else os.path.realpath(os.path.join(REPO, p))
    if p.startswith(REPO + os.sep):
        return p[len(REPO) + 1:]
    return None


def analyse_tu(tu):
    src = os.path.join(REPO, tu)
    cmd = ["clang-14", "-std=gnu11", "-fsyntax-only", "-w", "-I" + REPO, "-I" + os.path.join(REPO, "c2mir"),
           "-Xclang", "-ast-dump=json", src]
    p = subprocess.run(cmd, stdout=subprocess.PIPE, stderr=subprocess.PIPE)
    if p.returncode != 0:
        return {"tu": tu, "error": p.stderr.decode(errors="replace")[-2000:]}
    d = json.loads(p.stdout)
    del p
    t = TU(tu)
    nfun = 0
    static_fns = set()       # functions with internal linkage: call-graph nodes are qualified by TU
    q = lambda f: f"{tu}:{f}" if f in static_fns else f
    for x in d.get("inner", []):
        if "loc" in x:
            t.note(x["loc"])
        topfile = t.cur_file
        if x.get("kind") == "FunctionDecl":
            nfun += 1 if any(c.get("kind") == "CompoundStmt" for c in x.get("inner", [])) else 0
            if x.get("storageClass") == "static":
                static_fns.add(x.get("name", "?"))
            t.walk(x, [], x.get("name", "?"), topfile)
        else:
            t.walk(x, [], None, topfile)
    objs = {}
    for did, s in t.statics.items():
        f = rel(s["file"])
        if f is None or s["const"]:
            continue
        name = s["name"] if s["fn"] is None else f"{s['fn']}.{s['name']}"
        o = objs.setdefault((f, name), {"file": f, "object": name, "tu": tu, "type": s["type"],
                                        "scope": "file" if s["fn"] is None else "function-local",
                                        "storage": s["storage"], "ids": [], "writes": [], "reads": {},
                                        "noaccess": 0, "site_lines": []})
        o["ids"].append(did)
    byid = {did: o for o in objs.values() for did in o["ids"]}
    nrefs = 0
    STMT_PARENTS = ("CompoundStmt", "IfStmt", "ForStmt", "WhileStmt", "DoStmt", "SwitchStmt", "CaseStmt",
                    "DefaultStmt", "LabelStmt", "FunctionDecl")
    for did, fn, stack, node, sfile in t.refs:
        o = byid.get(did)
        if o is None:
            continue
        nrefs += 1
        acc, kind = t.classify(node, stack)
        fname = fn if fn is not None else "<file-scope>"
        # line range of the smallest enclosing full statement / controlling expression (what a debugger or
        # ThreadSanitizer reports for code evaluating this reference); lines are NOT part of the Lean inventory
        st = node
        for anc in reversed(stack):
            if anc.get("kind") in STMT_PARENTS:
                break
            st = anc
        # inside a loop the loaded value is carried by locals (loop variable, element copies) through the rest
        # of the iteration: the site then is the innermost enclosing loop statement
        loop = next((anc for anc in reversed(stack) if anc.get("kind") in ("ForStmt", "WhileStmt", "DoStmt")), None)
        if loop is not None:
            st = loop
        sl = [fname, sfile, st.get("_lb", 0), st.get("_le", 0), acc]
        if acc != "none" and sl not in o["site_lines"]:
            o["site_lines"].append(sl)
        if acc == "write":
            if not any(w["fn"] == fname and w["kind"] == kind for w in o["writes"]):
                o["writes"].append({"fn": fname, "kind": kind, "node": q(fname)})
        elif acc == "read":
            o["reads"][fname] = o["reads"].get(fname, 0) + 1
        else:
            o["noaccess"] += 1
    for name, fn, f in t.libc_calls:
        o = objs.setdefault(("<libc>", name), {"file": "<libc>", "object": name, "tu": tu, "type": "process-wide state of " + name,
                                               "scope": "libc", "storage": "libc", "ids": [], "writes": [], "reads": {},
                                               "noaccess": 0, "site_lines": []})
        if not any(w["fn"] == fn for w in o["writes"]):
            o["writes"].append({"fn": fn, "kind": "libc-mt-unsafe-call", "node": q(fn)})
    for o in objs.values():
        del o["ids"]
        o["writes"].sort(key=lambda w: (w["fn"], w["kind"]))
        o["readers"] = sorted(o.pop("reads"))
    return {"tu": tu, "objects": sorted(objs.values(), key=lambda o: (o["file"], o["object"])),
            "edges": {q(k): sorted(q(c) for c in v) for k, v in t.edges.items()},
            "functions_with_body": nfun, "static_refs_classified": nrefs,
            "all_static_decls": len(t.statics)}


def lean_str(s):
    return '"' + s.replace("\\", "\\\\").replace('"', '\\"') + '"'


def emit_lean(objs, meta):
    L = ["/-! GENERATED by translate/c18_inventory.py from the current source tree -- do not edit.",
         f"    translation units: {', '.join(TUS)}",
         f"    objects: {len(objs)}  written: {sum(1 for o in objs if o['writes'])} -/",
         "namespace MirVerif.Gen.C18", "",
         "/-- (file, object, scope, writer functions) of every non-const object with static storage duration -/",
         "def objects : List (String × String × String × List String) := ["]
    rows = []
    for o in objs:
        ws = sorted({w["fn"] for w in o["writes"]})
        rows.append(f"  ({lean_str(o['file'])}, {lean_str(o['object'])}, {lean_str(o['scope'])}, "
                    f"[{', '.join(lean_str(w) for w in ws)}])")
    L.append(",\n".join(rows))
    L += ["]", "",
          "/-- (file, object) of every inventory object that has at least one write site in library code -/",
          "def sharedWrites : List (String × String) :=",
          "  (objects.filter (fun o => !o.2.2.2.isEmpty)).map (fun o => (o.1, o.2.1))", "",
          "/-- (file, object, function, kind) of every write site -/",
          "def writeSites : List (String × String × String × String) := ["]
    rows = []
    for o in objs:
        for w in o["writes"]:
            rows.append(f"  ({lean_str(o['file'])}, {lean_str(o['object'])}, {lean_str(w['fn'])}, {lean_str(w['kind'])})")
    L.append(",\n".join(rows))
    L += ["]", "",
          "/-- harness phase (API entry points) -> inventory objects with a write site reachable through the",
          "    direct-call / address-taken graph -/",
          "def apiWrites : List (String × List (String × String)) := ["]
    rows = []
    for ph in API:
        ws = meta["api_writes"].get(ph, [])
        rows.append(f"  ({lean_str(ph)}, [{', '.join('(' + lean_str(f) + ', ' + lean_str(o) + ')' for f, o in ws)}])")
    L.append(",\n".join(rows))
    L += ["]", "", "end MirVerif.Gen.C18", ""]
    return "\n".join(L)


API = {  # harness phase -> library entry points executed in that phase
    "MIR_init": ["_MIR_init", "MIR_set_error_func"],
    "c2mir_init": ["c2mir_init"],
    "c2mir_compile": ["c2mir_compile"],
    "c2mir_finish": ["c2mir_finish"],
    "MIR_scan_string": ["MIR_scan_string", "MIR_get_module_list"],
    "MIR_output": ["MIR_output"],
    "MIR_write": ["MIR_write_with_func"],
    "MIR_module2c": ["MIR_module2c"],
    "MIR_load_module": ["MIR_load_module", "MIR_load_external"],
    "MIR_gen_init": ["MIR_gen_init", "MIR_gen_set_optimize_level"],
    "MIR_link": ["MIR_link", "MIR_set_interp_interface", "MIR_set_gen_interface",
                 "MIR_set_lazy_gen_interface", "MIR_set_lazy_bb_gen_interface"],
    "run": ["MIR_interp_arr", "MIR_interp", "MIR_gen", "MIR_set_interp_interface",
            "MIR_set_lazy_gen_interface", "MIR_set_lazy_bb_gen_interface"],
    "code_patch": ["_MIR_get_new_code_addr", "_MIR_publish_code", "_MIR_change_code", "_MIR_update_code",
                   "_MIR_update_code_arr"],
    "MIR_gen_finish": ["MIR_gen_finish"],
    "MIR_finish": ["MIR_finish"],
}


def reach(edges, roots):
    seen, todo = set(), [r for r in roots]
    while todo:
        f = todo.pop()
        if f in seen:
            continue
        seen.add(f)
        todo += edges.get(f, [])
    return seen


def api_writes(objs, edges):
    out = {}
    for ph, roots in API.items():
        r = reach(edges, roots)
        out[ph] = sorted({(o["file"], o["object"]) for o in objs for w in o["writes"] if w.get("node", w["fn"]) in r})
    return out


def source_hash():
    h = hashlib.sha256()
    h.update(open(os.path.abspath(__file__), "rb").read())
    for d in ["", "c2mir", "c2mir/x86_64", "mir2c"]:
        dd = os.path.join(REPO, d)
        if not os.path.isdir(dd):
            continue
        for f in sorted(os.listdir(dd)):
            if f.endswith((".c", ".h")):
                h.update(f.encode())
                with open(os.path.join(dd, f), "rb") as fh:
                    h.update(fh.read())
    return h.hexdigest()[:20]


def main():
    t0 = time.time()
    os.makedirs(GEN, exist_ok=True)
    out_lean = os.path.join(GEN, "C18_Inventory.lean")
    out_json = os.path.join(GEN, "C18_Inventory.json")
    key = source_hash()
    cdir = os.path.join(VERIF, ".cache", "c18inv")
    os.makedirs(cdir, exist_ok=True)
    cfile = os.path.join(cdir, key + ".json")
    inv = None
    if os.path.exists(cfile) and not os.environ.get("C18_NO_CACHE"):
        try:
            inv = json.load(open(cfile))
        except Exception:
            inv = None
    if inv is None:
        with ProcessPoolExecutor(max_workers=len(TUS)) as ex:
            res = list(ex.map(analyse_tu, TUS))
        errs = [r for r in res if "error" in r]
        if errs:
            for r in errs:
                sys.stderr.write(f"clang failed on {r['tu']}:\n{r['error']}\n")
            sys.exit(2)
        objs = []
        for r in res:
            objs += r["objects"]
        # the same header object seen from several TUs is one entry per (file, object)
        seen, uniq = {}, []
        for o in objs:
            k = (o["file"], o["object"])
            if k in seen:
                for w in o["writes"]:
                    if w not in seen[k]["writes"]:
                        seen[k]["writes"].append(w)
                seen[k]["readers"] = sorted(set(seen[k]["readers"]) | set(o["readers"]))
                continue
            seen[k] = o
            uniq.append(o)
        uniq.sort(key=lambda o: (o["file"], o["object"]))
        edges = {}
        for r in res:
            for f, cs in r["edges"].items():
                edges.setdefault(f, set()).update(cs)
        edges = {f: sorted(cs) for f, cs in edges.items()}
        inv = {"repo_hash": key, "tus": TUS, "objects": uniq,
               "api_writes": {ph: [list(x) for x in v] for ph, v in api_writes(uniq, edges).items()},
               "call_graph_functions": len(edges),
               "stats": [{k: v for k, v in r.items() if k not in ("objects", "edges")} for r in res],
               "seconds": round(time.time() - t0, 1)}
        old = sorted((os.path.join(cdir, f) for f in os.listdir(cdir)), key=os.path.getmtime)
        for f in old[:-6]:
            try:
                os.remove(f)
            except OSError:
                pass
        with open(cfile + ".tmp", "w") as f:
            json.dump(inv, f)
        os.replace(cfile + ".tmp", cfile)
    inv["repo"] = REPO
    lean = emit_lean(inv["objects"], inv)
    old = open(out_lean).read() if os.path.exists(out_lean) else None
    if old != lean:                      # keep mtime when unchanged so lake does not rebuild
        with open(out_lean, "w") as f:
            f.write(lean)
    with open(out_json, "w") as f:
        json.dump(inv, f, indent=1)
    nw = sum(1 for o in inv["objects"] if o["writes"])
    print(f"c18_inventory: {len(inv['objects'])} non-const static objects, {nw} with write sites "
          f"({time.time() - t0:.1f}s, repo={REPO})")


if __name__ == "__main__":
    main()
