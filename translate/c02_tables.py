#!/usr/bin/env python3
"""T1 translator for C02: reads mir-interp.c of the CURRENT tree ($VERIF_REPO or /repo) and writes
lean/MirVerif/Gen/C02_Tables.lean:

  * intRows / brRows / extRows / negRows : the dispatch rows  SCASE (MIR_<OP>, n, <MACRO> (<arg>))
    of the integer instructions, as Lean terms over MirVerif.Kind;
  * otherRows : (opcode, macro, arg) of every other SCASE row (floating point etc.), as strings;
  * pinned : normalised source text of every macro body / helper / CASE body whose meaning
    MirVerif.Model.Sem transcribes by hand (macroSem, macroExt, macroNeg, interp*O).

With --canon the same extraction is written as lean/MirVerif/Model/SemCanon.lean (done once, by hand,
after reviewing the texts against Model/Sem.lean); the bridge lemmas in Lemmas/BridgeC02.lean then
state Gen = Canon and are re-checked by the kernel on every run."""
import os, re, sys

REPO = os.environ.get("VERIF_REPO", "/repo")
HERE = os.path.dirname(os.path.dirname(os.path.abspath(__file__)))

BINOPS = {"+": "add", "-": "sub", "*": "mul", "/": "div", "%": "mod", "&": "and", "|": "or", "^": "xor",
          "<<": "lsh", ">>": "rsh"}
CMPOPS = {"==": "eq", "!=": "ne", "<": "lt", "<=": "le", ">": "gt", ">=": "ge"}
INT_MACROS = {"IOP3", "IOP3S", "UOP3", "UOP3S", "UIOP3", "UIOP3S"}
CMP_MACROS = {"ICMP", "ICMPS", "UCMP", "UCMPS"}
BR_MACROS = {"BICMP": "ICMP", "BICMPS": "ICMPS", "BUCMP": "UCMP", "BUCMPS": "UCMPS"}
EXT_TYPES = {"int8_t": (8, True), "int16_t": (16, True), "int32_t": (32, True),
             "uint8_t": (8, False), "uint16_t": (16, False), "uint32_t": (32, False)}
PIN_MACROS = ["EXT", "IOP2", "IOP2S", "IOP3", "IOP3S", "ICMP", "ICMPS", "BICMP", "BICMPS", "UOP3", "UOP3S",
              "UIOP3", "UIOP3S", "UCMP", "UCMPS", "BUCMP", "BUCMPS"]
PIN_FUNCS = ["get_2iops", "get_2isops", "get_3iops", "get_3isops", "get_3uops", "get_3usops"]
PIN_CASES = ["MIR_ADDO", "MIR_ADDOS", "MIR_SUBO", "MIR_SUBOS", "MIR_MULO", "MIR_MULOS", "MIR_UMULO", "MIR_UMULOS",
             "MIR_BT", "MIR_BF", "MIR_BTS", "MIR_BFS", "MIR_BO", "MIR_UBO", "MIR_BNO", "MIR_UBNO"]


def norm(s):
    s = re.sub(r"/\*.*?\*/", " ", s, flags=re.S)
    s = s.replace("\\\n", " ")
    return re.sub(r"\s+", " ", s).strip()


def chunks(v, n=100):
    return '[' + ', '.join(lean_str(v[i:i + n]) for i in range(0, max(len(v), 1), n)) + ']'


def lean_str(s):
    return '"' + s.replace("\\", "\\\\").replace('"', '\\"') + '"'


def extract(src):
    rows = re.findall(r"SCASE\s*\(\s*MIR_(\w+)\s*,\s*(\d+)\s*,\s*(\w+)\s*\(([^()]*)\)\s*\)\s*;", src)
    int_rows, br_rows, ext_rows, neg_rows, other = [], [], [], [], []
    for op, n, macro, arg in rows:
        arg = arg.strip()
        if macro in INT_MACROS and arg in BINOPS:
            int_rows.append((op, f"Kind.{macro} BinOp.{BINOPS[arg]}"))
        elif macro in CMP_MACROS and arg in CMPOPS:
            int_rows.append((op, f"Kind.{macro} CmpOp.{CMPOPS[arg]}"))
        elif macro in BR_MACROS and arg in CMPOPS:
            br_rows.append((op, f"Kind.{BR_MACROS[macro]} CmpOp.{CMPOPS[arg]}"))
        elif macro == "EXT" and arg in EXT_TYPES:
            ext_rows.append((op, EXT_TYPES[arg]))
        elif macro in ("IOP2", "IOP2S") and arg == "-":
            neg_rows.append((op, macro == "IOP2S"))
        else:
            other.append((op, macro, arg))
    pinned = []
    for m in PIN_MACROS:
        mm = re.search(r"#define\s+" + m + r"\s*\(\w+\)((?:.*\\\n)*.*)\n", src)
        pinned.append(("macro " + m, norm(mm.group(1)) if mm else "<missing>"))
    for f in PIN_FUNCS:
        mm = re.search(r"static ALWAYS_INLINE [^\n]*\b" + f + r"\s*\([^)]*\)\s*\{(.*?)\n\}", src, flags=re.S)
        pinned.append(("func " + f, norm(mm.group(1)) if mm else "<missing>"))
    for c in PIN_CASES:
        mm = re.search(r"\n\s*CASE\s*\(\s*" + c + r"\s*,\s*\d+\s*\)\s*\{(.*?)END_INSN;", src, flags=re.S)
        pinned.append(("case " + c, norm(mm.group(1)) if mm else "<missing>"))
    return int_rows, br_rows, ext_rows, neg_rows, other, pinned


def emit(ns, data, header):
    int_rows, br_rows, ext_rows, neg_rows, other, pinned = data
    b = lambda x: "true" if x else "false"
    out = [header, "import MirVerif.Model.Sem", f"namespace MirVerif.{ns}", ""]
    out.append("def intRows : List (String × Kind) := [")
    out.append(",\n".join(f"  ({lean_str(o)}, {k})" for o, k in int_rows) + "]\n")
    out.append("def brRows : List (String × Kind) := [")
    out.append(",\n".join(f"  ({lean_str(o)}, {k})" for o, k in br_rows) + "]\n")
    out.append("def extRows : List (String × Nat × Bool) := [")
    out.append(",\n".join(f"  ({lean_str(o)}, {k}, {b(s)})" for o, (k, s) in ext_rows) + "]\n")
    out.append("def negRows : List (String × Bool) := [")
    out.append(",\n".join(f"  ({lean_str(o)}, {b(s)})" for o, s in neg_rows) + "]\n")
    out.append("def otherRows : List (String × String × String) := [")
    out.append(",\n".join(f"  ({lean_str(o)}, {lean_str(m)}, {lean_str(a)})" for o, m, a in other) + "]\n")
    out.append("def pinned : List (String × List String) := [")
    out.append(",\n".join(f"  ({lean_str(k)}, {chunks(v)})" for k, v in pinned) + "]\n")
    out.append(f"end MirVerif.{ns}")
    return "\n".join(out) + "\n"


def main():
    src = open(os.path.join(REPO, "mir-interp.c")).read()
    data = extract(src)
    if "--canon" in sys.argv:
        p = os.path.join(HERE, "lean/MirVerif/Model/SemCanon.lean")
        txt = emit("Canon.C02", data, "/- Canonical dispatch rows and pinned source texts of mir-interp.c, reviewed by hand against\n   Model/Sem.lean (written once by translate/c02_tables.py --canon; NOT regenerated by checks). -/")
    else:
        p = os.path.join(HERE, "lean/MirVerif/Gen/C02_Tables.lean")
        txt = emit("Gen.C02", data, "/- GENERATED on every run by translate/c02_tables.py from mir-interp.c — do not edit. -/")
    old = open(p).read() if os.path.exists(p) else None
    if old != txt:
        os.makedirs(os.path.dirname(p), exist_ok=True)
        open(p, "w").write(txt)
    print(f"c02_tables: {len(data[0])} int rows, {len(data[1])} branch rows, {len(data[2])} ext rows, "
          f"{len(data[3])} neg rows, {len(data[4])} other rows, {len(data[5])} pinned texts -> {p}")


if __name__ == "__main__":
    main()
