#!/usr/bin/env python3
"""T1 translator (side-effect lists): which opcodes the optimizer refuses to move or delete.

From the CURRENT sources it reads
  * mir.h   : the opcode enum and the predicates MIR_*_code_p (expanded recursively into opcode lists)
  * mir-gen.c loop_invariant_p          : opcodes that are never loop invariant (LICM must not hoist them)
  * mir-gen.c ssa_dead_insn_p           : opcodes never deleted as dead in SSA form
  * mir-gen.c dead_code_elimination pass : opcodes never deleted as dead after RA (the `dead_p && ...` test)
and writes lean/MirVerif/Gen/C01_Effects.lean.  Any shape it does not understand makes it fail loudly."""
import os, re, sys

REPO = os.environ.get("VERIF_REPO", "/repo")
HERE = os.path.dirname(os.path.dirname(os.path.abspath(__file__)))


def die(msg):
    raise SystemExit("c01_effects: " + msg)


def strip_comments(s):
    return re.sub(r"/\*.*?\*/", " ", s, flags=re.S)


def enum_codes(h):
    m = re.search(r"typedef enum \{(.*?)\} MIR_insn_code_t;", h, flags=re.S)
    if not m:
        die("opcode enum not found")
    e = strip_comments(m.group(1))
    out = []
    for mm in re.finditer(r"REP\d \(INSN_EL,([^)]*)\)|INSN_EL \((\w+)\)", e):
        if mm.group(1):
            out += [x.strip() for x in mm.group(1).split(",") if x.strip()]
        else:
            out.append(mm.group(2))
    if len(out) < 150 or out[0] != "MOV":
        die(f"unexpected opcode enum ({len(out)} entries)")
    return out


def predicates(h):
    """name -> expression text of every `static inline int MIR_xxx_code_p (MIR_insn_code_t code)`"""
    preds = {}
    for m in re.finditer(r"static inline int (MIR_\w+_code_p) \(MIR_insn_code_t code\) \{\s*return (.*?);\s*\}", h, flags=re.S):
        preds[m.group(1)] = strip_comments(m.group(2))
    return preds


def codes_in(expr, preds, var, neg=False, depth=0):
    """opcodes mentioned positively in a disjunction (or, with neg, negatively in a conjunction) over VAR"""
    if depth > 6:
        die("predicate recursion too deep")
    out = []
    cmp = "!=" if neg else "=="
    for m in re.finditer(re.escape(var) + r"\s*" + re.escape(cmp) + r"\s*MIR_(\w+)", expr):
        out.append(m.group(1))
    call = (r"!\s*" if neg else r"(?<![!\w])") + r"(MIR_\w+_code_p)\s*\(\s*" + re.escape(var) + r"\s*\)"
    for m in re.finditer(call, expr):
        p = m.group(1)
        if p not in preds:
            die(f"unknown predicate {p}")
        out += codes_in(preds[p], preds, "code", False, depth + 1)
    return out


def func_body(src, name):
    m = re.search(r"\nstatic\s+\w+\s+" + name + r"\s*\([^;{]*\)\s*\{", src)
    if not m:
        die(f"function {name} not found")
    i, depth = m.end(), 1
    while depth:
        depth += {"{": 1, "}": -1}.get(src[i], 0)
        i += 1
    return strip_comments(src[m.end():i - 1])


def balanced(s, start):
    """text of the parenthesised expression starting at s[start] == '('"""
    assert s[start] == "("
    d, i = 0, start
    while True:
        d += {"(": 1, ")": -1}.get(s[i], 0)
        i += 1
        if d == 0:
            return s[start + 1:i - 1]


def main():
    h = open(os.path.join(REPO, "mir.h")).read()
    g = open(os.path.join(REPO, "mir-gen.c")).read()
    codes = enum_codes(h)
    preds = predicates(h)
    for need in ("MIR_any_branch_code_p", "MIR_call_code_p", "MIR_overflow_insn_code_p"):
        if need not in preds:
            die(f"{need} not found in mir.h")
    # LICM: first `if (...) return FALSE;` of loop_invariant_p
    b = func_body(g, "loop_invariant_p")
    m = re.search(r"\bif\s*\(", b)
    cond = balanced(b, m.end() - 1)
    if not re.match(r"\s*return FALSE;", b[m.end() + len(cond) + 1:]):
        die("loop_invariant_p: first test is not `if (...) return FALSE;`")
    if "&&" in cond:
        die("loop_invariant_p: exclusion test is not a plain disjunction")
    licm = codes_in(cond, preds, "insn->code")
    # SSA dead insn: the `check control insns` test, the part about insn->code only
    b = func_body(g, "ssa_dead_insn_p")
    m = re.search(r"\bif\s*\(\s*MIR_call_code_p", b)
    if not m:
        die("ssa_dead_insn_p: control-insn test not found")
    cond = balanced(b, b.index("(", m.start()))
    head = cond.split("(insn->nops")[0]       # the FP/SP hard register clause follows
    if "&&" in head:
        die("ssa_dead_insn_p: control-insn list is not a plain disjunction")
    ssa_kept = codes_in(head, preds, "insn->code")
    ovf_guard_ssa = bool(re.search(r"!MIR_overflow_insn_code_p \(insn->code\)\s*\|\|\s*!reachable_bo_exists_p", b))
    # post-RA DCE: `if (dead_p && !MIR_call_code_p ... )`
    m = re.search(r"\bif\s*\(\s*dead_p\s*&&", g)
    if not m:
        die("dead_code_elimination: dead_p test not found")
    cond = strip_comments(balanced(g, g.index("(", m.start())))
    dce_kept = codes_in(cond.split("!(MIR_overflow_insn_code_p")[0], preds, "insn->code", neg=True)
    ovf_guard_dce = bool(re.search(r"!\s*\(\s*MIR_overflow_insn_code_p \(insn->code\)\s*&&\s*reachable_bo_exists_p", cond))
    for name, lst in (("licm", licm), ("ssa", ssa_kept), ("dce", dce_kept)):
        bad = [c for c in lst if c not in codes]
        if bad or not lst:
            die(f"{name}: unknown or empty opcode list {bad}")

    def lst(xs):
        return "[" + ", ".join(f'"{x}"' for x in xs) + "]"

    out = ["/- generated by translate/c01_effects.py from mir.h and mir-gen.c — do not edit -/",
           "namespace MirVerif.Gen.C01Effects", "",
           "/-- `MIR_insn_code_t` in declaration order -/",
           f"def codes : List String := {lst(codes)}", "",
           "/-- opcodes `loop_invariant_p` refuses (LICM never hoists them) -/",
           f"def licmExcluded : List String := {lst(licm)}", "",
           "/-- opcodes `ssa_dead_insn_p` never reports dead -/",
           f"def ssaDeadKept : List String := {lst(ssa_kept)}",
           f"def ssaDeadOverflowGuard : Bool := {'true' if ovf_guard_ssa else 'false'}", "",
           "/-- opcodes the post-RA dead code elimination never removes -/",
           f"def dceKept : List String := {lst(dce_kept)}",
           f"def dceOverflowGuard : Bool := {'true' if ovf_guard_dce else 'false'}", "",
           "/-- the opcode predicates of mir.h, expanded -/",
           f"def anyBranch : List String := {lst(codes_in(preds['MIR_any_branch_code_p'], preds, 'code'))}",
           f"def callCodes : List String := {lst(codes_in(preds['MIR_call_code_p'], preds, 'code'))}",
           f"def overflowCodes : List String := {lst(codes_in(preds['MIR_overflow_insn_code_p'], preds, 'code'))}",
           "", "end MirVerif.Gen.C01Effects", ""]
    p = os.path.join(HERE, "lean", "MirVerif", "Gen", "C01_Effects.lean")
    txt = "\n".join(out)
    if not os.path.exists(p) or open(p).read() != txt:
        open(p, "w").write(txt)
    print(f"c01_effects: {len(codes)} opcodes, licm excludes {len(licm)}, ssa keeps {len(ssa_kept)}, dce keeps {len(dce_kept)}")


main()
