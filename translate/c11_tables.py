#!/usr/bin/env python3
"""T1 translator for C11: reads the CURRENT source of $VERIF_REPO (default /repo) and writes
lean/MirVerif/Gen/C11_Tables.lean with

  * the `bin_tag_t` enum (after `gcc -E -P`, so REPn(...) is expanded and values are exact),
  * `MIR_type_t`, `MIR_insn_code_t`, and per insn code the number of operands that `insn_code_nops`
    returns (op_modes of `insn_descs` up to MIR_OP_BOUND),
  * CURR_BIN_VERSION, MIR_BLK_NUM,
  * the facts of the reader that the model is parametric in (`BinIO.Cfg`): the bound of the
    `insn_code >= X` test, the UNSPEC/USE/PHI list, whether the hard register name of a `global`
    is read a second time (#30), whether lref labels are made with create_label (#6), whether the
    reader has a `MIR_T_P` case for data (#34).

Every construct that is not recognised makes the translator fail loudly (exit 2): the check then
reports a broken tie instead of silently using stale facts."""
import os, re, subprocess, sys

VERIF = os.path.dirname(os.path.dirname(os.path.abspath(__file__)))
REPO = os.environ.get("VERIF_REPO", "/repo")
OUT = os.path.join(VERIF, "lean", "MirVerif", "Gen", "C11_Tables.lean")


class Unrec(Exception):
    """a construct of the reader that the fact extraction does not recognise"""


def die(msg):
    sys.stderr.write("c11_tables.py: " + msg + "\n")
    sys.exit(2)


def preprocess(path):
    p = subprocess.run(["gcc", "-E", "-P", "-I" + REPO, path], capture_output=True, text=True)
    if p.returncode != 0:
        die("gcc -E failed on %s:\n%s" % (path, p.stderr[-2000:]))
    return p.stdout


SAFE = re.compile(r"^[\w\s|()<>+\-*]*$")


def ev(expr, env):
    expr = expr.strip()
    if not SAFE.match(expr):
        die("unsupported constant expression: %r" % expr)
    try:
        return int(eval(expr, {"__builtins__": {}}, dict(env)))
    except Exception as e:  # noqa
        die("cannot evaluate %r: %s" % (expr, e))


def parse_enum(src, typedef_name, env):
    m = re.search(r"typedef\s+enum\s*\w*\s*\{([^{}]*)\}\s*" + re.escape(typedef_name) + r"\s*;", src)
    if not m:
        die("enum %s not found" % typedef_name)
    out, nxt = [], 0
    for item in m.group(1).split(","):
        item = item.strip()
        if not item:
            continue
        if "=" in item:
            name, e = item.split("=", 1)
            name = name.strip()
            nxt = ev(e, env)
        else:
            name = item
        if not re.match(r"^\w+$", name):
            die("bad enumerator %r in %s" % (item, typedef_name))
        out.append((name, nxt))
        env[name] = nxt
        nxt += 1
    return out


def parse_descs(src, env):
    m = re.search(r"static\s+const\s+struct\s+insn_desc\s+insn_descs\s*\[\s*\]\s*=\s*\{(.*?)\}\s*;", src, re.S)
    if not m:
        die("insn_descs table not found")
    rows = []
    row_re = re.compile(r"\{\s*([^,{}]+?)\s*,\s*\"([^\"]*)\"\s*,\s*\{([^{}]*)\}\s*,?\s*\}")
    pos, body = 0, m.group(1)
    for r in row_re.finditer(body):
        between = body[pos:r.start()].strip().strip(",").strip()
        if between:
            die("unparsed text in insn_descs: %r" % between[:80])
        pos = r.end()
        rows.append((ev(r.group(1), env), r.group(2), [ev(x, env) for x in r.group(3).split(",") if x.strip()]))
    if body[pos:].strip().strip(",").strip():
        die("unparsed tail in insn_descs")
    return rows


def func_body(src, header_re):
    """text of the function whose header matches header_re (brace matching on raw source)"""
    m = re.search(header_re, src)
    if not m:
        die("function not found: %s" % header_re)
    i = src.index("{", m.end() - 1)
    depth, j = 0, i
    while j < len(src):
        if src[j] == "{":
            depth += 1
        elif src[j] == "}":
            depth -= 1
            if depth == 0:
                return src[i:j + 1]
        j += 1
    die("unbalanced braces after %s" % header_re)


def norm(s):
    return re.sub(r"\s+", " ", s).strip()


def load(strict=True):
    """parse the source under test; returns a dict (also used by checks/c11.py)"""
    raw = open(os.path.join(REPO, "mir.c")).read()
    h = preprocess(os.path.join(REPO, "mir.h"))
    c = preprocess(os.path.join(REPO, "mir.c"))
    env = {}
    codes = parse_enum(h, "MIR_insn_code_t", env)
    types = parse_enum(h, "MIR_type_t", env)
    modes = parse_enum(h, "MIR_op_mode_t", env)
    tags = parse_enum(c, "bin_tag_t", env)
    rows = parse_descs(c, env)
    bound = env.get("MIR_OP_BOUND")
    if bound is None:
        die("MIR_OP_BOUND missing")
    insn_bound = env.get("MIR_INSN_BOUND")
    nops = []
    for i, (code, name, ms) in enumerate(rows):
        if code != i:
            die("insn_descs row %d has code %d (check_and_prepare_insn_descs would abort)" % (i, code))
        n = 0
        for v in ms:
            if v == bound:
                break
            n += 1
        else:
            # initialiser shorter than 5 entries: remaining bytes are 0 = MIR_OP_UNDEF, the C loop
            # `for (j = 0; insn_descs[i].op_modes[j] != MIR_OP_BOUND; j++)` would run on
            die("row %s has no MIR_OP_BOUND terminator" % name)
        nops.append(n)
    if len(rows) != insn_bound + 1 and len(rows) != insn_bound:
        die("insn_descs has %d rows, MIR_INSN_BOUND=%d" % (len(rows), insn_bound))

    m = re.search(r"static\s+const\s+int\s+CURR_BIN_VERSION\s*=\s*(\d+)\s*;", raw)
    if not m:
        die("CURR_BIN_VERSION not found")
    version = int(m.group(1))
    blk_num = None
    m = re.search(r"#define\s+MIR_BLK_NUM\s+(\d+)", open(os.path.join(REPO, "mir.h")).read())
    if m:
        blk_num = int(m.group(1))
    else:
        die("MIR_BLK_NUM not found")

    rd = func_body(raw, r"void\s+MIR_read_with_func\s*\(MIR_context_t ctx[^{;]*\{")
    unrecognised = []

    def fact(name, fn, default):
        """one reader fact; in strict mode (the translator proper) an unrecognised construct is fatal, in
        lenient mode (search stage of the check) the canonical value is used and the name recorded"""
        try:
            return fn()
        except Unrec as e:
            if strict:
                die(str(e))
            unrecognised.append({"fact": name, "why": str(e), "assumed": default})
            return default

    def f_limit():
        m = re.search(r"if\s*\(\s*insn_code\s*>=\s*(\w+)\s*\)\s*MIR_get_error_func\s*\(ctx\)\s*\(MIR_binary_io_error,\s*\"wrong insn code", rd)
        if not m:
            raise Unrec("reader: `if (insn_code >= X) ... wrong insn code` not recognised")
        if m.group(1) not in env:
            raise Unrec("reader: unknown bound %s" % m.group(1))
        return m.group(1), env[m.group(1)]
    code_limit_name, code_limit = fact("codeLimit", f_limit, ("MIR_INVALID_INSN", env.get("MIR_INVALID_INSN", len(rows))))

    def f_unport():
        m = re.search(r"if\s*\(((?:\s*insn_code\s*==\s*\w+\s*\|\|)*\s*insn_code\s*==\s*\w+\s*)\)\s*MIR_get_error_func\s*\(ctx\)\s*\(MIR_binary_io_error,\s*\"UNSPEC, USE, or PHI", rd)
        if not m:
            raise Unrec("reader: unportable insn test not recognised")
        unport_r = sorted(env[x] for x in re.findall(r"==\s*(\w+)", m.group(1)))
        wi = func_body(raw, r"static\s+size_t\s+write_insn\s*\([^)]*\)\s*\{")
        m = re.search(r"if\s*\(((?:\s*code\s*==\s*\w+\s*\|\|)*\s*code\s*==\s*\w+\s*)\)\s*MIR_get_error_func\s*\(ctx\)\s*\(MIR_binary_io_error", wi)
        if not m:
            raise Unrec("writer: unportable insn test not recognised")
        unport_w = sorted(env[x] for x in re.findall(r"==\s*(\w+)", m.group(1)))
        if unport_r != unport_w:
            raise Unrec("reader and writer disagree on the unportable insns: %s vs %s" % (unport_r, unport_w))
        return unport_r
    unport_r = fact("unportable", f_unport, sorted(env[n] for n in ("MIR_UNSPEC", "MIR_USE", "MIR_PHI") if n in env))

    def f_double():
        m = re.search(r"const\s+char\s*\*\s*reg_name\s*=\s*to_str\s*\(\s*ctx\s*,\s*(.*?)\)\s*\.s\s*;", rd, re.S)
        if not m:
            raise Unrec("reader: `reg_name = to_str (ctx, ...).s` not recognised")
        e = norm(m.group(1))
        if e == "get_uint (ctx, tag - TAG_NAME1 + 1)":
            return True
        if e == "attr.u":
            return False
        raise Unrec("reader: unknown expression for the hard register string number: %r" % e)
    double_read = fact("globalDoubleRead", f_double, False)

    def f_lref():
        m = re.search(r"i\s*=\s*read_int\s*\(ctx,\s*\"wrong lref label num\"\)\s*;\s*lab\s*=\s*(\w+)\s*\(ctx,\s*i\)\s*;\s*"
                      r"i\s*=\s*read_int\s*\(ctx,\s*\"wrong 2nd lref label num\"\)\s*;\s*lab2\s*=\s*i\s*(<=?)\s*0\s*\?\s*NULL\s*:\s*(\w+)\s*\(ctx,\s*i\)\s*;", rd)
        if not m:
            raise Unrec("reader: lref label creation not recognised")
        if m.group(1) != m.group(3) or m.group(1) not in ("create_label", "to_lab"):
            raise Unrec("reader: lref labels made by %s/%s" % (m.group(1), m.group(3)))
        return m.group(1) == "create_label", m.group(2) == "<="
    lref_orphan, lref_zero_none = fact("lref", f_lref, (False, False))

    def f_reset():
        # the label table must be emptied exactly once, at `module` or at `func`
        resets = re.findall(r"VARR_TRUNC\s*\(MIR_label_t,\s*func_labels,\s*0\)", rd)
        if len(resets) != 1:
            raise Unrec("reader: expected exactly one reset of func_labels, found %d" % len(resets))
        return True
    fact("labelTableReset", f_reset, True)

    def f_datap():
        m = re.search(r"case\s+TAG_U8\s*:\s*switch\s*\(type\)\s*\{(.*?)default\s*:", rd, re.S)
        if not m:
            raise Unrec("reader: unsigned data switch not recognised")
        ucases = re.findall(r"case\s+(MIR_T_\w+)\s*:", m.group(1))
        base = ["MIR_T_U8", "MIR_T_U16", "MIR_T_U32", "MIR_T_U64"]
        if sorted(ucases) == sorted(base):
            return False
        if sorted(ucases) == sorted(base + ["MIR_T_P"]):
            return True
        raise Unrec("reader: unexpected cases in the unsigned data switch: %s" % ucases)
    data_ptr = fact("dataPtr", f_datap, True)

    def f_endfunc():
        m = re.search(r'strcmp\s*\(name,\s*"endfunc"\)\s*==\s*0\)\s*\{(.*?)MIR_finish_func\s*\(ctx\)', rd, re.S)
        if not m:
            raise Unrec("reader: endfunc branch not recognised")
        eb = norm(m.group(1))
        if "endfunc should have no labels" in eb and "MIR_append_insn" not in eb:
            return False
        if ("endfunc should have no labels" not in eb
                and re.search(r"for \(size_t j = 0; j < VARR_LENGTH \(uint64_t, insn_label_string_nums\); j\+\+\) "
                              r"MIR_append_insn \(ctx, func, to_lab \(ctx, VARR_GET \(uint64_t, insn_label_string_nums, j\)\)\);", eb)):
            return True
        raise Unrec("reader: unknown treatment of labels before endfunc: %r" % eb[:300])
    endfunc_labels = fact("endfuncLabels", f_endfunc, True)

    m = re.search(r"#define\s+OUT_FLAG\s+(.*)", raw)
    if not m:
        die("OUT_FLAG not found")
    return {"codes": codes, "types": types, "modes": modes, "tags": tags, "rows": rows, "nops": nops,
            "out_flag": ev(m.group(1), env), "version": version, "blk_num": blk_num,
            "code_limit": code_limit, "code_limit_name": code_limit_name, "insn_bound": insn_bound,
            "cfg": {"unportable": unport_r, "globalDoubleRead": double_read, "lrefOrphan": lref_orphan,
                    "dataPtr": data_ptr, "codeLimit": code_limit, "endfuncLabels": endfunc_labels, "lrefZeroIsNone": lref_zero_none},
            "unrecognised": unrecognised}


def main():
    t = load()
    codes, types, tags, rows, nops = t["codes"], t["types"], t["tags"], t["rows"], t["nops"]
    version, blk_num, code_limit, code_limit_name = t["version"], t["blk_num"], t["code_limit"], t["code_limit_name"]
    insn_bound = t["insn_bound"]
    unport_r = t["cfg"]["unportable"]
    double_read, lref_orphan, data_ptr = t["cfg"]["globalDoubleRead"], t["cfg"]["lrefOrphan"], t["cfg"]["dataPtr"]
    endfunc_labels = t["cfg"]["endfuncLabels"]

    def lstr(s):
        return '"' + s + '"'

    L = []
    L.append("import MirVerif.Model.BinIO")
    L.append("/-! GENERATED by translate/c11_tables.py from %s/mir.h and mir.c -- never edit. -/" % REPO)
    L.append("namespace MirVerif.Gen.C11")
    L.append("")
    L.append("/-- `bin_tag_t` enumerators with their values -/")
    L.append("def tags : List (String × Nat) := [")
    L.append(",\n".join("  (%s, %d)" % (lstr(n), v) for n, v in tags))
    L.append("]")
    L.append("")
    L.append("/-- `MIR_type_t` -/")
    L.append("def types : List (String × Nat) := [")
    L.append(",\n".join("  (%s, %d)" % (lstr(n), v) for n, v in types))
    L.append("]")
    L.append("def blkNum : Nat := %d" % blk_num)
    L.append("")
    L.append("/-- `MIR_insn_code_t` -/")
    L.append("def insnCodes : List (String × Nat) := [")
    L.append(",\n".join("  (%s, %d)" % (lstr(n), v) for n, v in codes))
    L.append("]")
    L.append("/-- insn names of `insn_descs` (for diagnostics) -/")
    L.append("def insnNames : List String := [" + ", ".join(lstr(r[1]) for r in rows) + "]")
    L.append("")
    L.append("/-- `insn_code_nops` for every row of `insn_descs` -/")
    L.append("def nops : List Nat := [" + ", ".join(map(str, nops)) + "]")
    L.append("")
    L.append("/-- the reader's `if (insn_code >= %s)` -/" % code_limit_name)
    L.append("def codeLimit : Nat := %d" % code_limit)
    L.append("def codeLimitName : String := %s" % lstr(code_limit_name))
    L.append("def insnBound : Nat := %d" % insn_bound)
    L.append("")
    L.append("def cfg : BinIO.Cfg := {")
    L.append("  nops := nops,")
    L.append("  codeLimit := codeLimit,")
    L.append("  unportable := [%s]," % ", ".join(map(str, unport_r)))
    L.append("  globalDoubleRead := %s," % ("true" if double_read else "false"))
    L.append("  lrefOrphan := %s," % ("true" if lref_orphan else "false"))
    L.append("  dataPtr := %s," % ("true" if data_ptr else "false"))
    L.append("  endfuncLabels := %s," % ("true" if endfunc_labels else "false"))
    L.append("  lrefZeroIsNone := %s," % ("true" if t["cfg"]["lrefZeroIsNone"] else "false"))
    L.append("  version := %d }" % version)
    L.append("")
    L.append("end MirVerif.Gen.C11")
    text = "\n".join(L) + "\n"
    os.makedirs(os.path.dirname(OUT), exist_ok=True)
    try:
        old = open(OUT).read()
    except OSError:
        old = None
    if old != text:
        with open(OUT + ".tmp", "w") as f:
            f.write(text)
        os.replace(OUT + ".tmp", OUT)
    print("c11_tables.py: %d tags, %d insn codes, codeLimit=%s(%d), doubleRead=%s lrefOrphan=%s dataPtr=%s endfuncLabels=%s"
          % (len(tags), len(codes), code_limit_name, code_limit, double_read, lref_orphan, data_ptr, endfunc_labels))


if __name__ == "__main__":
    main()
