#!/usr/bin/env python3
"""T1 translator for C20: reads mir2c/mir2c.c, mir.h and mir.c of the CURRENT tree ($VERIF_REPO or
/repo) and writes lean/MirVerif/Gen/C20_Tables.lean:

  * helperCasts : for every emitting helper (`out_op3`, `out_uop3`, `out_sop3`, `out_usop3`, `out_bcmp`,
    `out_bucmp`, `out_bscmp`, `out_buscmp`) the C types its body casts the two source operands to
    (read from the format strings of the helper's own `fprintf` calls; an operand printed without a
    cast has the type of an emitted register variable, `int64_t`);
  * intRows  : `case MIR_<OP>: out_[u|s|us]op3 (ctx, f, ops, "<cop>")` rows of `out_insn` as
               (opcode, Tmpl cast1 cast2 op) with the casts taken from helperCasts;
  * brRows   : the same for `out_b[u|s|us]cmp`;
  * castRows : `out_op2 (ctx, f, ops, "(int64_t) (int8_t)")` rows (EXT*/UEXT*) as lists of casts, outermost first;
  * negRows  : `out_op2 (..., "- (int64_t)")` rows;
  * otherRows: every other helper row (moves, floating point, conversions) as strings;
  * inlineCases : opcodes whose C text is written inline in the `switch` (calls, ret, overflow insns, ...);
  * allOpcodes : `MIR_insn_code_t` of mir.h in order (up to, excluding, INVALID_INSN);
  * finishRejects : opcodes `MIR_finish_func` rejects unconditionally (`use or phi can be used only internally`);
  * sectionAdvanceVar : the variable whose DLIST_NEXT the data-section loop of `out_item` advances to;
  * pinned : normalised source text of the helpers, of the inline cases whose meaning
    Model/Mir2C.lean transcribes by hand (BT/BF, overflow insns, BO/BNO) and of the section loop.

With --canon the pinned texts are written to lean/MirVerif/Model/Mir2CPinned.lean (done once, by hand,
after reviewing them against Model/Mir2C*.lean)."""
import os, re, sys

REPO = os.environ.get("VERIF_REPO", "/repo")
HERE = os.path.dirname(os.path.dirname(os.path.abspath(__file__)))

BINOPS = {"+": "add", "-": "sub", "*": "mul", "/": "div", "%": "mod", "&": "and", "|": "or", "^": "xor",
          "<<": "lsh", ">>": "rsh"}
CMPOPS = {"==": "eq", "!=": "ne", "<": "lt", "<=": "le", ">": "gt", ">=": "ge"}
CTYPES = {"int8_t": "i8", "uint8_t": "u8", "int16_t": "i16", "uint16_t": "u16", "int32_t": "i32",
          "uint32_t": "u32", "int64_t": "i64", "uint64_t": "u64"}
OP3_HELPERS = ["out_op3", "out_uop3", "out_sop3", "out_usop3"]
BR_HELPERS = ["out_bcmp", "out_bucmp", "out_bscmp", "out_buscmp"]
PIN_FUNCS = ["out_op2", "out_op3", "out_uop3", "out_sop3", "out_usop3", "out_jmp", "out_bcmp", "out_bucmp",
             "out_bscmp", "out_buscmp", "out_fop3", "out_bfcmp"]
PIN_CASES = ["MIR_BT", "MIR_ADDO", "MIR_ADDOS", "MIR_UMULO", "MIR_UMULOS", "MIR_BO", "MIR_BNO"]


def strip_comments(s):
    s = re.sub(r"/\*.*?\*/", " ", s, flags=re.S)
    return re.sub(r"//[^\n]*", " ", s)


def norm(s):
    return re.sub(r"\s+", " ", strip_comments(s)).strip()


def lean_str(s):
    return '"' + s.replace("\\", "\\\\").replace('"', '\\"') + '"'


def chunks(v, n=100):
    return '[' + ', '.join(lean_str(v[i:i + n]) for i in range(0, max(len(v), 1), n)) + ']'


def func_body(src, name):
    """text between the braces of `static void <name> (...) {` ... `\n}`"""
    m = re.search(r"\nstatic void " + name + r"\s*\([^)]*\)\s*\{[ \t]*\n(.*?)\n\}[ \t]*\n", strip_comments(src), flags=re.S)
    return m.group(1) if m else None


def emitted_text(body):
    """the literal text a helper emits: the format strings of its fprintf calls concatenated, with @k
    for out_op (ops[k]), goto@k for out_jmp (ops[k]) and %s for the operator string"""
    if body is None:
        return None
    out = ""
    for m in re.finditer(r'fprintf \(f, "((?:[^"\\]|\\.)*)"|out_op \(ctx, f, (ops\[(\d)\]|label_op)\)|out_jmp \(ctx, f, ops\[(\d)\]\)',
                         strip_comments(body)):
        if m.group(1) is not None:
            out += m.group(1)
        elif m.group(2) is not None:
            out += "@" + (m.group(3) if m.group(3) is not None else "L")
        else:
            out += "goto@" + m.group(4)
    return out


def helper_casts(body):
    """(emitted text, [cast of operand 1, cast of operand 2]); an operand without a cast is a register
    variable (int64_t)"""
    out = emitted_text(body)
    if out is None:
        return None
    res = []
    for k in ("1", "2"):
        m = re.search(r"((?:\(\w+\)\s*)*)@" + k, out)
        if not m:
            return None
        casts = re.findall(r"\((\w+)\)", m.group(1))
        if len(casts) > 1 or any(c not in CTYPES for c in casts):
            return None
        res.append(CTYPES[casts[0]] if casts else "i64")
    return out, res


def switch_groups(body):
    """groups of `case MIR_X:` labels of the outermost switch of out_insn with their statement text"""
    s = strip_comments(body)
    i = s.index("switch (insn->code) {") + len("switch (insn->code) {")
    depth, groups, labels, start, pos = 1, [], [], None, i
    tok = re.compile(r"\{|\}|case\s+MIR_(\w+)\s*:|default\s*:|\"(?:[^\"\\]|\\.)*\"|'(?:[^'\\]|\\.)*'")
    cur_text_start = None
    for m in tok.finditer(s, i):
        t = m.group(0)
        if t == "{":
            depth += 1
        elif t == "}":
            depth -= 1
            if depth == 0:
                if labels:
                    groups.append((labels, s[cur_text_start:m.start()]))
                break
        elif depth == 1 and (t.startswith("case") or t.startswith("default")):
            if labels and cur_text_start is not None and s[cur_text_start:m.start()].strip():
                groups.append((labels, s[cur_text_start:m.start()]))
                labels = []
            labels = labels + [m.group(1) if t.startswith("case") else "default"]
            cur_text_start = m.end()
    return groups


def extract():
    src = open(os.path.join(REPO, "mir2c/mir2c.c")).read()
    mirh = open(os.path.join(REPO, "mir.h")).read()
    mirc = open(os.path.join(REPO, "mir.c")).read()
    hc = {}
    for h in OP3_HELPERS + BR_HELPERS:
        r = helper_casts(func_body(src, h))
        hc[h] = r
    body = func_body(src, "out_insn")
    int_rows, br_rows, cast_rows, neg_rows, other, inline, pinned = [], [], [], [], [], [], []
    problems = []
    groups = switch_groups(body) if body else []
    if not groups:
        problems.append("out_insn switch not found")
    for labels, text in groups:
        t = norm(text)
        m = re.fullmatch(r'(out_\w+) \(ctx, f, ops, (NULL|"((?:[^"\\]|\\.)*)")\); break;', t)
        for op in labels:
            if op == "default":
                continue
            if m is None:
                inline.append(op)
                continue
            helper, arg = m.group(1), m.group(3)
            if helper in OP3_HELPERS and hc.get(helper) and arg in BINOPS:
                c1, c2 = hc[helper][1]
                int_rows.append((op, f"⟨.{c1}, .{c2}, .bin .{BINOPS[arg]}⟩"))
            elif helper in OP3_HELPERS and hc.get(helper) and arg in CMPOPS:
                c1, c2 = hc[helper][1]
                int_rows.append((op, f"⟨.{c1}, .{c2}, .cmp .{CMPOPS[arg]}⟩"))
            elif helper in BR_HELPERS and hc.get(helper) and arg in CMPOPS:
                c1, c2 = hc[helper][1]
                br_rows.append((op, f"⟨.{c1}, .{c2}, .cmp .{CMPOPS[arg]}⟩"))
            elif helper == "out_op2" and arg is not None and re.fullmatch(r"(\(u?int\d+_t\)\s*){2,}", arg):
                cast_rows.append((op, [CTYPES[c] for c in re.findall(r"\((\w+)\)", arg)]))
            elif helper == "out_op2" and arg is not None and re.fullmatch(r"- \((u?int\d+_t)\)", arg):
                neg_rows.append((op, CTYPES[re.fullmatch(r"- \((u?int\d+_t)\)", arg).group(1)]))
            else:
                other.append((op, helper, "NULL" if arg is None else arg))
        if m is None and any(("MIR_" + l) in PIN_CASES for l in labels):
            pinned.append(("case " + " ".join("MIR_" + l for l in labels), t))
    htext = [(h, emitted_text(func_body(src, h)) or "<missing>") for h in PIN_FUNCS]
    # statement order inside the ADDO/SUBO[S] cases: is `__uoverflow = ...` printed before the statement that
    # stores the result (`__overflow = __builtin_..._overflow(..., &dst)`)?
    uorder = []
    for k, t in pinned:
        if k.startswith("case MIR_ADDO"):
            iu, iv = t.find("__uoverflow = __builtin_"), t.find("__overflow = __builtin_")
            # t.find("__overflow = ") would also hit inside "__uoverflow = ": look for the signed one explicitly
            iv = min([m.start() for m in re.finditer(r"(?<!u)__overflow = __builtin_", t)] or [-1])
            uorder.append(iu >= 0 and iv >= 0 and iu < iv)
    ufirst = bool(uorder) and all(uorder)
    # the data-section loop of out_item
    item = func_body(src, "out_item") or ""
    m = re.search(r"for \(n = 0, curr_item = item; curr_item != NULL;\s*curr_item = DLIST_NEXT \(MIR_item_t, (\w+)\), n\+\+\)", item)
    adv = m.group(1) if m else "<missing>"
    m2 = re.search(r"case MIR_bss_item:\s*case MIR_data_item:\s*case MIR_ref_data_item:\s*case MIR_expr_data_item: \{(.*?)\n  default: mir_assert", item, flags=re.S)
    sect = norm(m2.group(1)) if m2 else "<missing>"
    # the loop text with the advance variable abstracted (pinned separately from sectionAdvanceVar)
    sect_abs = re.sub(r"curr_item = DLIST_NEXT \(MIR_item_t, \w+\), n\+\+", "curr_item = DLIST_NEXT (MIR_item_t, <ADV>), n++", sect)
    pinned.append(("section loop", sect_abs))
    # opcode enum (after the preprocessor-free reading of the REPn (INSN_EL, ...) lists)
    em = re.search(r"typedef enum \{(.*?)\} MIR_insn_code_t;", mirh, flags=re.S)
    ops = []
    if em:
        e = strip_comments(em.group(1))
        for mm in re.finditer(r"REP\d \(INSN_EL,([^)]*)\)|INSN_EL \((\w+)\)", e):
            if mm.group(1) is not None:
                ops += [x.strip() for x in mm.group(1).split(",") if x.strip()]
            else:
                ops.append(mm.group(2))
    if "INVALID_INSN" in ops:
        ops = ops[:ops.index("INVALID_INSN")]
    else:
        problems.append("MIR_insn_code_t not found")
    rej = []
    fm = re.search(r"if \(((?:code == MIR_\w+\s*\|\|\s*)*code == MIR_\w+)\) \{\s*curr_func = NULL;\s*MIR_get_error_func \(ctx\) \(MIR_vararg_func_error, \"use or phi can be used only internally\"\);", mirc)
    if fm:
        rej = re.findall(r"MIR_(\w+)", fm.group(1))
    else:
        problems.append("finish_func rejection of use/phi not found")
    for h in OP3_HELPERS + BR_HELPERS:
        if hc[h] is None:
            problems.append(f"helper {h}: emitted text not understood")
    return dict(int_rows=int_rows, br_rows=br_rows, cast_rows=cast_rows, neg_rows=neg_rows, other=other,
                inline=inline, pinned=pinned, ops=ops, rej=rej, adv=adv,
                htext=htext, ufirst=ufirst,
                problems=problems)


def emit_gen(d):
    out = ["/- GENERATED on every run by translate/c20_tables.py from mir2c/mir2c.c, mir.h, mir.c — do not edit. -/",
           "import MirVerif.Model.Mir2C", "namespace MirVerif.Gen.C20", "open MirVerif.Mir2C", ""]
    out.append("def helperText : List (String × String) := [")
    out.append(",\n".join(f"  ({lean_str(h)}, {lean_str(t)})" for h, t in d["htext"]) + "]\n")
    out.append("def intRows : List (String × Tmpl) := [")
    out.append(",\n".join(f"  ({lean_str(o)}, {k})" for o, k in d["int_rows"]) + "]\n")
    out.append("def brRows : List (String × Tmpl) := [")
    out.append(",\n".join(f"  ({lean_str(o)}, {k})" for o, k in d["br_rows"]) + "]\n")
    out.append("def castRows : List (String × List CTy) := [")
    out.append(",\n".join(f"  ({lean_str(o)}, [{', '.join('.' + c for c in cs)}])" for o, cs in d["cast_rows"]) + "]\n")
    out.append("def negRows : List (String × CTy) := [")
    out.append(",\n".join(f"  ({lean_str(o)}, .{c})" for o, c in d["neg_rows"]) + "]\n")
    out.append("def otherRows : List (String × String × String) := [")
    out.append(",\n".join(f"  ({lean_str(o)}, {lean_str(h)}, {lean_str(a)})" for o, h, a in d["other"]) + "]\n")
    out.append("def inlineCases : List String := [" + ", ".join(lean_str(o) for o in d["inline"]) + "]\n")
    out.append("def allOpcodes : List String := [" + ", ".join(lean_str(o) for o in d["ops"]) + "]\n")
    out.append("def finishRejects : List String := [" + ", ".join(lean_str(o) for o in d["rej"]) + "]\n")
    # enum values of the case labels, in the order intRows, brRows, castRows, negRows, otherRows, inlineCases
    # (Lemmas/BridgeC20.lean re-checks them against the names, so they are not trusted)
    idx = {o: i for i, o in enumerate(d["ops"])}
    names = [o for o, _ in d["int_rows"]] + [o for o, _ in d["br_rows"]] + [o for o, _ in d["cast_rows"]] + \
            [o for o, _ in d["neg_rows"]] + [o for o, _, _ in d["other"]] + list(d["inline"])
    out.append("def caseCodes : List Nat := [" + ", ".join(str(idx.get(o, 9999)) for o in names) + "]\n")
    out.append("def rejectCodes : List Nat := [" + ", ".join(str(idx.get(o, 9999)) for o in d["rej"]) + "]\n")
    out.append(f"def sectionAdvanceVar : String := {lean_str(d['adv'])}\n")
    out.append("/-- in the ADDO/SUBO[S] cases the unsigned-overflow statement is printed before the statement storing the result -/")
    out.append(f"def uoverflowBeforeStore : Bool := {'true' if d['ufirst'] else 'false'}\n")
    out.append("def pinned : List (String × List String) := [")
    out.append(",\n".join(f"  ({lean_str(k)}, {chunks(v)})" for k, v in d["pinned"]) + "]\n")
    out.append("end MirVerif.Gen.C20")
    return "\n".join(out) + "\n"


def emit_canon(d):
    out = ["/- Pinned source texts of mir2c/mir2c.c, reviewed by hand against Model/Mir2C.lean, Model/Mir2COvf.lean and",
           "   Model/Mir2CSection.lean (written once by translate/c20_tables.py --canon; NOT regenerated by checks). -/",
           "namespace MirVerif.Canon.C20", ""]
    out.append("def helperText : List (String × String) := [")
    out.append(",\n".join(f"  ({lean_str(h)}, {lean_str(t)})" for h, t in d["htext"]) + "]\n")
    out.append("def pinned : List (String × List String) := [")
    out.append(",\n".join(f"  ({lean_str(k)}, {chunks(v)})" for k, v in d["pinned"]) + "]\n")
    out.append("/-- the rows without a Lean meaning (moves, floating point, conversions): opcode, helper, operator/cast text -/")
    out.append("def otherRows : List (String × String × String) := [")
    out.append(",\n".join(f"  ({lean_str(o)}, {lean_str(h)}, {lean_str(a)})" for o, h, a in d["other"]) + "]\n")
    out.append("def inlineCases : List String := [" + ", ".join(lean_str(o) for o in d["inline"]) + "]\n")
    out.append("end MirVerif.Canon.C20")
    return "\n".join(out) + "\n"


def main():
    d = extract()
    if "--json" in sys.argv:
        import json
        print(json.dumps(d, indent=1, ensure_ascii=False))
        return
    if "--canon" in sys.argv:
        p = os.path.join(HERE, "lean/MirVerif/Model/Mir2CPinned.lean")
        txt = emit_canon(d)
    else:
        p = os.path.join(HERE, "lean/MirVerif/Gen/C20_Tables.lean")
        txt = emit_gen(d)
    old = open(p).read() if os.path.exists(p) else None
    if old != txt:
        os.makedirs(os.path.dirname(p), exist_ok=True)
        open(p, "w").write(txt)
    print(f"c20_tables: {len(d['int_rows'])} int rows, {len(d['br_rows'])} branch rows, {len(d['cast_rows'])} cast rows, "
          f"{len(d['neg_rows'])} neg rows, {len(d['other'])} other rows, {len(d['inline'])} inline cases, "
          f"{len(d['ops'])} opcodes, section loop advances with '{d['adv']}', {len(d['pinned'])} pinned texts -> {p}")
    if d["problems"]:
        print("c20_tables: PROBLEMS: " + "; ".join(d["problems"]))
        sys.exit(1)


if __name__ == "__main__":
    main()
