#!/usr/bin/env python3
"""T1 translator for C01: tables of the optimizer, read from the CURRENT tree ($VERIF_REPO or /repo):
  * foldRows      : GVN constant folder   `case MIR_<OP>: GVN_<MACRO> (<op>)`            (mir-gen.c)
  * reverseRows   : MIR_reverse_branch_code                                            (mir.c)
  * commRows      : commutative_insn_code                                              (mir-gen.c)
  * combRows      : get_combined_br_code (cmp, code if true_p, code if !true_p or "-")  (mir-gen.c)
  * pinned        : normalised source text of the GVN_* macros, their operand getters, gen_int_log2,
                    power2_int_op and transform_mul_div (whose algebra Lemmas/GenPow2.lean proves)
Writes lean/MirVerif/Gen/C01_Tables.lean; with --canon writes Model/GenCanon.lean (reviewed once)."""
import os, re, sys

REPO = os.environ.get("VERIF_REPO", "/repo")
HERE = os.path.dirname(os.path.dirname(os.path.abspath(__file__)))
BINOPS = {"+": "add", "-": "sub", "*": "mul", "/": "div", "%": "mod", "&": "and", "|": "or", "^": "xor",
          "<<": "lsh", ">>": "rsh"}
CMPOPS = {"==": "eq", "!=": "ne", "<": "lt", "<=": "le", ">": "gt", ">=": "ge"}
FOLD = {"GVN_IOP3": ("plain", "IOP3"), "GVN_IOP3S": ("plain", "IOP3S"), "GVN_UOP3": ("plain", "UOP3"),
        "GVN_UOP3S": ("plain", "UOP3S"), "GVN_IOP30": ("nz", "IOP3"), "GVN_IOP3S0": ("nz", "IOP3S"),
        "GVN_UOP30": ("nz", "UOP3"), "GVN_UOP3S0": ("nz", "UOP3S"), "GVN_ICMP": ("plain", "ICMP"),
        "GVN_ICMPS": ("plain", "ICMPS"), "GVN_UCMP": ("plain", "UCMP"), "GVN_UCMPS": ("plain", "UCMPS")}
PIN_MACROS = ["GVN_EXT", "GVN_IOP2", "GVN_IOP2S", "GVN_IOP3", "GVN_IOP3S", "GVN_UOP3", "GVN_UOP3S", "GVN_IOP30",
              "GVN_IOP3S0", "GVN_UOP30", "GVN_UOP3S0", "GVN_ICMP", "GVN_ICMPS", "GVN_UCMP", "GVN_UCMPS"]
PIN_FUNCS = ["get_gvn_op", "get_gvn_2iops", "get_gvn_2isops", "get_gvn_3iops", "get_gvn_3isops", "get_gvn_3uops",
             "get_gvn_3usops", "gen_int_log2", "power2_int_op", "transform_mul_div", "canonic_mem_type", "get_ext_params"]


def norm(s):
    s = re.sub(r"/\*.*?\*/", " ", s, flags=re.S)
    s = s.replace("\\\n", " ")
    return re.sub(r"\s+", " ", s).strip()


def chunks(v, n=100):
    return '[' + ', '.join(lstr(v[i:i + n]) for i in range(0, max(len(v), 1), n)) + ']'


def lstr(s):
    return '"' + s.replace("\\", "\\\\").replace('"', '\\"') + '"'


def func_body(src, name):
    m = re.search(r"\n(?:static\s+)?[\w \*]+\b" + name + r"\s*\([^;{]*\)\s*\{", src)
    if not m:
        return None
    i = m.end()
    depth = 1
    while depth and i < len(src):
        depth += {"{": 1, "}": -1}.get(src[i], 0)
        i += 1
    return src[m.end():i - 1]


def switch_rows(body):
    """[(labels, statement-text)]: consecutive `case X:` labels share all statements up to the next
    `break`/`return`/`goto`/`continue` or the next case label"""
    body = re.sub(r"/\*.*?\*/", " ", body, flags=re.S)
    rows, labels, closed = [], [], False
    for m in re.finditer(r"\s*case\s+MIR_(\w+)\s*:|\s*default\s*:|\s*([^;{}]+;)|[{}]", body):
        if m.group(1):
            if closed:
                labels, closed = [], False
            labels.append(m.group(1))
        elif m.group(0).strip().startswith("default"):
            labels, closed = [], False
        elif m.group(2) and labels:
            st = norm(m.group(2))
            rows.append((list(labels), st))
            if re.match(r"(break|goto\b.*|continue)\s*;", st) or st.startswith("return"):
                closed = True
    return rows


def extract():
    gen = open(os.path.join(REPO, "mir-gen.c")).read()
    mir = open(os.path.join(REPO, "mir.c")).read()
    fold, other_fold = [], []
    for labels, st in switch_rows(gen):
        m = re.match(r"(GVN_\w+)\s*\(\s*([^()]+?)\s*\)\s*;", st)
        if not m:
            continue
        macro, arg = m.group(1), m.group(2)
        for op in labels:
            if macro in FOLD and (arg in BINOPS or arg in CMPOPS):
                pn, k = FOLD[macro]
                a = f"BinOp.{BINOPS[arg]}" if k in ("IOP3", "IOP3S", "UOP3", "UOP3S") else f"CmpOp.{CMPOPS[arg]}"
                fold.append((op, f"FoldKind.{pn} (Kind.{k} {a})"))
            else:
                other_fold.append((op, macro, arg))
    rev = []
    for labels, st in switch_rows(func_body(mir, "MIR_reverse_branch_code") or ""):
        m = re.match(r"return\s+MIR_(\w+)\s*;", st)
        if m:
            rev += [(l, m.group(1)) for l in labels]
    comm = []
    for labels, st in switch_rows(func_body(gen, "commutative_insn_code") or ""):
        m = re.match(r"return\s+(?:MIR_(\w+)|insn_code)\s*;", st)
        if m:
            comm += [(l, m.group(1) or l) for l in labels]
    comb = []
    for labels, st in switch_rows(func_body(gen, "get_combined_br_code") or ""):
        m = re.match(r"return\s+true_p\s*\?\s*MIR_(\w+)\s*:\s*MIR_(\w+)\s*;", st)
        if m:
            comb += [(l, m.group(1), "-" if m.group(2) == "INSN_BOUND" else m.group(2)) for l in labels]
    pinned = []
    for mname in PIN_MACROS:
        mm = re.search(r"#define\s+" + mname + r"\s*\(\w+\)((?:.*\\\n)*.*)\n", gen)
        pinned.append(("macro " + mname, norm(mm.group(1)) if mm else "<missing>"))
    for f in PIN_FUNCS:
        b = func_body(gen, f)
        pinned.append(("func " + f, norm(b) if b else "<missing>"))
    # the constant combination of `r1=r0+c1; r2=r1+c2 => r2=r0+(c1+c2)` in gvn_modify, and how a constant
    # operand of add/sub enters it
    mm = re.search(r"r2=temp\+\(const\+const2\): \*/(.*?)new_bb_insn2 = NULL;", gen, flags=re.S)
    snippet = mm.group(1) if mm else ""
    keep = [l.strip() for l in snippet.split("\n") if re.search(r"val2|insn->code == MIR_ADDS|MIR_new_insn \(ctx, MIR_(ADDS|ADD|MOV), insn->ops\[0\]", l)]
    pinned.append(("snippet gvn_modify add/sub chain", norm(" ".join(keep)) if keep else "<missing>"))
    b = func_body(gen, "add_sub_const_insn_p")
    mm = re.search(r"\*val = (.*?);", b or "", flags=re.S)
    pinned.append(("snippet add_sub_const_insn_p value", norm(mm.group(1)) if mm else "<missing>"))
    # merging of two extensions in a row (copy_prop and combine_exts): every test on the two widths / signs and
    # which opcode the remaining extension gets
    keep = [l.strip() for l in gen.split("\n")
            if (re.search(r"\bw2\b", l) and re.search(r"\bif \(|get_ext_params", l) and "int " not in l)
            or re.search(r"insn->code = def_insn->code;", l)]
    pinned.append(("snippet ext merge guards", norm(" ".join(keep)) if keep else "<missing>"))
    return fold, other_fold, rev, comm, comb, pinned


def emit(ns, data, header):
    fold, other_fold, rev, comm, comb, pinned = data
    out = [header, "import MirVerif.Model.GenTable", f"namespace MirVerif.{ns}", ""]
    out.append("def foldRows : List (String × FoldKind) := [\n" + ",\n".join(f"  ({lstr(o)}, {k})" for o, k in fold) + "]\n")
    out.append("def otherFoldRows : List (String × String × String) := [\n" +
               ",\n".join(f"  ({lstr(o)}, {lstr(m)}, {lstr(a)})" for o, m, a in other_fold) + "]\n")
    out.append("def reverseRows : List (String × String) := [\n" + ",\n".join(f"  ({lstr(a)}, {lstr(b)})" for a, b in rev) + "]\n")
    out.append("def commRows : List (String × String) := [\n" + ",\n".join(f"  ({lstr(a)}, {lstr(b)})" for a, b in comm) + "]\n")
    out.append("def combRows : List (String × String × String) := [\n" +
               ",\n".join(f"  ({lstr(a)}, {lstr(b)}, {lstr(c)})" for a, b, c in comb) + "]\n")
    out.append("def pinned : List (String × List String) := [\n" + ",\n".join(f"  ({lstr(k)}, {chunks(v)})" for k, v in pinned) + "]\n")
    out.append(f"end MirVerif.{ns}")
    return "\n".join(out) + "\n"


def main():
    data = extract()
    if "--canon" in sys.argv:
        p = os.path.join(HERE, "lean/MirVerif/Model/GenCanon.lean")
        txt = emit("Canon.C01", data, "/- Canonical optimizer tables and pinned source texts (mir-gen.c, mir.c), reviewed by hand against\n   Model/GenTable.lean and Lemmas/GenPow2.lean (written once by translate/c01_tables.py --canon). -/")
    else:
        p = os.path.join(HERE, "lean/MirVerif/Gen/C01_Tables.lean")
        txt = emit("Gen.C01", data, "/- GENERATED on every run by translate/c01_tables.py — do not edit. -/")
    old = open(p).read() if os.path.exists(p) else None
    if old != txt:
        os.makedirs(os.path.dirname(p), exist_ok=True)
        open(p, "w").write(txt)
    print(f"c01_tables: fold {len(data[0])}+{len(data[1])}, reverse {len(data[2])}, comm {len(data[3])}, comb {len(data[4])}, pinned {len(data[5])} -> {p}")


if __name__ == "__main__":
    main()
