#!/usr/bin/env python3
"""T1 translator for C11: `uint_length` and `int_length` of $VERIF_REPO/mir.c -> Lean definitions
over BitVec (lean/MirVerif/Gen/C11_Funs.lean), from clang's typed JSON AST, so that C's implicit
conversions are taken from clang and not re-implemented here.

Supported subset (anything else fails loudly, exit 2): integer parameters and locals, integral
casts, + - * / % & | ^ ~ << >> ! && || ?: comparisons, if / return, assignment and compound
assignment to locals, ++/--, `for`/`while` loops.  Loops are unrolled FUEL times in continuation
style; besides the value function `f` a second function `f_exhausted : … → Bool` is emitted that is
true exactly when the unrolling was too short for the given argument.  The bridge lemmas
(Lemmas/BridgeC11.lean) prove `f_exhausted = false` for all inputs, so the unrolled definition is
the C function, and then `f = model`."""
import json, os, subprocess, sys
from concurrent.futures import ThreadPoolExecutor

VERIF = os.path.dirname(os.path.dirname(os.path.abspath(__file__)))
REPO = os.environ.get("VERIF_REPO", "/repo")
OUT = os.path.join(VERIF, "lean", "MirVerif", "Gen", "C11_Funs.lean")
FUNCS = [("uint_length", 9), ("int_length", 9)]     # (name, unrolling depth)

INT = {'char': (8, True), 'signed char': (8, True), 'unsigned char': (8, False), 'short': (16, True),
       'unsigned short': (16, False), 'int': (32, True), 'unsigned int': (32, False), 'long': (64, True),
       'unsigned long': (64, False), 'long long': (64, True), 'unsigned long long': (64, False), '_Bool': (8, False)}
TYPEDEFS = {'int64_t': 'long', 'uint64_t': 'unsigned long', 'int32_t': 'int', 'uint32_t': 'unsigned int',
            'size_t': 'unsigned long', 'uint8_t': 'unsigned char', 'int8_t': 'signed char',
            'uint16_t': 'unsigned short', 'int16_t': 'short'}


def die(msg):
    sys.stderr.write("c11_cfun.py: " + msg + "\n")
    sys.exit(2)


def ast_of(fn):
    cmd = ['clang-14', '-std=gnu11', '-fsyntax-only', '-w', '-I' + REPO, '-Xclang', '-ast-dump=json', '-Xclang',
           '-ast-dump-filter=' + fn, os.path.join(REPO, 'mir.c')]
    out = subprocess.run(cmd, capture_output=True, text=True).stdout
    dec = json.JSONDecoder()
    i, res = 0, []
    while i < len(out):
        while i < len(out) and out[i] in ' \n\r\t':
            i += 1
        if i >= len(out):
            break
        try:
            o, j = dec.raw_decode(out, i)
        except ValueError:
            j = out.find('\n', i)
            if j < 0:
                break
            i = j + 1
            continue
        res.append(o)
        i = j
    for o in res:
        if o.get('kind') == 'FunctionDecl' and o.get('name') == fn and any(
                c.get('kind') == 'CompoundStmt' for c in o.get('inner', [])):
            return o
    die('function %s not found by clang' % fn)


def tyq(q):
    q = q.replace('const ', '').strip()
    q = TYPEDEFS.get(q, q)
    if q in INT:
        return INT[q]
    die('unsupported type ' + q)


def ty(n):
    t = n['type']
    return tyq(t.get('desugaredQualType', t['qualType']))


class Tr:
    def __init__(self, fuel):
        self.fuel = fuel

    def cond(self, n):
        k = n['kind']
        if k == 'ParenExpr':
            return self.cond(n['inner'][0])
        if k == 'BinaryOperator' and n['opcode'] in ('==', '!=', '<', '<=', '>', '>='):
            a, b = n['inner']
            (w, sg) = ty(a)
            ea, eb, op = self.expr(a), self.expr(b), n['opcode']
            if op == '==':
                return f'({ea} == {eb})'
            if op == '!=':
                return f'({ea} != {eb})'
            lt = 'BitVec.slt' if sg else 'BitVec.ult'
            le = 'BitVec.sle' if sg else 'BitVec.ule'
            return {'<': f'({lt} {ea} {eb})', '<=': f'({le} {ea} {eb})', '>': f'({lt} {eb} {ea})',
                    '>=': f'({le} {eb} {ea})'}[op]
        if k == 'BinaryOperator' and n['opcode'] == '&&':
            return f'({self.cond(n["inner"][0])} && {self.cond(n["inner"][1])})'
        if k == 'BinaryOperator' and n['opcode'] == '||':
            return f'({self.cond(n["inner"][0])} || {self.cond(n["inner"][1])})'
        if k == 'UnaryOperator' and n['opcode'] == '!':
            return f'(!{self.cond(n["inner"][0])})'
        (w, _) = ty(n)
        return f'({self.expr(n)} != 0#{w})'

    def expr(self, n):
        k = n['kind']
        if k == 'ParenExpr':
            return self.expr(n['inner'][0])
        if k == 'ConstantExpr':
            return self.expr(n['inner'][0])
        if k == 'IntegerLiteral':
            (w, _) = ty(n)
            return f'({n["value"]}#{w})'
        if k == 'DeclRefExpr':
            return 'v_' + n['referencedDecl']['name']
        if k in ('ImplicitCastExpr', 'CStyleCastExpr'):
            ck, c = n['castKind'], n['inner'][0]
            if ck in ('LValueToRValue', 'NoOp'):
                return self.expr(c)
            if ck == 'IntegralCast':
                (w1, s1), (w2, _) = ty(c), ty(n)
                e = self.expr(c)
                if w2 == w1:
                    return e
                if w2 < w1:
                    return f'({e}.setWidth {w2})'
                return f'({e}.signExtend {w2})' if s1 else f'({e}.setWidth {w2})'
            die('unsupported cast ' + ck)
        if k == 'UnaryOperator':
            op, c = n['opcode'], n['inner'][0]
            (w, _) = ty(n)
            if op == '-':
                return f'(-{self.expr(c)})'
            if op == '~':
                return f'(~~~{self.expr(c)})'
            if op == '!':
                return f'(if {self.cond(c)} then 0#{w} else 1#{w})'
            die('unsupported unary ' + op)
        if k == 'ConditionalOperator':
            c, a, b = n['inner']
            return f'(if {self.cond(c)} then {self.expr(a)} else {self.expr(b)})'
        if k == 'BinaryOperator':
            op = n['opcode']
            a, b = n['inner']
            (w, sg) = ty(n)
            if op in ('==', '!=', '<', '<=', '>', '>=', '&&', '||'):
                return f'(if {self.cond(n)} then 1#{w} else 0#{w})'
            return self.binop(op, self.expr(a), self.expr(b), sg)
        die('unsupported expression ' + k)

    @staticmethod
    def binop(op, ea, eb, sg):
        if op in ('+', '-', '*'):
            return f'({ea} {op} {eb})'
        if op == '&':
            return f'({ea} &&& {eb})'
        if op == '|':
            return f'({ea} ||| {eb})'
        if op == '^':
            return f'({ea} ^^^ {eb})'
        if op == '/':
            return f'(BitVec.sdiv {ea} {eb})' if sg else f'({ea} / {eb})'
        if op == '%':
            return f'(BitVec.srem {ea} {eb})' if sg else f'({ea} % {eb})'
        if op == '<<':
            return f'({ea} <<< {eb}.toNat)'
        if op == '>>':
            return f'(BitVec.sshiftRight {ea} {eb}.toNat)' if sg else f'({ea} >>> {eb}.toNat)'
        die('unsupported binary ' + op)

    # ---- statements in continuation style: stmts(list, k) -> Lean term; k() gives the term for "what follows"
    def lval(self, n):
        while n['kind'] == 'ParenExpr':
            n = n['inner'][0]
        if n['kind'] != 'DeclRefExpr':
            die('unsupported lvalue ' + n['kind'])
        return 'v_' + n['referencedDecl']['name'], ty(n)

    def effect(self, n, k):
        """expression statement; returns term"""
        kd = n['kind']
        if kd == 'ParenExpr':
            return self.effect(n['inner'][0], k)
        if kd == 'BinaryOperator' and n['opcode'] == '=':
            t, (w, _) = self.lval(n['inner'][0])
            return f'(let {t} : BitVec {w} := {self.expr(n["inner"][1])}\n {k()})'
        if kd == 'CompoundAssignOperator':
            a, b = n['inner']
            t, (w, sg) = self.lval(a)
            (cw, csg) = tyq(n['computeResultType']['qualType'] if 'computeResultType' in n else a['type']['qualType'])
            lhs = t if cw == w else (f'({t}.signExtend {cw})' if sg else f'({t}.setWidth {cw})')
            val = self.binop(n['opcode'][:-1], lhs, self.expr(b), csg)
            if cw != w:
                val = f'({val}.setWidth {w})'
            return f'(let {t} : BitVec {w} := {val}\n {k()})'
        if kd == 'UnaryOperator' and n['opcode'] in ('++', '--'):
            t, (w, _) = self.lval(n['inner'][0])
            return f'(let {t} : BitVec {w} := {t} {"+" if n["opcode"] == "++" else "-"} 1#{w}\n {k()})'
        if kd == 'BinaryOperator' and n['opcode'] == ',':
            return self.effect(n['inner'][0], lambda: self.effect(n['inner'][1], k))
        die('unsupported expression statement ' + kd)

    def stmts(self, lst, k):
        if not lst:
            return k()
        s, rest = lst[0], lst[1:]
        kd = s['kind']
        nxt = lambda: self.stmts(rest, k)   # noqa: E731
        if kd == 'CompoundStmt':
            return self.stmts(s.get('inner', []) + rest, k)
        if kd == 'NullStmt':
            return nxt()
        if kd == 'DeclStmt':
            def decl(ds):
                if not ds:
                    return nxt()
                d = ds[0]
                (w, _) = ty(d)
                init = [c for c in d.get('inner', []) if 'kind' in c]
                v = self.expr(init[0]) if init else f'0#{w}'
                return f'(let v_{d["name"]} : BitVec {w} := {v}\n {decl(ds[1:])})'
            return decl(s['inner'])
        if kd == 'ReturnStmt':
            return self.ret(self.expr(s['inner'][0]))
        if kd == 'IfStmt':
            c = s['inner'][0]
            th = s['inner'][1]
            el = s['inner'][2] if len(s['inner']) > 2 else None
            a = self.stmts([th], nxt)
            b = self.stmts([el], nxt) if el else nxt()
            return f'(if {self.cond(c)} then {a}\n else {b})'
        if kd in ('ForStmt', 'WhileStmt'):
            if kd == 'ForStmt':
                init, _, c, inc, body = s['inner']
            else:
                c, body = s['inner']
                init = inc = None
            def loop(depth):
                if depth == 0:
                    return self.exhausted()
                def after_body():
                    if inc and inc.get('kind'):
                        return self.effect(inc, lambda: loop(depth - 1))
                    return loop(depth - 1)
                cnd = self.cond(c) if c and c.get('kind') else 'true'
                return f'(if {cnd} then {self.stmts([body], after_body)}\n else {nxt()})'
            if init and init.get('kind'):
                if init['kind'] == 'DeclStmt':
                    return self.stmts([init], lambda: loop(self.fuel))
                return self.effect(init, lambda: loop(self.fuel))
            return loop(self.fuel)
        return self.effect(s, nxt)


class ValTr(Tr):
    def __init__(self, fuel, w):
        super().__init__(fuel)
        self.w = w

    def ret(self, e):
        return e

    def exhausted(self):
        return f'(0#{self.w})'


class FlagTr(Tr):
    def ret(self, e):
        return 'false'

    def exhausted(self):
        return 'true'


def translate(fn, fuel):
    fd = ast_of(fn)
    params = [c for c in fd['inner'] if c['kind'] == 'ParmVarDecl']
    body = [c for c in fd['inner'] if c['kind'] == 'CompoundStmt'][0]
    rq = fd['type']['qualType'].split('(')[0].strip()
    (rw, _) = tyq(rq)
    sig = ' '.join(f'(v_{p["name"]} : BitVec {ty(p)[0]})' for p in params)
    v = ValTr(fuel, rw).stmts([body], lambda: f'(0#{rw})')
    f = FlagTr(fuel).stmts([body], lambda: 'false')
    return (f'/-- `{fn}` of mir.c, loops unrolled {fuel} times -/\n'
            f'def {fn} {sig} : BitVec {rw} :=\n {v}\n\n'
            f'/-- true iff {fuel} unrollings were not enough for this argument -/\n'
            f'def {fn}_exhausted {sig} : Bool :=\n {f}\n')


def main():
    with ThreadPoolExecutor(max_workers=4) as ex:
        parts = list(ex.map(lambda p: translate(*p), FUNCS))
    text = ("/-! GENERATED by translate/c11_cfun.py from %s/mir.c (clang-14 AST) -- never edit. -/\n" % REPO
            + "namespace MirVerif.Gen.C11\nset_option linter.unusedVariables false\n\n" + "\n".join(parts)
            + "\nend MirVerif.Gen.C11\n")
    os.makedirs(os.path.dirname(OUT), exist_ok=True)
    try:
        old = open(OUT).read()
    except OSError:
        old = None
    if old != text:
        with open(OUT + ".tmp", "w") as f:
            f.write(text)
        os.replace(OUT + ".tmp", OUT)
    print("c11_cfun.py: translated " + ", ".join(f for f, _ in FUNCS))


if __name__ == "__main__":
    main()
