#!/usr/bin/env python3
"""T1 translator for C04, reading the CURRENT tree ($VERIF_REPO or /repo), file mir.c:

  * natural_alignment, get_alloca_size_align  -> Lean definitions over BitVec 64 from clang's typed
    JSON AST (implicit conversions are clang's, not re-implemented); pointer out-parameters become
    extra components of the result
  * reverseRows   : MIR_reverse_branch_code                     [(code, reversed code)]
  * retExtRows    : the `switch (res_types[i])` of make_one_ret  [(type, ext code)]
  * argExtRows    : the `switch (var.type)` of simplify_func     [(type, ext code)]
  * shortcutRows  : the opcode/constant lists of the algebraic shortcut condition of simplify_func
  * btConstCodes  : opcodes of the "BT|BF L, 0|1" rewrite
  * thresholds    : default MIR_MAX_INSNS_FOR_INLINE / MIR_MAX_INSNS_FOR_CALL_INLINE / growth
  * pinned        : normalised text of the consolidation loop (whose arithmetic Model/Simplify.lean
                    mirrors; the rounding variant is detected and exported as `roundAlways`); likewise
                    `muloRow` (MULO/MULOS in the shortcut rows) and `freshRets` (make_one_ret merging the
                    values of several rets through fresh temporaries) select the model variant
Writes lean/MirVerif/Gen/C04_Tables.lean.  Anything unexpected makes the translator fail (exit 2)."""
import json, os, re, subprocess, sys

VERIF = os.path.dirname(os.path.dirname(os.path.abspath(__file__)))
REPO = os.environ.get("VERIF_REPO", "/repo")
OUT = os.path.join(VERIF, "lean", "MirVerif", "Gen", "C04_Tables.lean")

INT = {'char': (8, True), 'signed char': (8, True), 'unsigned char': (8, False), 'short': (16, True),
       'unsigned short': (16, False), 'int': (32, True), 'unsigned int': (32, False), 'long': (64, True),
       'unsigned long': (64, False), 'long long': (64, True), 'unsigned long long': (64, False), '_Bool': (8, False)}
TYPEDEFS = {'int64_t': 'long', 'uint64_t': 'unsigned long', 'int32_t': 'int', 'uint32_t': 'unsigned int',
            'size_t': 'unsigned long'}


def die(msg):
    sys.stderr.write("c04_tables.py: " + msg + "\n")
    sys.exit(2)


def ast_of(fn):
    cmd = ['clang-14', '-std=gnu11', '-fsyntax-only', '-w', '-I' + REPO, '-Xclang', '-ast-dump=json', '-Xclang',
           '-ast-dump-filter=' + fn, os.path.join(REPO, 'mir.c')]
    out = subprocess.run(cmd, capture_output=True, text=True, timeout=120).stdout
    dec = json.JSONDecoder()
    i, res = 0, []
    while i < len(out):
        while i < len(out) and out[i] in ' \n\r\t':
            i += 1
        if i >= len(out):
            break
        try:
            o, j = dec.raw_decode(out, i)
        except ValueError:
            j = out.find('\n', i)
            if j < 0:
                break
            i = j + 1
            continue
        res.append(o)
        i = j
    for o in res:
        if o.get('kind') == 'FunctionDecl' and o.get('name') == fn and any(
                c.get('kind') == 'CompoundStmt' for c in o.get('inner', [])):
            return o
    die('function %s not found by clang' % fn)


def tyq(q):
    q = q.replace('const ', '').strip()
    q = TYPEDEFS.get(q, q)
    if q in INT:
        return INT[q]
    if q.endswith('*'):
        return ('ptr',) + tyq(q[:-1].strip())
    die('type ' + q)


def ty(n):
    t = n['type']
    return tyq(t.get('desugaredQualType', t['qualType']))


class Tr:
    """statements -> nested lets; every C variable x is the Lean variable v_x (shadowed on assignment)"""

    def __init__(self, known):
        self.known = known
        self.lets = []

    def cond(self, n):
        k = n['kind']
        if k == 'ParenExpr':
            return self.cond(n['inner'][0])
        if k == 'BinaryOperator' and n['opcode'] in ('==', '!=', '<', '<=', '>', '>='):
            a, b = n['inner']
            (w, sg) = ty(a)
            ea, eb, op = self.expr(a), self.expr(b), n['opcode']
            if op == '==':
                return f'({ea} == {eb})'
            if op == '!=':
                return f'({ea} != {eb})'
            lt = 'BitVec.slt' if sg else 'BitVec.ult'
            le = 'BitVec.sle' if sg else 'BitVec.ule'
            return {'<': f'({lt} {ea} {eb})', '<=': f'({le} {ea} {eb})', '>': f'({lt} {eb} {ea})',
                    '>=': f'({le} {eb} {ea})'}[op]
        (w, _) = ty(n)
        return f'({self.expr(n)} != 0#{w})'

    def target(self, n):
        while n['kind'] in ('ParenExpr',):
            n = n['inner'][0]
        if n['kind'] == 'DeclRefExpr':
            return 'v_' + n['referencedDecl']['name']
        if n['kind'] == 'UnaryOperator' and n['opcode'] == '*':
            c = n['inner'][0]
            while c['kind'] in ('ImplicitCastExpr', 'ParenExpr'):
                c = c['inner'][0]
            return 'out_' + c['referencedDecl']['name']
        die('lvalue ' + n['kind'])

    def expr(self, n):
        k = n['kind']
        if k == 'ParenExpr':
            return self.expr(n['inner'][0])
        if k == 'IntegerLiteral':
            (w, _) = ty(n)
            return f'({n["value"]}#{w})'
        if k == 'DeclRefExpr':
            return 'v_' + n['referencedDecl']['name']
        if k in ('ImplicitCastExpr', 'CStyleCastExpr'):
            ck, c = n['castKind'], n['inner'][0]
            if ck in ('LValueToRValue', 'NoOp'):
                return self.expr(c)
            if ck == 'IntegralCast':
                (w1, s1), (w2, _) = ty(c), ty(n)
                e = self.expr(c)
                if w2 == w1:
                    return e
                if w2 < w1:
                    return f'({e}.setWidth {w2})'
                return f'({e}.signExtend {w2})' if s1 else f'({e}.setWidth {w2})'
            die('cast ' + ck)
        if k == 'ConditionalOperator':
            c, a, b = n['inner']
            return f'(if {self.cond(c)} then {self.expr(a)} else {self.expr(b)})'
        if k == 'BinaryOperator':
            op = n['opcode']
            a, b = n['inner']
            if op == '=':      # assignment used as a value: bind, then the value is the variable
                v = self.expr(b)
                t = self.target(a)
                self.lets.append((t, v))
                return t
            (w, sg) = ty(n)
            ea, eb = self.expr(a), self.expr(b)
            if op in ('+', '-', '*'):
                return f'({ea} {op} {eb})'
            if op == '/':
                return f'(BitVec.sdiv {ea} {eb})' if sg else f'({ea} / {eb})'
            if op == '%':
                return f'(BitVec.srem {ea} {eb})' if sg else f'({ea} % {eb})'
            if op == '&':
                return f'({ea} &&& {eb})'
            if op == '|':
                return f'({ea} ||| {eb})'
            die('binop ' + op)
        if k == 'CallExpr':
            f = n['inner'][0]
            while f['kind'] in ('ImplicitCastExpr', 'ParenExpr'):
                f = f['inner'][0]
            name = f['referencedDecl']['name']
            if name not in self.known:
                die('call to ' + name)
            return '(' + name + ' ' + ' '.join(self.expr(a) for a in n['inner'][1:]) + ')'
        die('expr ' + k)

    def func(self, fd):
        params = [c for c in fd['inner'] if c['kind'] == 'ParmVarDecl']
        body = [c for c in fd['inner'] if c['kind'] == 'CompoundStmt'][0]
        sig, outs = [], []
        for p in params:
            t = ty(p)
            if t[0] == 'ptr':
                outs.append(p['name'])
                self.lets.append(('out_' + p['name'], f'0#{t[1]}'))
            else:
                sig.append(f'(v_{p["name"]} : BitVec {t[0]})')
        rt = tyq(fd['type']['qualType'].split('(')[0].strip())
        ret = None
        for st in body.get('inner', []):
            k = st['kind']
            if ret is not None:
                die('statement after return')
            if k == 'DeclStmt':
                for d in st['inner']:
                    (w, _) = ty(d)
                    init = [c for c in d.get('inner', [])]
                    self.lets.append(('v_' + d['name'], self.expr(init[0]) if init else f'0#{w}'))
            elif k == 'ReturnStmt':
                ret = self.expr(st['inner'][0])
            elif k == 'BinaryOperator' and st['opcode'] == '=':
                self.expr(st)
            else:
                die('statement ' + k)
        if ret is None:
            die('no return')
        rty = f'BitVec {rt[0]}' + ''.join(' × BitVec 64' for _ in outs)
        res = ret if not outs else '(' + ', '.join([ret] + ['out_' + o for o in outs]) + ')'
        lines = [f'def {fd["name"]} ' + ' '.join(sig) + f' : {rty} :=']
        for v, e in self.lets:
            lines.append(f'  let {v} := {e}')
        lines.append('  ' + res)
        return '\n'.join(lines) + '\n'


# ------------------------------------------------------------------ textual tables
def norm(s):
    s = re.sub(r"/\*.*?\*/", " ", s, flags=re.S)
    return re.sub(r"\s+", " ", s).strip()


def func_body(src, name):
    m = re.search(r"\n(?:static\s+)?[\w \*]+\b" + name + r"\s*\([^;{]*\)\s*\{", src)
    if not m:
        die("function " + name + " not found")
    i = m.end()
    depth = 1
    while depth and i < len(src):
        depth += {"{": 1, "}": -1}.get(src[i], 0)
        i += 1
    return src[m.end():i - 1]


def lstr(s):
    return '"' + s.replace("\\", "\\\\").replace('"', '\\"') + '"'


def case_rows(body, pat):
    rows = []
    for m in re.finditer(r"case\s+MIR_(\w+)\s*:\s*" + pat, body):
        rows.append((m.group(1), m.group(2)))
    return rows


def extract(src):
    rev = case_rows(func_body(src, "MIR_reverse_branch_code"), r"return\s+MIR_(\w+)\s*;")
    one = func_body(src, "make_one_ret")
    ret_ext = case_rows(one, r"ext_code\s*=\s*MIR_(\w+)\s*;")
    sf = func_body(src, "simplify_func")
    arg_ext = case_rows(sf, r"ext_code\s*=\s*MIR_(\w+)\s*;")
    skip = re.search(r"if\s*\(((?:\s*var\.type\s*==\s*MIR_T_\w+\s*\|\|)*\s*var\.type\s*==\s*MIR_T_\w+\s*)\)\s*continue;", sf)
    arg_skip = re.findall(r"MIR_T_(\w+)", skip.group(1)) if skip else die("arg-type skip list not found")
    # algebraic shortcut: "} else if (((code == A || ...) && insn->ops[2].mode == MIR_OP_INT && insn->ops[2].u.i == 1) || ((...) && ... == 0)) {"
    m = re.search(r"else if\s*\(\(\((code == MIR_\w+(?:\s*\|\|\s*code == MIR_\w+)*)\)\s*&&\s*insn->ops\[2\]\.mode == MIR_OP_INT\s*&&\s*insn->ops\[2\]\.u\.i == (\d+)\)\s*\|\|\s*"
                  r"\(\((code == MIR_\w+(?:\s*\|\|\s*code == MIR_\w+)*)\)\s*&&\s*insn->ops\[2\]\.mode == MIR_OP_INT\s*&&\s*insn->ops\[2\]\.u\.i == (\d+)\)\)\s*\{"
                  r"\s*if \(!MIR_op_eq_p \(ctx, insn->ops\[0\], insn->ops\[1\]\)\) \{\s*next_insn = MIR_new_insn \(ctx, MIR_MOV, insn->ops\[0\], insn->ops\[1\]\);",
                  norm(sf))
    if not m:
        die("shape of the algebraic shortcut condition changed")
    shortcut = [(c, int(m.group(2))) for c in re.findall(r"MIR_(\w+)", m.group(1))] + \
               [(c, int(m.group(4))) for c in re.findall(r"MIR_(\w+)", m.group(3))]
    m = re.search(r"else if \(\((code == MIR_\w+(?: \|\| code == MIR_\w+)*)\) && insn->ops\[1\]\.mode == MIR_OP_INT && \(insn->ops\[1\]\.u\.i == 0 \|\| insn->ops\[1\]\.u\.i == 1\)\) \{ "
                  r"if \(\((code == MIR_\w+(?: \|\| code == MIR_\w+)*)\) == \(insn->ops\[1\]\.u\.i == 1\)\)", norm(sf))
    if not m:
        die("shape of the bt/bf constant rewrite changed")
    bt_codes = re.findall(r"MIR_(\w+)", m.group(1))
    bt_true = re.findall(r"MIR_(\w+)", m.group(2))
    thr = {}
    for name in ["MIR_MAX_INSNS_FOR_INLINE", "MIR_MAX_INSNS_FOR_CALL_INLINE", "MIR_MAX_FUNC_INLINE_GROWTH"]:
        mm = re.search(r"#ifndef " + name + r"\s*\n#define " + name + r" (\d+)", src)
        if not mm:
            die("default of " + name + " not found")
        thr[name] = int(mm.group(1))
    # consolidation loop
    mm = re.search(r"/\* Consolidate adjacent allocas \*/(.*?)insn->ops\[1\]\.u\.i = overall_size;", sf, flags=re.S)
    if not mm:
        die("alloca consolidation loop not found")
    loop = norm(mm.group(1))
    cur = "if (max_align < align) { max_align = align; overall_size = (overall_size + align - 1) / align * align; }"
    fixed = "if (max_align < align) max_align = align; overall_size = (overall_size + align - 1) / align * align;"
    if cur in loop:
        round_always = False
        rest = loop.replace(cur, "<ROUND>")
    elif fixed in loop:
        round_always = True
        rest = loop.replace(fixed, "<ROUND>")
    else:
        die("rounding statement of the consolidation loop not recognised: " + loop)
    names = [c for c, _ in shortcut]
    if ("MULO" in names) != ("MULOS" in names):
        die("MULO and MULOS rows of the shortcut differ")
    mulo_row = "MULO" in names
    # make_one_ret: how the values of several rets are merged
    one_n = norm(one)
    cur_r = "ret_reg_op = last_ret_insn->ops[i]; VARR_PUSH (MIR_op_t, ret_ops, ret_reg_op); switch (res_types[i])"
    fix_r = ("ret_reg_op = last_ret_insn->ops[i]; if (ret_label != NULL) { mov_code = get_type_move_code (res_types[i]); "
             "ret_reg = _MIR_new_temp_reg (ctx, mov_code == MIR_MOV ? MIR_T_I64 : res_types[i], func); "
             "MIR_insert_insn_before (ctx, func_item, ret_label, MIR_new_insn (ctx, mov_code, MIR_new_reg_op (ctx, ret_reg), ret_reg_op)); "
             "last_ret_insn->ops[i] = ret_reg_op = MIR_new_reg_op (ctx, ret_reg); } VARR_PUSH (MIR_op_t, ret_ops, ret_reg_op); switch (res_types[i])")
    if cur_r in one_n:
        fresh_rets = False
    elif fix_r in one_n:
        fresh_rets = True
    else:
        die("merging of return values in make_one_ret not recognised")
    so = norm(func_body(src, "simplify_op"))
    if "int after_p = !move_p && out_p;" in so:
        ovf_before = False
    elif "int after_p = !move_p && out_p && !MIR_overflow_insn_code_p (code);" in so:
        ovf_before = True
    else:
        die("placement of the address computation of a memory destination (after_p) not recognised")
    return dict(ovf_before=ovf_before, mulo_row=mulo_row, fresh_rets=fresh_rets, rev=rev, ret_ext=ret_ext, arg_ext=arg_ext, arg_skip=arg_skip, shortcut=shortcut, bt_codes=bt_codes,
                bt_true=bt_true, thr=thr, round_always=round_always, loop=rest)


def main():
    src = open(os.path.join(REPO, "mir.c")).read()
    d = extract(src)
    out = ["/- GENERATED on every run by translate/c04_tables.py from mir.c — do not edit. -/",
           "namespace MirVerif.Gen.C04", "set_option linter.unusedVariables false", ""]
    known = []
    for fn in ["natural_alignment", "get_alloca_size_align"]:
        out.append(Tr(known).func(ast_of(fn)))
        known.append(fn)

    def rows(name, rs):
        return f"def {name} : List (String × String) := [" + ", ".join(f"({lstr(a)}, {lstr(b)})" for a, b in rs) + "]\n"
    out.append(rows("reverseRows", d["rev"]))
    out.append(rows("retExtRows", d["ret_ext"]))
    out.append(rows("argExtRows", d["arg_ext"]))
    out.append("def argSkipTypes : List String := [" + ", ".join(lstr(x) for x in d["arg_skip"]) + "]\n")
    out.append("def shortcutRows : List (String × Int) := [" + ", ".join(f"({lstr(a)}, {b})" for a, b in d["shortcut"]) + "]\n")
    out.append("def btConstCodes : List String := [" + ", ".join(lstr(x) for x in d["bt_codes"]) + "]\n")
    out.append("def btJumpIfOne : List String := [" + ", ".join(lstr(x) for x in d["bt_true"]) + "]\n")
    out.append(f"def maxInsnsForInline : Nat := {d['thr']['MIR_MAX_INSNS_FOR_INLINE']}")
    out.append(f"def maxInsnsForCallInline : Nat := {d['thr']['MIR_MAX_INSNS_FOR_CALL_INLINE']}")
    out.append(f"def maxFuncInlineGrowth : Nat := {d['thr']['MIR_MAX_FUNC_INLINE_GROWTH']}\n")
    out.append(f"def roundAlways : Bool := {'true' if d['round_always'] else 'false'}")
    out.append(f"def muloRow : Bool := {'true' if d['mulo_row'] else 'false'}")
    out.append(f"def freshRets : Bool := {'true' if d['fresh_rets'] else 'false'}")
    out.append(f"def ovfAddrBefore : Bool := {'true' if d['ovf_before'] else 'false'}\n")
    out.append("def consolidationLoop : String := " + lstr(d["loop"]) + "\n")
    out.append("end MirVerif.Gen.C04")
    txt = "\n".join(out) + "\n"
    old = open(OUT).read() if os.path.exists(OUT) else None
    if old != txt:
        os.makedirs(os.path.dirname(OUT), exist_ok=True)
        with open(OUT, "w") as f:
            f.write(txt)
    print(f"c04_tables: reverse {len(d['rev'])}, ret-ext {len(d['ret_ext'])}, arg-ext {len(d['arg_ext'])}, "
          f"shortcut {len(d['shortcut'])}, roundAlways {d['round_always']} -> {OUT}")


if __name__ == "__main__":
    main()
