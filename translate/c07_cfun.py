#!/usr/bin/env python3
"""T1 translator for C07: the type-conversion and opcode-selection functions of
$VERIF_REPO/c2mir/c2mir.c -> Lean definitions (lean/MirVerif/Gen/C07_Funs.lean).

Translated from clang's typed JSON AST (so that macro constants such as MIR_CHAR_MAX, `sizeof`
operands and the bodies of the B()/BCMP() case macros are whatever the preprocessor and clang make
of the CURRENT source):

    char_is_signed_p  standard_integer_type_p  integer_type_p  signed_integer_type_p
    floating_type_p  arithmetic_type_p  scalar_type_p  basic_type_size  int_bit_size
    integer_promotion  arithmetic_conversion
    get_int_mir_type  promote_mir_int_type  get_mir_type
    get_mir_type_insn_code  get_compare_branch_code
    + the fragment of check() that decides the expression type of a bit-field (bf_narrow_p, bf_narrow_bt)

Encoding.  `struct type` is represented by the three fields these functions look at:
`CTy.mode` (enum type_mode), `CTy.bt` (u.basic_type) and `CTy.ebt` = what `get_enum_basic_type`
returns for the type (a primitive: it reads the enum declaration).  `raw_type_size (c2m_ctx, type)`
is the primitive `basic_type_size` of the (enum) basic type, 8 for pointers.  `node_t r` is
represented by `r->code`.  All scalars are Lean `Int` (the functions only compare and select; any
arithmetic, negative literal, pointer use or statement outside the subset below makes the
translator fail loudly with exit 2, which the check reports as a broken tie).

Supported: if/else, return, switch whose groups all end in `return`, `do {...} while (0)` (SWAP),
declarations of `struct type`/integer locals, assignment to a local or to `.mode`/`.u.basic_type`
of a local `struct type`, calls to translated functions, `init_type (&x)`, == != < <= > >= && || !
?:, integer literals, enum constants, sizeof (type).

Enum constants get their numeric values from the preprocessed text of the same file."""
import json, os, re, subprocess, sys

VERIF = os.path.dirname(os.path.dirname(os.path.abspath(__file__)))
REPO = os.environ.get("VERIF_REPO", "/repo")
SRC = os.path.join(REPO, "c2mir", "c2mir.c")
OUT = os.path.join(VERIF, "lean", "MirVerif", "Gen", "C07_Funs.lean")

FUNCS = ["char_is_signed_p", "standard_integer_type_p", "integer_type_p", "signed_integer_type_p",
         "floating_type_p", "arithmetic_type_p", "scalar_type_p", "basic_type_size", "int_bit_size",
         "integer_promotion", "arithmetic_conversion", "get_int_mir_type", "promote_mir_int_type",
         "get_mir_type", "get_mir_type_insn_code", "get_compare_branch_code"]
PRIMS = {"get_enum_basic_type": "get_enum_basic_type", "raw_type_size": "raw_type_size"}
SIZEOF = {"char": 1, "signed char": 1, "unsigned char": 1, "_Bool": 1, "short": 2, "unsigned short": 2, "int": 4,
          "unsigned int": 4, "long": 8, "unsigned long": 8, "long long": 8, "unsigned long long": 8,
          "float": 4, "double": 8, "long double": 16}
ENUMS = [("basic_type", r"enum basic_type \{([^}]*)\}"), ("type_mode", r"enum type_mode \{([^}]*)\}"),
         ("MIR_type_t", r"typedef enum \{([^}]*)\} MIR_type_t;"),
         ("MIR_insn_code_t", r"typedef enum \{([^}]*)\} MIR_insn_code_t;"),
         ("node_code_t", r"typedef enum \{([^}]*)\} node_code_t;")]


def die(msg):
    sys.stderr.write("c07_cfun.py: " + msg + "\n")
    sys.exit(2)


def enum_values():
    p = subprocess.run(["gcc", "-E", "-P", "-DNDEBUG", "-I" + REPO, SRC], capture_output=True, text=True)
    if p.returncode != 0:
        die("gcc -E failed: " + p.stderr[-500:])
    vals, groups = {}, {}
    for name, rx in ENUMS:
        m = re.search(rx, p.stdout)
        if not m:
            die("enum %s not found" % name)
        cur, names = 0, []
        for el in m.group(1).split(","):
            el = el.strip()
            if not el:
                continue
            mm = re.fullmatch(r"(\w+)(?:\s*=\s*(.+))?", el, flags=re.S)
            if not mm:
                die("enum %s: cannot parse element %r" % (name, el))
            if mm.group(2) is not None:
                ex = mm.group(2).strip()
                m2 = re.fullmatch(r"(\w+)\s*\+\s*(\d+)", ex)
                if re.fullmatch(r"-?\d+", ex):
                    cur = int(ex)
                elif m2 and m2.group(1) in vals:
                    cur = vals[m2.group(1)] + int(m2.group(2))
                else:
                    die("enum %s: unsupported initialiser %r" % (name, ex))
            vals[mm.group(1)] = cur
            names.append(mm.group(1))
            cur += 1
        groups[name] = names
    return vals, groups


def ast_of(fn):
    cmd = ["clang-14", "-std=gnu11", "-fsyntax-only", "-w", "-DNDEBUG", "-I" + REPO, "-Xclang", "-ast-dump=json",
           "-Xclang", "-ast-dump-filter=" + fn, SRC]
    out = subprocess.run(cmd, capture_output=True, text=True).stdout
    dec = json.JSONDecoder()
    i, res = 0, []
    while i < len(out):
        while i < len(out) and out[i] in " \n\r\t":
            i += 1
        if i >= len(out):
            break
        try:
            o, j = dec.raw_decode(out, i)
        except ValueError:
            j = out.find("\n", i)
            if j < 0:
                break
            i = j + 1
            continue
        res.append(o)
        i = j
    for o in res:
        if o.get("kind") == "FunctionDecl" and o.get("name") == fn and any(
                c.get("kind") == "CompoundStmt" for c in o.get("inner", [])):
            return o
    die("function %s not found by clang" % fn)


def qt(n):
    t = n.get("type", {})
    return t.get("desugaredQualType", t.get("qualType", "")).replace("const ", "").strip()


def is_struct_type(q):
    return q in ("struct type", "struct type *")


class Tr:
    def __init__(self, enumvals, known):
        self.ev, self.known = enumvals, known
        self.used_enums = set()
        self.structs = set()     # names of locals/params of type struct type (*)
        self.ints = set()

    # ---------------------------------------------------------------- expressions
    def strip(self, n):
        while n["kind"] in ("ParenExpr", "ConstantExpr") or (
                n["kind"] in ("ImplicitCastExpr", "CStyleCastExpr")
                and n.get("castKind") in ("LValueToRValue", "NoOp", "IntegralCast", "FunctionToPointerDecay")):
            if n["kind"] in ("ImplicitCastExpr", "CStyleCastExpr") and n.get("castKind") == "IntegralCast":
                self.check_cast(n)
            n = n["inner"][0]
        return n

    def check_cast(self, n):
        c = n["inner"][0]
        while c["kind"] in ("ParenExpr", "ConstantExpr", "ImplicitCastExpr"):
            c = c["inner"][0]
        if c["kind"] == "UnaryOperator" and c.get("opcode") == "-":
            die("integral cast of a negative value is outside the subset")

    def struct_ref(self, n):
        """Lean term of a `struct type` value denoted by a (pointer-to-)struct expression"""
        n = self.strip(n)
        if n["kind"] == "UnaryOperator" and n["opcode"] == "&":
            return self.struct_ref(n["inner"][0])
        if n["kind"] == "DeclRefExpr" and n["referencedDecl"]["name"] in self.structs:
            return n["referencedDecl"]["name"]
        if n["kind"] == "CallExpr" and qt(n) == "struct type":
            return self.call(n)
        die("unsupported struct-type expression " + n["kind"])

    def member(self, n):
        """MemberExpr chain -> (base Lean term, field)"""
        name = n["name"]
        base = self.strip(n["inner"][0])
        if name in ("basic_type",) and base["kind"] == "MemberExpr" and base["name"] == "u":
            return self.struct_ref(base["inner"][0]), "bt"
        if name == "mode":
            return self.struct_ref(base), "mode"
        if name == "code":       # r->code of a node_t
            b = base
            if b["kind"] == "DeclRefExpr" and b["referencedDecl"]["name"] in self.ints:
                return None, b["referencedDecl"]["name"]
        die("unsupported member access ." + name)

    def cond(self, n):
        n = self.strip(n)
        k = n["kind"]
        if k == "BinaryOperator" and n["opcode"] in ("==", "!=", "<", "<=", ">", ">="):
            a, b = n["inner"]
            op = {"==": "==", "!=": "!=", "<": "<", "<=": "<=", ">": ">", ">=": ">="}[n["opcode"]]
            return f"(decide ({self.expr(a)} {'=' if op == '==' else '≠' if op == '!=' else '≤' if op == '<=' else '≥' if op == '>=' else op} {self.expr(b)}))"
        if k == "BinaryOperator" and n["opcode"] == "&&":
            return f"({self.cond(n['inner'][0])} && {self.cond(n['inner'][1])})"
        if k == "BinaryOperator" and n["opcode"] == "||":
            return f"({self.cond(n['inner'][0])} || {self.cond(n['inner'][1])})"
        if k == "UnaryOperator" and n["opcode"] == "!":
            return f"(!{self.cond(n['inner'][0])})"
        return f"(decide ({self.expr(n)} ≠ 0))"

    def expr(self, n):
        n = self.strip(n)
        k = n["kind"]
        if k == "IntegerLiteral":
            return f"({n['value']} : Int)"
        if k == "DeclRefExpr":
            rd = n["referencedDecl"]
            if rd["kind"] == "EnumConstantDecl":
                if rd["name"] not in self.ev:
                    die("enum constant %s has no value" % rd["name"])
                self.used_enums.add(rd["name"])
                return rd["name"]
            if rd["name"] in self.ints:
                return rd["name"]
            die("unsupported reference to " + rd["name"])
        if k == "MemberExpr":
            base, f = self.member(n)
            return f if base is None else f"{base}.{f}"
        if k == "UnaryExprOrTypeTraitExpr" and n.get("name") == "sizeof":
            at = n.get("argType", {})
            q = at.get("desugaredQualType", at.get("qualType", "")).strip()
            if q not in SIZEOF:
                die("sizeof of unsupported type " + q)
            return f"({SIZEOF[q]} : Int)"
        if k == "ConditionalOperator":
            c, a, b = n["inner"]
            return f"(if {self.cond(c)} then {self.expr(a)} else {self.expr(b)})"
        if k == "BinaryOperator" and n["opcode"] in ("==", "!=", "<", "<=", ">", ">=", "&&", "||"):
            return f"(b2i {self.cond(n)})"
        if k == "UnaryOperator" and n["opcode"] == "!":
            return f"(b2i {self.cond(n)})"
        if k == "BinaryOperator" and n["opcode"] == "*":
            return f"({self.expr(n['inner'][0])} * {self.expr(n['inner'][1])})"
        if k == "CallExpr":
            return self.call(n)
        die("unsupported expression " + k + (" " + n.get("opcode", "")))

    def call(self, n):
        f = self.strip(n["inner"][0])
        name = f["referencedDecl"]["name"]
        if name not in self.known and name not in PRIMS:
            die("call to untranslated function " + name)
        args = []
        for a in n["inner"][1:]:
            q = qt(a)
            if q in ("c2m_ctx_t", "struct c2m_ctx *"):
                continue
            if is_struct_type(q):
                args.append(self.struct_ref(a))
            else:
                args.append(self.expr(a))
        return "(" + " ".join([PRIMS.get(name, name)] + args) + ")"

    # ---------------------------------------------------------------- statements
    def stmts(self, ns, ind):
        out = []
        for s in ns:
            out += self.stmt(s, ind)
        return out

    def returns(self, n):
        """does every path through statement n end in return?"""
        k = n["kind"]
        if k == "ReturnStmt":
            return True
        if k == "CompoundStmt":
            return any(self.returns(c) for c in n.get("inner", []))
        if k == "IfStmt":
            return len(n["inner"]) > 2 and self.returns(n["inner"][1]) and self.returns(n["inner"][2])
        if k == "SwitchStmt":
            return True
        if k == "CallExpr":
            f = self.strip(n["inner"][0])
            return f.get("referencedDecl", {}).get("name") == "abort"
        return False

    def stmt(self, n, ind):
        k = n["kind"]
        if k == "CompoundStmt":
            r = self.stmts(n.get("inner", []), ind)
            return r if r else [ind + "pure ()"]
        if k == "NullStmt":
            return []
        if k == "DeclStmt":
            out = []
            for d in n["inner"]:
                q = qt(d)
                init = d.get("inner", [])
                if q == "struct type":
                    if init:
                        die("initialised struct local")
                    self.structs.add(d["name"])
                    out.append(ind + f"let mut {d['name']} : CTy := CTy.uninit")
                else:
                    self.ints.add(d["name"])
                    v = self.expr(init[0]) if init else "(0 : Int)"
                    out.append(ind + f"let mut {d['name']} : Int := {v}")
            return out
        if k == "ReturnStmt":
            e = n["inner"][0]
            if is_struct_type(qt(e)):
                return [ind + f"return {self.struct_ref(e)}"]
            return [ind + f"return {self.expr(e)}"]
        if k == "IfStmt":
            c = n["inner"][0]
            out = [ind + f"if {self.cond(c)} then"] + self.stmt(n["inner"][1], ind + "  ")
            if len(n["inner"]) > 2:
                out += [ind + "else"] + self.stmt(n["inner"][2], ind + "  ")
            return out
        if k == "DoStmt":
            body, c = n["inner"]
            c = self.strip(c)
            if not (c["kind"] == "IntegerLiteral" and c["value"] == "0"):
                die("do-while with a non-zero condition")
            return self.stmt(body, ind)
        if k == "SwitchStmt":
            return self.switch(n, ind)
        if k in ("ParenExpr", "CStyleCastExpr") and qt(n) == "void":
            return []          # assert under NDEBUG
        if k == "CallExpr":
            f = self.strip(n["inner"][0])
            if f["referencedDecl"]["name"] == "init_type":
                v = self.struct_ref(n["inner"][1])
                return [ind + f"{v} := CTy.init {v}"]
            if f["referencedDecl"]["name"] == "abort":
                return [ind + "return (-1 : Int)"]
            die("call statement " + f["referencedDecl"]["name"])
        if k == "BinaryOperator" and n["opcode"] == "=":
            lhs, rhs = n["inner"]
            l = self.strip(lhs)
            if l["kind"] == "MemberExpr":
                base, f = self.member(l)
                if base is None:
                    die("assignment to " + f)
                return [ind + f"{base} := {{ {base} with {f} := {self.expr(rhs)} }}"]
            if l["kind"] == "DeclRefExpr":
                nm = l["referencedDecl"]["name"]
                if nm in self.structs:
                    return [ind + f"{nm} := {self.struct_ref(rhs)}"]
                if nm in self.ints:
                    return [ind + f"{nm} := {self.expr(rhs)}"]
            die("unsupported assignment")
        die("unsupported statement " + k)

    def switch(self, n, ind):
        sel = self.expr(n["inner"][0])
        body = n["inner"][1]
        if body["kind"] != "CompoundStmt":
            die("switch body")
        groups, cur_labels, cur_stmts = [], [], []

        def flush():
            nonlocal cur_labels, cur_stmts
            if cur_labels:
                if not cur_stmts or not any(self.returns(s) for s in cur_stmts):
                    die("switch group without return (fall-through into code is outside the subset)")
                groups.append((cur_labels, cur_stmts))
            cur_labels, cur_stmts = [], []

        def unwrap(s):
            """CaseStmt/DefaultStmt nest: case A: case B: stmt"""
            labels = []
            while s["kind"] in ("CaseStmt", "DefaultStmt"):
                if s["kind"] == "CaseStmt":
                    labels.append(self.expr(s["inner"][0]))
                    s = s["inner"][-1]
                else:
                    labels.append(None)
                    s = s["inner"][0]
            return labels, s

        for s in body.get("inner", []):
            if s["kind"] in ("CaseStmt", "DefaultStmt"):
                if cur_stmts:
                    flush()
                labels, st = unwrap(s)
                cur_labels += labels
                cur_stmts.append(st)
            else:
                cur_stmts.append(s)
        flush()
        out, default = [], None
        first = True
        for labels, sts in groups:
            if None in labels:
                default = sts
                labels = [l for l in labels if l is not None]
                if not labels:
                    continue
            c = " || ".join(f"decide ({sel} = {l})" for l in labels)
            out.append(ind + ("if " if first else "else if ") + c + " then")
            out += self.stmts(sts, ind + "  ")
            first = False
        if default is not None:
            out.append(ind + "else")
            out += self.stmts(default, ind + "  ")
        else:
            out.append(ind + "else")
            out.append(ind + "  pure ()")
        return out

    def func(self, fd):
        params = [c for c in fd["inner"] if c["kind"] == "ParmVarDecl"]
        body = [c for c in fd["inner"] if c["kind"] == "CompoundStmt"][0]
        sig = []
        for p in params:
            q = qt(p)
            if q in ("c2m_ctx_t", "struct c2m_ctx *"):
                continue
            if is_struct_type(q):
                self.structs.add(p["name"])
                sig.append(f"({p['name']} : CTy)")
            else:
                self.ints.add(p["name"])     # integers, enums, node_t (represented by ->code)
                sig.append(f"({p['name']} : Int)")
        rq = fd["type"]["qualType"].split("(")[0].strip()
        rty = "CTy" if rq == "struct type" else "Int"
        lines = self.stmt(body, "  ")
        if not self.returns(body):
            lines.append("  return " + ("CTy.uninit" if rty == "CTy" else "(-1 : Int)"))
        return f"def {fd['name']} " + " ".join(sig) + f" : {rty} := Id.run do\n" + "\n".join(lines) + "\n"


PRELUDE = """/- GENERATED on every run by translate/c07_cfun.py from c2mir/c2mir.c — do not edit. -/
namespace MirVerif.Gen.C07
set_option linter.unusedVariables false

/-- the fields of c2mir's `struct type` that the translated functions read -/
structure CTy where
  mode : Int
  bt : Int
  ebt : Int
deriving DecidableEq, Repr

def b2i (b : Bool) : Int := if b then 1 else 0
"""


def mentions(n, name):
    if isinstance(n, dict):
        if n.get("kind") == "DeclRefExpr" and n.get("referencedDecl", {}).get("name") == name:
            return True
        return any(mentions(c, name) for c in n.get("inner", []))
    return False


def bf_probe(ev, known):
    """the fragment of check() (N_FIELD / N_DEREF_FIELD) that decides the expression type of a bit-field:
         if (... && (width_expr = width->attr)->const_p && <tests on width_expr->c.i_val>)
           e->type->u.basic_type = <expr>;
       -> bf_narrow_p (w) (t) : Bool   = the conjuncts that test width_expr->c.i_val
          bf_narrow_bt (w) (t) : Int   = the assigned basic type
       with w = width_expr->c.i_val and t = *e->type (the declared type of the member)"""
    fd = ast_of("check")
    hits = []

    def walk(n):
        if isinstance(n, dict):
            if n.get("kind") == "IfStmt" and len(n.get("inner", [])) >= 2 and mentions(n["inner"][0], "width_expr"):
                th = n["inner"][1]
                while th.get("kind") == "CompoundStmt" and len(th.get("inner", [])) == 1:
                    th = th["inner"][0]
                if th.get("kind") == "BinaryOperator" and th.get("opcode") == "=":
                    lhs = th["inner"][0]
                    while lhs.get("kind") in ("ParenExpr", "ImplicitCastExpr"):
                        lhs = lhs["inner"][0]
                    if lhs.get("kind") == "MemberExpr" and lhs.get("name") == "basic_type":
                        hits.append((n["inner"][0], th["inner"][1]))
            for c in n.get("inner", []):
                walk(c)
    walk(fd)
    if len(hits) != 1:
        die("expected exactly one bit-field expression-type assignment in check(), found %d" % len(hits))
    cond, rhs = hits[0]

    def subst(n):
        if not isinstance(n, dict):
            return n
        if n.get("kind") == "MemberExpr" and n.get("name") == "i_val" and mentions(n, "width_expr"):
            return {"kind": "DeclRefExpr", "type": {"qualType": "mir_llong"}, "referencedDecl": {"kind": "ParmVarDecl", "name": "w"}}
        if n.get("kind") == "MemberExpr" and n.get("name") == "type" and mentions(n, "e") and not mentions(n, "width_expr"):
            return {"kind": "DeclRefExpr", "type": {"qualType": "struct type *"}, "referencedDecl": {"kind": "ParmVarDecl", "name": "t"}}
        m = dict(n)
        if "inner" in m:
            m["inner"] = [subst(c) for c in m["inner"]]
        return m

    def conjuncts(n):
        while n.get("kind") in ("ParenExpr", "ImplicitCastExpr"):
            n = n["inner"][0]
        if n.get("kind") == "BinaryOperator" and n.get("opcode") == "&&":
            return conjuncts(n["inner"][0]) + conjuncts(n["inner"][1])
        return [n]

    tests = []
    for c in conjuncts(cond):
        k = c
        while k.get("kind") in ("ParenExpr", "ImplicitCastExpr"):
            k = k["inner"][0]
        if k.get("kind") == "BinaryOperator" and k.get("opcode") in ("<", "<=", ">", ">=", "==", "!=") and mentions(k["inner"][0], "width_expr") \
                and any(x.get("name") == "i_val" for x in iter_nodes(k["inner"][0])):
            tests.append(k)
    if not tests:
        die("no test of width_expr->c.i_val in the bit-field expression-type condition")
    t = Tr(ev, known)
    t.ints.add("w"); t.structs.add("t")
    c_lean = " && ".join(t.cond(subst(k)) for k in tests)
    r_lean = t.expr(subst(rhs))
    return ("/-- check(), N_FIELD: the tests on the bit-field width under which the expression type is replaced -/\n"
            f"def bf_narrow_p (w : Int) (t : CTy) : Bool := {c_lean}\n"
            "/-- ... and the basic type it is replaced by -/\n"
            f"def bf_narrow_bt (w : Int) (t : CTy) : Int := {r_lean}\n"), t.used_enums


def iter_nodes(n):
    if isinstance(n, dict):
        yield n
        for c in n.get("inner", []):
            yield from iter_nodes(c)


def main():
    ev, groups = enum_values()
    known, defs, used = [], [], set()
    for fn in FUNCS:
        t = Tr(ev, known)
        defs.append(t.func(ast_of(fn)))
        used |= t.used_enums
        known.append(fn)
    bf_defs, bf_used = bf_probe(ev, known)
    used |= bf_used
    out = [PRELUDE]
    for g in ("basic_type", "type_mode", "MIR_type_t"):
        for nm in groups[g]:
            out.append(f"def {nm} : Int := {ev[nm]}")
    for nm in sorted(used):
        if nm.startswith("N_") or (nm.startswith("MIR_") and not nm.startswith("MIR_T_")):
            out.append(f"def {nm} : Int := {ev[nm]}")
    out.append("")
    out.append("/-- `init_type`: mode = TM_UNDEF, the union is left as it was -/")
    out.append("def CTy.init (t : CTy) : CTy := { t with mode := TM_UNDEF }")
    out.append("def CTy.uninit : CTy := { mode := -1, bt := -1, ebt := -1 }")
    out.append("/-- primitive: reads the enum declaration -/")
    out.append("def get_enum_basic_type (t : CTy) : Int := t.ebt\n")
    # raw_type_size needs basic_type_size: emitted after it
    for fn, d in zip(FUNCS, defs):
        out.append(d)
        if fn == "basic_type_size":
            out.append("/-- primitive `raw_type_size` for scalar types (set by set_type_layout from basic_type_size) -/")
            out.append("def raw_type_size (t : CTy) : Int :=\n  if t.mode = TM_PTR then 8 else basic_type_size (if t.mode = TM_ENUM then t.ebt else t.bt)\n")
    out.append(bf_defs)
    names = groups["MIR_insn_code_t"]
    out.append("/-- names of MIR_insn_code_t in enum order -/")
    out.append("def insnNames : List String := [")
    rows = []
    for i in range(0, len(names), 8):
        rows.append("  " + ", ".join('"' + n[4:] + '"' for n in names[i:i + 8]))
    out.append(",\n".join(rows) + "]\n")
    out.append("def insnName (c : Int) : Option String := if c < 0 then none else insnNames[c.toNat]?")
    for nm in ("N_ADD", "N_SUB", "N_MUL", "N_DIV", "N_MOD", "N_AND", "N_OR", "N_XOR", "N_LSH", "N_RSH", "N_EQ",
               "N_NE", "N_LT", "N_LE", "N_GT", "N_GE", "N_INC", "N_DEC", "N_POST_INC", "N_POST_DEC",
               "N_ADD_ASSIGN", "N_SUB_ASSIGN", "N_MUL_ASSIGN", "N_DIV_ASSIGN", "N_MOD_ASSIGN", "N_AND_ASSIGN",
               "N_OR_ASSIGN", "N_XOR_ASSIGN", "N_LSH_ASSIGN", "N_RSH_ASSIGN"):
        if nm not in used:
            if nm not in ev:
                die("node code %s missing" % nm)
            out.append(f"def {nm} : Int := {ev[nm]}")
    out.append("\nend MirVerif.Gen.C07")
    txt = "\n".join(out) + "\n"
    old = open(OUT).read() if os.path.exists(OUT) else None
    if old != txt:
        os.makedirs(os.path.dirname(OUT), exist_ok=True)
        open(OUT, "w").write(txt)
    print(f"c07_cfun: {len(FUNCS)} functions, {len(ev)} enum constants -> {OUT}")


if __name__ == "__main__":
    main()
