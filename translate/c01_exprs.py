#!/usr/bin/env python3
"""T1 translator (expressions): the pure decision expressions of two optimizer predicates of mir-gen.c are
translated from the CURRENT source into Lean Bool expressions over Int:
  * alloca_mem_intersect_p : the final overlap test on (disp1, disp2, size1, size2)
  * may_alias_p            : the return expression on (alias1, alias2, nonalias1, nonalias2)
Output: lean/MirVerif/Gen/C01_Exprs.lean (+ .cache/c01_exprs.json with python-evaluable forms for the search).
A tiny recursive-descent parser handles the C subset  || && == != <= < >= > + - identifiers integers ( ).
Anything else makes the translator fail loudly."""
import json, os, re, sys

REPO = os.environ.get("VERIF_REPO", "/repo")
HERE = os.path.dirname(os.path.dirname(os.path.abspath(__file__)))


def func_body(src, name):
    m = re.search(r"\nstatic\s+int\s+" + name + r"\s*\([^;{]*\)\s*\{", src)
    if not m:
        raise SystemExit(f"c01_exprs: function {name} not found")
    i, depth = m.end(), 1
    while depth:
        depth += {"{": 1, "}": -1}.get(src[i], 0)
        i += 1
    body = src[m.end():i - 1]
    return re.sub(r"/\*.*?\*/", " ", body, flags=re.S)


TOK = re.compile(r"\s*(\|\||&&|==|!=|<=|>=|[<>+\-()]|[A-Za-z_]\w*|\d+)")


def tokenize(s):
    out, i = [], 0
    s = s.strip()
    while i < len(s):
        m = TOK.match(s, i)
        if not m:
            raise SystemExit(f"c01_exprs: cannot tokenize {s[i:i+20]!r}")
        out.append(m.group(1))
        i = m.end()
    return out


class P:
    def __init__(self, toks):
        self.t, self.i = toks, 0

    def peek(self):
        return self.t[self.i] if self.i < len(self.t) else None

    def eat(self, x=None):
        v = self.peek()
        if x is not None and v != x:
            raise SystemExit(f"c01_exprs: expected {x} got {v}")
        self.i += 1
        return v

    def lor(self):
        a = self.land()
        while self.peek() == "||":
            self.eat()
            a = ("or", a, self.land())
        return a

    def land(self):
        a = self.cmp()
        while self.peek() == "&&":
            self.eat()
            a = ("and", a, self.cmp())
        return a

    def cmp(self):
        a = self.add()
        if self.peek() in ("==", "!=", "<=", "<", ">=", ">"):
            op = self.eat()
            return ("cmp", op, a, self.add())
        return a

    def add(self):
        a = self.atom()
        while self.peek() in ("+", "-"):
            op = self.eat()
            a = ("bin", op, a, self.atom())
        return a

    def atom(self):
        v = self.eat()
        if v == "(":
            a = self.lor()
            self.eat(")")
            return a
        if v is None or v in ("||", "&&", ")"):
            raise SystemExit("c01_exprs: unexpected token")
        return ("int", int(v)) if v.isdigit() else ("var", v)


def lean(e):
    k = e[0]
    if k == "or":
        return f"({lean(e[1])} || {lean(e[2])})"
    if k == "and":
        return f"({lean(e[1])} && {lean(e[2])})"
    if k == "cmp":
        op = {"==": "=", "!=": "≠", "<=": "≤", "<": "<", ">=": "≥", ">": ">"}[e[1]]
        return f"decide ({lean(e[2])} {op} {lean(e[3])})"
    if k == "bin":
        return f"({lean(e[2])} {e[1]} {lean(e[3])})"
    if k == "int":
        return str(e[1]) if e[1] >= 0 else f"({e[1]})"
    return e[1]


def py(e):
    k = e[0]
    if k == "or":
        return f"({py(e[1])} or {py(e[2])})"
    if k == "and":
        return f"({py(e[1])} and {py(e[2])})"
    if k == "cmp":
        return f"({py(e[2])} {e[1]} {py(e[3])})"
    if k == "bin":
        return f"({py(e[2])} {e[1]} {py(e[3])})"
    return str(e[1])


def variables(e, acc):
    if e[0] == "var":
        acc.add(e[1])
    else:
        for x in e[1:]:
            if isinstance(x, tuple):
                variables(x, acc)
    return acc


def main():
    src = open(os.path.join(REPO, "mir-gen.c")).read()
    b = func_body(src, "alloca_mem_intersect_p")
    m = re.search(r"if\s*\((.*?)\)\s*return\s+TRUE\s*;\s*return\s+(.*?);\s*$", b.strip().split("size2 = _MIR_type_size (ctx, type2);")[-1], flags=re.S)
    if not m:
        raise SystemExit("c01_exprs: overlap test of alloca_mem_intersect_p has an unexpected shape")
    e1 = P(tokenize(m.group(1))).lor()
    e2 = P(tokenize(m.group(2))).lor()
    inter = ("or", e1, e2)
    if variables(inter, set()) - {"disp1", "disp2", "size1", "size2"}:
        raise SystemExit("c01_exprs: unexpected identifiers in the overlap test")
    b2 = func_body(src, "may_alias_p")
    m2 = re.search(r"return\s+(.*?);", b2, flags=re.S)
    al = P(tokenize(m2.group(1))).lor()
    if variables(al, set()) - {"alias1", "alias2", "nonalias1", "nonalias2"}:
        raise SystemExit("c01_exprs: unexpected identifiers in may_alias_p")
    # immediate-range predicates of the x86-64 back end (they select the imm8/imm16/imm32 encodings)
    xsrc = open(os.path.join(REPO, "mir-gen-x86_64.c")).read()
    consts = {"INT8_MIN": -128, "INT8_MAX": 127, "UINT8_MAX": 255, "INT16_MIN": -32768, "INT16_MAX": 32767, "UINT16_MAX": 65535,
              "INT32_MIN": -2147483648, "INT32_MAX": 2147483647, "UINT32_MAX": 4294967295}
    ranges = []
    for fn in ("int8_p", "uint8_p", "int16_p", "uint16_p", "int32_p", "uint32_p"):
        mm = re.search(r"static int (?:MIR_UNUSED )?" + fn + r" \(int64_t v\) \{ return (.*?); \}", xsrc)
        if not mm:
            raise SystemExit(f"c01_exprs: {fn} not found or of unexpected shape")
        e = P(tokenize(mm.group(1))).lor()
        if variables(e, set()) - {"v"} - set(consts):
            raise SystemExit(f"c01_exprs: unexpected identifiers in {fn}")

        def subst(x):
            if x[0] == "var" and x[1] in consts:
                return ("int", consts[x[1]])
            return tuple(subst(y) if isinstance(y, tuple) else y for y in x)
        ranges.append((fn, subst(e)))
    out = ["/- GENERATED on every run by translate/c01_exprs.py from mir-gen.c — do not edit. -/",
           "namespace MirVerif.Gen.C01", "",
           "/-- the overlap test at the end of `alloca_mem_intersect_p` -/",
           "def intersectExpr (disp1 disp2 size1 size2 : Int) : Bool :=", "  " + lean(inter), "",
           "/-- the return expression of `may_alias_p` -/",
           "def mayAlias (alias1 alias2 nonalias1 nonalias2 : Nat) : Bool :=", "  " + lean(al), "",
           ]
    for fn, e in ranges:
        out += [f"/-- `{fn}` of mir-gen-x86_64.c -/", f"def {fn} (v : Int) : Bool :=", "  " + lean(e), ""]
    out += ["end MirVerif.Gen.C01", ""]
    p = os.path.join(HERE, "lean/MirVerif/Gen/C01_Exprs.lean")
    txt = "\n".join(out)
    if not os.path.exists(p) or open(p).read() != txt:
        open(p, "w").write(txt)
    os.makedirs(os.path.join(HERE, ".cache"), exist_ok=True)
    json.dump({"intersect": py(inter), "may_alias": py(al), "ranges": {fn: py(e) for fn, e in ranges}}, open(os.path.join(HERE, ".cache", "c01_exprs.json"), "w"))
    print("c01_exprs:", lean(inter)[:120])


if __name__ == "__main__":
    main()
