#!/usr/bin/env python3
"""C06 translator (T1): regenerates lean/MirVerif/Gen/C06_Regs.lean from the repository's current
x86-64 target sources.

Extracted (non-_WIN32 configuration, after `gcc -E -P`, so `REP8(...)` and `#ifdef`s are resolved by
the real preprocessor):
  * the hard-register enum of mir-x86_64.h                           -> hardRegNames
  * the return expression of target_call_used_hard_reg_p             -> callUsedP : Nat -> Bool
  * the switch of get_int_arg_reg / get_fp_arg_reg                   -> intArgRegs, fpArgRegs
  * reg_save_area_size, start_sp_from_bp_offset                      -> constants
  * the isave/dsave sequence of the vararg prologue                  -> regSaveOrder
Anything that does not have the expected shape makes the translator fail loudly (exit 1)."""
import os, re, subprocess, sys

VERIF = os.path.dirname(os.path.dirname(os.path.abspath(__file__)))
REPO = os.environ.get("VERIF_REPO", "/repo")
OUT = os.path.join(VERIF, "lean", "MirVerif", "Gen", "C06_Regs.lean")


def die(msg):
    print("c06_extract: " + msg, file=sys.stderr)
    sys.exit(1)


def preprocess(path):
    r = subprocess.run(["gcc", "-E", "-P", "-DNDEBUG", "-I" + REPO, path], capture_output=True, text=True)
    if r.returncode != 0:
        die("gcc -E failed: " + r.stderr[-500:])
    return r.stdout


def func_body(text, name):
    for m in re.finditer(r"\b" + re.escape(name) + r"\s*\(", text):
        i, depth = m.end(), 1
        while depth and i < len(text):          # parameter list (attributes nest parentheses)
            depth += {"(": 1, ")": -1}.get(text[i], 0)
            i += 1
        while i < len(text) and text[i].isspace():
            i += 1
        if i >= len(text) or text[i] != "{":    # a call or a declaration, not the definition
            continue
        start = i + 1
        i, depth = start, 1
        while depth and i < len(text):
            depth += {"{": 1, "}": -1}.get(text[i], 0)
            i += 1
        return text[start:i - 1]
    die(f"function {name} not found")


# ---- tiny expression translator: ! || && == != <= >= < > ( ) identifiers integers -------------------
TOK = re.compile(r"\s*(\|\||&&|==|!=|<=|>=|[!<>()]|[A-Za-z_]\w*|\d+)")


def tokenize(s):
    out, i = [], 0
    s = s.strip()
    while i < len(s):
        m = TOK.match(s, i)
        if not m:
            die(f"cannot tokenize expression at: {s[i:i + 30]!r}")
        out.append(m.group(1))
        i = m.end()
    return out


class P:
    def __init__(self, toks, env):
        self.t, self.i, self.env = toks, 0, env

    def peek(self):
        return self.t[self.i] if self.i < len(self.t) else None

    def take(self, x=None):
        v = self.peek()
        if v is None or (x is not None and v != x):
            die(f"expression: expected {x}, got {v}")
        self.i += 1
        return v

    def p_or(self):
        a = self.p_and()
        while self.peek() == "||":
            self.take()
            a = f"({a} || {self.p_and()})"
        return a

    def p_and(self):
        a = self.p_cmp()
        while self.peek() == "&&":
            self.take()
            a = f"({a} && {self.p_cmp()})"
        return a

    def p_cmp(self):
        if self.peek() == "!":
            self.take()
            return f"(!{self.p_cmp()})"
        if self.peek() == "(":
            # parenthesised boolean, unless it is a parenthesised term followed by a comparison
            save = self.i
            self.take("(")
            a = self.p_or()
            self.take(")")
            if self.peek() in ("==", "!=", "<=", ">=", "<", ">"):
                self.i = save
            else:
                return a
        a = self.p_term()
        op = self.peek()
        if op not in ("==", "!=", "<=", ">=", "<", ">"):
            die(f"expression: comparison expected after {a}, got {op}")
        self.take()
        b = self.p_term()
        lop = {"==": "=", "!=": "≠", "<=": "≤", ">=": "≥"}.get(op, op)
        return f"decide ({a} {lop} {b})"

    def p_term(self):
        v = self.take()
        if v == "(":
            a = self.p_term()
            self.take(")")
            return a
        if v.isdigit():
            return v
        if v in self.env:
            return str(self.env[v])
        die(f"expression: unknown identifier {v}")


def main():
    hdr = preprocess(os.path.join(REPO, "mir-x86_64.h"))
    m = None
    for mm in re.finditer(r"enum\s*\{([^}]*)\}", hdr):
        if "AX_HARD_REG" in mm.group(1):
            m = mm
    if not m:
        die("hard register enum not found")
    names = [x.strip() for x in m.group(1).split(",") if x.strip()]
    if any("=" in n for n in names):
        die("enum with explicit values is not supported")
    regs = {n: i for i, n in enumerate(names)}
    if not all(n.endswith("_HARD_REG") for n in names):
        die("unexpected enumerator names")

    # mir-gen-x86_64.c is a fragment of mir-gen.c; preprocessing it alone is enough for text extraction
    gen = preprocess(os.path.join(REPO, "mir-gen-x86_64.c"))
    body = func_body(gen, "target_call_used_hard_reg_p")
    body = re.sub(r"\(\(void\)\s*\(?0\)?\)\s*;", "", body).strip()
    mret = re.fullmatch(r"return\s+(.*);", body, flags=re.S)
    if not mret:
        die("target_call_used_hard_reg_p is not a single return statement: " + body[:200])
    env = dict(regs)
    env["hard_reg"] = "hr"
    p = P(tokenize(mret.group(1)), env)
    call_used = p.p_or()
    if p.peek() is not None:
        die("trailing tokens in call-used expression")

    def switch_regs(fname):
        b = func_body(gen, fname)
        cases, cur = {}, []
        for mm in re.finditer(r"case\s+(\d+)\s*:|return\s+(\(MIR_reg_t\)\s*\((\w+)\s*\+\s*\w+\)|\w+)\s*;|default\s*:", b):
            if mm.group(1) is not None:
                cur.append(int(mm.group(1)))
            elif mm.group(0).startswith("default"):
                cur = None
            elif cur is not None:
                for c in cur:
                    cases[c] = (mm.group(3), True) if mm.group(3) else (mm.group(2), False)
                cur = []
        out = []
        for i in range(len(cases)):
            if i not in cases:
                die(f"{fname}: case {i} missing")
            nm, rel = cases[i]
            if nm not in regs:
                die(f"{fname}: unknown register {nm}")
            out.append(regs[nm] + (i if rel else 0))
        return out

    int_regs = switch_regs("get_int_arg_reg")
    fp_regs = switch_regs("get_fp_arg_reg")

    m1 = re.search(r"reg_save_area_size\s*=\s*(\d+)\s*;", gen)
    m2 = re.search(r"start_sp_from_bp_offset\s*=\s*(\d+)\s*;", func_body(gen, "target_machinize"))
    if not m1 or not m2:
        die("reg_save_area_size / start_sp_from_bp_offset not found")

    pe = func_body(gen, "target_make_prolog_epilog")
    saves = []
    for mm in re.finditer(r"\b([id])save\s*\(\s*gen_ctx\s*,\s*anchor\s*,\s*offset(?:\s*\+\s*(\d+))?\s*,\s*(\w+)\s*\)", pe):
        if mm.group(3) not in regs:
            die("vararg save of unknown register " + mm.group(3))
        saves.append((int(mm.group(2) or 0), regs[mm.group(3)], mm.group(1)))
    if not saves:
        die("vararg register saves not found")

    L = []
    L.append("/-! GENERATED by translate/c06_extract.py from mir-x86_64.h / mir-gen-x86_64.c — do not edit -/")
    L.append("namespace MirVerif.Gen.C06")
    L.append("def hardRegNames : List String := [" + ", ".join('"' + n[:-9] + '"' for n in names) + "]")
    L.append("/-- `target_call_used_hard_reg_p (hr, _)` (non-Windows) -/")
    L.append(f"def callUsedP (hr : Nat) : Bool := {call_used}")
    L.append("/-- `get_int_arg_reg (n)` for n = 0, 1, … (hard register numbers) -/")
    L.append("def intArgRegs : List Nat := " + str(int_regs))
    L.append("def fpArgRegs : List Nat := " + str(fp_regs))
    L.append(f"def regSaveAreaSize : Nat := {m1.group(1)}")
    L.append(f"def startSpFromBp : Nat := {m2.group(1)}")
    L.append("/-- vararg prologue: (offset from block_size, hard register, is-double-save) in source order -/")
    L.append("def regSaveOrder : List (Nat × Nat × Bool) := [" +
             ", ".join(f"({o}, {r}, {'true' if k == 'd' else 'false'})" for o, r, k in saves) + "]")
    L.append("end MirVerif.Gen.C06")
    text = "\n".join(L) + "\n"
    os.makedirs(os.path.dirname(OUT), exist_ok=True)
    old = open(OUT).read() if os.path.exists(OUT) else None
    if old != text:
        with open(OUT, "w") as f:
            f.write(text)
    print("c06_extract: wrote", OUT)


if __name__ == "__main__":
    main()
