#!/usr/bin/env python3
"""C17 inventory translator (T1): allocator call sites of the MIR *library* sources.

Regenerated on every run from $VERIF_REPO (default /repo):
  lean/MirVerif/Gen/C17_Sites.lean      Lean lists used by Props/C17.lean
  .cache/c17_sites.json                 the same inventory for checks/c17.py

Library sources = textual `#include "..."` closure of mir.c, mir-gen.c, c2mir/c2mir.c (all
target variants, conditional or not) minus the two files that *are* the default allocators
(mir-alloc-default.c, mir-code-alloc-default.c).

A *site* is an identifier token (comments, string and character literals removed) followed by `(`
and not preceded by `->` or `.`:
  wrapper sites   MIR_malloc MIR_calloc MIR_realloc MIR_free MIR_mem_map MIR_mem_unmap MIR_mem_protect
                  (the wrappers' own definitions are not sites)
  raw sites       malloc calloc realloc free mmap munmap mprotect ... (libc / OS allocator used directly)
plus raw *references* (the bare identifier used as a value, e.g. `= malloc`), pattern `(*name)` excluded.

Every site is keyed by (file, enclosing function, callee) -- never by line number.  The enclosing
function is the last function header starting in column 0 (the repository's clang-format style);
inside a multi-line `#define` it is `MACRO:op` where `op` comes from the last `..._OP_DEF (T, op)`.
"""
import json, os, re, sys

VERIF = os.path.dirname(os.path.dirname(os.path.abspath(__file__)))
REPO = os.environ.get("VERIF_REPO", "/repo")
ROOTS = ["mir.c", "mir-gen.c", "c2mir/c2mir.c"]
EXCLUDE = {"mir-alloc-default.c", "mir-code-alloc-default.c"}
WRAPPERS = ["MIR_malloc", "MIR_calloc", "MIR_realloc", "MIR_free", "MIR_mem_map", "MIR_mem_unmap",
            "MIR_mem_protect"]
RAW = ["malloc", "calloc", "realloc", "free", "mmap", "munmap", "mprotect", "mremap", "posix_memalign",
       "aligned_alloc", "valloc", "memalign", "reallocarray", "strdup", "strndup", "VirtualAlloc",
       "VirtualFree", "VirtualProtect"]
KEYWORDS = {"if", "while", "for", "switch", "return", "sizeof", "defined", "__attribute__", "typeof",
            "_Alignof", "__typeof__"}


def strip(src):
    """replace comments, string and char literals by spaces (newlines kept)"""
    out = []
    i, n = 0, len(src)
    while i < n:
        c = src[i]
        if src.startswith("/*", i):
            j = src.find("*/", i + 2)
            j = n if j < 0 else j + 2
            out.append(re.sub(r"[^\n]", " ", src[i:j]))
            i = j
        elif src.startswith("//", i):
            j = src.find("\n", i)
            j = n if j < 0 else j
            out.append(" " * (j - i))
            i = j
        elif c == '"' or c == "'":
            j = i + 1
            while j < n and src[j] != c:
                if src[j] == "\\":
                    j += 1
                if j < n and src[j] == "\n" and c == "'":
                    break
                j += 1
            j = min(n, j + 1)
            out.append(c + re.sub(r"[^\n]", " ", src[i + 1:j - 1]) + c if j - i >= 2 else src[i:j])
            i = j
        else:
            out.append(c)
            i += 1
    return "".join(out)


def closure():
    seen, order, todo = set(), [], list(ROOTS)
    while todo:
        rel = todo.pop(0)
        rel = os.path.normpath(rel)
        if rel in seen:
            continue
        p = os.path.join(REPO, rel)
        if not os.path.isfile(p):
            continue
        seen.add(rel)
        if os.path.basename(rel) in EXCLUDE:
            continue
        order.append(rel)
        src = open(p, errors="replace").read()
        for m in re.finditer(r'^[ \t]*#[ \t]*include[ \t]*"([^"]+)"', src, flags=re.M):
            inc = m.group(1)
            for base in (os.path.dirname(rel), "", "c2mir"):
                cand = os.path.normpath(os.path.join(base, inc))
                if os.path.isfile(os.path.join(REPO, cand)):
                    todo.append(cand)
                    break
    return order


HDR_RE = re.compile(r"([A-Za-z_]\w*)\s*\(")


def contexts(lines):
    """per line: name of the enclosing function / macro context"""
    ctx = [None] * len(lines)
    cur = "<file-scope>"
    macro = None          # (name, op) while inside a #define continuation block
    in_macro = False
    for i, ln in enumerate(lines):
        s = ln.rstrip()
        if in_macro:
            m = re.search(r"\w+_OP_DEF\s*\(\s*\w+\s*,\s*(\w+)\s*\)", s)
            if m:
                macro = (macro[0], m.group(1))
            ctx[i] = macro[0] + (":" + macro[1] if macro[1] else "")
            in_macro = s.endswith("\\")
            continue
        m = re.match(r"\s*#\s*define\s+(\w+)", s)
        if m:
            macro = (m.group(1), None)
            mm = re.search(r"\w+_OP_DEF\s*\(\s*\w+\s*,\s*(\w+)\s*\)", s)
            if mm:
                macro = (macro[0], mm.group(1))
            ctx[i] = macro[0]
            in_macro = s.endswith("\\")
            continue
        if s.startswith("}"):
            ctx[i] = cur
            cur = "<file-scope>"
            continue
        if s and (s[0].isalpha() or s[0] == "_") and "(" in s and not s.endswith(";"):
            name = None
            for m in HDR_RE.finditer(s):
                if m.group(1) not in KEYWORDS:
                    name = m.group(1)
                    break
            if name and not s.startswith(("typedef", "struct", "union", "enum")) or (name and s.endswith("{")):
                cur = name
        ctx[i] = cur
    return ctx


def scan(rel):
    src = strip(open(os.path.join(REPO, rel), errors="replace").read())
    lines = src.split("\n")
    ctx = contexts(lines)
    sites = []
    for i, ln in enumerate(lines):
        for m in re.finditer(r"[A-Za-z_]\w*", ln):
            name = m.group(0)
            if name not in WRAPPERS and name not in RAW:
                continue
            before = ln[:m.start()].rstrip()
            after = ln[m.end():].lstrip()
            if before.endswith("->") or before.endswith("."):
                continue
            is_call = after.startswith("(")
            if name in WRAPPERS:
                if not is_call:
                    continue
                if ctx[i] == name:          # the wrapper's own definition
                    continue
                kind = "wrapper"
            else:
                if is_call:
                    kind = "raw"
                else:
                    if before.endswith("*") and before[:-1].rstrip().endswith("(") and after.startswith(")"):
                        continue            # field / parameter declaration `(*malloc)`
                    if re.match(r"\s*#", ln):
                        continue
                    # a value use follows `= ( , { ? : &` or `return`; anything else (e.g. the struct
                    # field `uint8_t *start, *free, *bound;`) is a declarator that merely shares the name
                    if not (before.endswith(("=", "(", ",", "{", "?", ":", "&")) or before.endswith("return")):
                        continue
                    kind = "rawref"
            sites.append({"file": rel, "func": ctx[i] or "<file-scope>", "callee": name, "line": i + 1,
                          "kind": kind})
    return sites


def lean_str(s):
    return '"' + s.replace("\\", "\\\\").replace('"', '\\"') + '"'


def lean_list(name, sites):
    rows = [f"  ⟨{lean_str(s['file'])}, {lean_str(s['func'])}, {lean_str(s['callee'])}, {s['line']}⟩" for s in sites]
    body = "[\n" + ",\n".join(rows) + "]" if rows else "[]"
    return f"def {name} : List Site := {body}\n"


def main():
    files = closure()
    if not files or "mir.c" not in files or "mir-varr.h" not in files:
        sys.exit(f"c17_sites: source closure looks wrong: {files[:5]}")
    sites = []
    for rel in files:
        sites += scan(rel)
    by = lambda callee: [s for s in sites if s["callee"] == callee and s["kind"] == "wrapper"]
    raw = [s for s in sites if s["kind"] in ("raw", "rawref")]
    for s in raw:
        s["signature"] = f"C17:raw-{s['callee']}:{os.path.basename(s['file'])}:{s['func']}"
    n_wr = sum(1 for s in sites if s["kind"] == "wrapper")
    if n_wr < 100 or not by("MIR_realloc"):
        sys.exit(f"c17_sites: implausibly few wrapper sites ({n_wr}); tokenizer broken?")
    out = ["-- generated by translate/c17_sites.py on every run; never edit\n",
           "namespace MirVerif.Gen.C17\n\n",
           "structure Site where\n  file : String\n  func : String\n  callee : String\n  line : Nat\n"
           "  deriving DecidableEq, Repr\n\n",
           "def files : List String := [" + ", ".join(lean_str(f) for f in files) + "]\n\n",
           lean_list("reallocSites", by("MIR_realloc")), "\n",
           lean_list("memMapSites", by("MIR_mem_map")), "\n",
           lean_list("memUnmapSites", by("MIR_mem_unmap")), "\n",
           lean_list("memProtectSites", by("MIR_mem_protect")), "\n",
           lean_list("rawAllocSites", raw), "\n",
           f"def nMallocSites : Nat := {len(by('MIR_malloc'))}\n",
           f"def nCallocSites : Nat := {len(by('MIR_calloc'))}\n",
           f"def nFreeSites : Nat := {len(by('MIR_free'))}\n",
           "\nend MirVerif.Gen.C17\n"]
    gen = os.path.join(VERIF, "lean", "MirVerif", "Gen", "C17_Sites.lean")
    os.makedirs(os.path.dirname(gen), exist_ok=True)
    new = "".join(out)
    old = open(gen).read() if os.path.exists(gen) else None
    if old != new:                      # keep mtime when unchanged: no needless lake rebuild
        with open(gen + ".tmp", "w") as f:
            f.write(new)
        os.replace(gen + ".tmp", gen)
    os.makedirs(os.path.join(VERIF, ".cache"), exist_ok=True)
    with open(os.path.join(VERIF, ".cache", "c17_sites.json"), "w") as f:
        json.dump({"repo": REPO, "files": files, "sites": sites}, f, indent=1)
    print(f"c17_sites: {len(files)} files, {n_wr} wrapper sites "
          f"(realloc {len(by('MIR_realloc'))}, malloc {len(by('MIR_malloc'))}, calloc {len(by('MIR_calloc'))}, "
          f"free {len(by('MIR_free'))}, map {len(by('MIR_mem_map'))}, unmap {len(by('MIR_mem_unmap'))}, "
          f"protect {len(by('MIR_mem_protect'))}), raw {len(raw)}")


if __name__ == "__main__":
    main()
