import sys; sys.path.insert(0,'/verif/lib')
import progtie, os, re
n=sys.argv[1]
text=open(f"/tmp/scratch/fail_{n}.mir").read(); plan=open(f"/tmp/scratch/fail_{n}.plan").read()
entry=plan.split()[1]
os.makedirs("/tmp/scratch/w",exist_ok=True)
E=sys.argv[2].split(",")
out=progtie.shrink_text(os.environ.get("ENGINE","/tmp/scratch/engine"),E,text,plan,entry,"/tmp/scratch/w",kind=sys.argv[3] if len(sys.argv)>3 else "engines-differ")
open(f"/tmp/scratch/shr_{n}.mir","w").write(out)
ls=out.split("\n"); s=next(i for i,l in enumerate(ls) if l.startswith(entry+":"))
e=next(i for i in range(s,len(ls)) if "endfunc" in ls[i])
body=[l for l in ls[s:e] if "fuel" not in l and not l.startswith("  local")]
print("\n".join(body))
