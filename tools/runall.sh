#!/bin/sh
# run every registered check (quick tier) and summarise: usage tools/runall.sh [tier] [ids...]
cd "$(dirname "$0")/.."
tier=${1:-quick}; shift 2>/dev/null
ids="$@"
[ -z "$ids" ] && ids=$(python3 -c "import json;print(' '.join(c['property_id'] for c in json.load(open('MANIFEST.json'))['checks']))")
mkdir -p .cache/logs
for id in $ids; do
  s=$(date +%s)
  ./check $id --tier $tier > .cache/logs/$id.$tier.log 2>&1; rc=$?
  e=$(date +%s)
  echo "$id rc=$rc $((e-s))s viol=$(grep -c '^VIOLATION' .cache/logs/$id.$tier.log) known=$(grep -c '^KNOWN-FINDING' .cache/logs/$id.$tier.log)"
done
