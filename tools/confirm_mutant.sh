#!/bin/bash
# usage: confirm_mutant.sh <worktree> <k>   -- re-validate a seeded mutant independently:
# tests 45/45 with the change, demo fails with it and passes without it.
WT=$1; K=$2; O=$WT/out/$K
cd $WT || exit 2
git checkout -q -- . 2>/dev/null
meta=$O/meta.json
build=$(python3 -c "import json;print(json.load(open('$meta'))['demo_build_cmd'])")
run=$(python3 -c "import json;print(json.load(open('$meta'))['demo_run_cmd'])")
run=$(printf "%s" "$run" | sed -E "s/ {2,}\(.*$//; s/;? +reference:.*$//")
build=${build//WT\//$WT/}; run=${run//WT\//$WT/}; build=${build//-IWT/-I$WT}
git apply $O/patch.diff || { echo "APPLY-FAILED"; exit 2; }
cmake -S $WT -B $WT/_b -G Ninja -DCMAKE_BUILD_TYPE=RelWithDebInfo -DCMAKE_C_FLAGS=-Wno-error >/dev/null 2>&1
cmake --build $WT/_b -- -k 0 >/dev/null 2>&1
t=$(ctest --test-dir $WT/_b -j8 --timeout 900 2>&1 | grep "tests passed")
( cd $O && eval "$build" >/dev/null 2>&1; eval "$run" >/tmp/confirm_with.$$ 2>&1; echo "rc=$?" >> /tmp/confirm_with.$$ )
git checkout -q -- .
( cd $O && eval "$build" >/dev/null 2>&1; eval "$run" >/tmp/confirm_without.$$ 2>&1; echo "rc=$?" >> /tmp/confirm_without.$$ )
rm -rf $WT/_b
echo "mutant $WT/$K: tests: $t | with change: $(tail -2 /tmp/confirm_with.$$ | tr '\n' ' ' | cut -c1-120) | without: $(tail -2 /tmp/confirm_without.$$ | tr '\n' ' ' | cut -c1-120)"
rm -f /tmp/confirm_with.$$ /tmp/confirm_without.$$
