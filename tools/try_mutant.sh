#!/bin/bash
# usage: try_mutant.sh <patch> <Cxx> [tier]  -- apply a seeded change to /repo, run the check, undo it
P=$1; ID=$2; T=${3:-quick}
cd /verif
git -C /repo apply $P || { echo "APPLY-FAILED $P"; exit 2; }
./check $ID --tier $T > .cache/logs/mut_$ID.log 2>&1; rc=$?
git -C /repo checkout -- .
echo "$P on $ID: rc=$rc $(grep -c '^VIOLATION' .cache/logs/mut_$ID.log) violation(s): $(grep '^VIOLATION' .cache/logs/mut_$ID.log | head -2 | tr '\n' ' ' | cut -c1-200)"
grep "violation:" .cache/logs/mut_$ID.log | head -2 | cut -c1-260
