#!/bin/bash
# usage: try_mutant.sh <patch> <Cxx> [tier] [--inrepo]
# Applies a seeded change and runs the check.  Default: in a scratch worktree of /repo's HEAD via
# VERIF_REPO (does not disturb other users of /repo); with --inrepo: git -C /repo apply, run, checkout.
P=$1; ID=$2; T=${3:-quick}; MODE=$4
cd /verif; mkdir -p .cache/logs
if [ "$MODE" = "--inrepo" ]; then
  git -C /repo apply $P || { echo "APPLY-FAILED $P"; exit 2; }
  ./check $ID --tier $T > .cache/logs/mut_$ID.log 2>&1; rc=$?
  git -C /repo checkout -- .
else
  WT=/tmp/trial-$ID-$$
  git -C /repo worktree add --detach $WT HEAD >/dev/null 2>&1
  git -C $WT apply $P || { echo "APPLY-FAILED $P"; git -C /repo worktree remove --force $WT; exit 2; }
  VERIF_REPO=$WT ./check $ID --tier $T > .cache/logs/mut_$ID.log 2>&1; rc=$?
  git -C /repo worktree remove --force $WT
fi
echo "$P on $ID: rc=$rc violations=$(grep -c '^VIOLATION' .cache/logs/mut_$ID.log) nofail=$(grep -c 'no-failing-input-found' .cache/logs/mut_$ID.log)"
grep "violation:" .cache/logs/mut_$ID.log | head -3 | cut -c1-300
