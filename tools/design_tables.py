#!/usr/bin/env python3
"""Rewrites the generated tables of DESIGN.md (between <!-- GEN:x --> markers) from seeded/*/meta.json,
known_findings*.json and evidence/*.json."""
import json, os, glob, re
V = os.path.dirname(os.path.dirname(os.path.abspath(__file__)))


def seeded_table():
    rows = ["| seeded change | property | what it needs to manifest | caught by `./check` (quick) |", "|---|---|---|---|"]
    for d in sorted(glob.glob(os.path.join(V, "seeded", "*", "meta.json"))):
        m = json.load(open(d))
        name = os.path.basename(os.path.dirname(d))
        cr = m.get("check_result", {})
        needs = str(m.get("needs_to_manifest", m.get("summary", "")))
        needs = re.sub(r"\s+", " ", needs)[:230]
        note = cr.get("note", "").replace("\n", " ").replace("|", "/")[:260]
        needs = needs.replace("|", "/")
        rows.append(f"| `{name}` | {m.get('breaks_property', m.get('property', ''))[:4]} | {needs} | **{cr.get('caught', '?')}** — {note} |")
    return "\n".join(rows)


def findings_tables():
    fs = []
    for p in [os.path.join(V, "known_findings.json")] + sorted(glob.glob(os.path.join(V, "known_findings.d", "*.json"))):
        try:
            fs += json.load(open(p)).get("findings", [])
        except Exception as e:
            fs.append({"property": "?", "status": "known", "signature": os.path.basename(p), "what": f"unreadable: {e}"})
    known = [f for f in fs if f.get("status") == "known"]
    fixed = [f for f in fs if f.get("status") == "fixed"]
    rows = [f"{len(known)} listed known findings (printed as `KNOWN-FINDING`, exit 0), {len(fixed)} fixed entries (suppress nothing).", "",
            "| property | signature | what fails |", "|---|---|---|"]
    for f in sorted(known, key=lambda f: (f.get("property", ""), f.get("signature", ""))):
        what = re.sub(r"\s+", " ", f.get("what", "")).replace("|", "/")[:300]
        rows.append(f"| {f.get('property')} | `{f.get('signature')}` | {what} |")
    rows += ["", "Fixed (each has a `fix:` commit in /repo and a regression in `corpus/`):", "", "| property | signature | commit | what failed |", "|---|---|---|---|"]
    for f in sorted(fixed, key=lambda f: (f.get("property", ""), f.get("signature", ""))):
        what = re.sub(r"\s+", " ", f.get("what", "")).replace("|", "/")
        what = re.sub(r"^fixed: property=\S+ \S+ ", "", what)[:220]
        rows.append(f"| {f.get('property')} | `{f.get('signature')}` | {f.get('commit', '')} | {what} |")
    return "\n".join(rows)


def evidence_table():
    rows = ["| check | obligations = discharged | evaluations (quick) | distinct non-trivial | wall s | axioms |", "|---|---|---|---|---|---|"]
    for p in sorted(glob.glob(os.path.join(V, "evidence", "C*.json"))):
        try:
            e = json.load(open(p))
        except Exception:
            continue
        c = e.get("coverage", {})
        ax = sorted({a for t in c.get("theorems", []) for a in t.get("axioms", [])})
        ax = ", ".join(a if len(a) < 30 else a[:12] + "…bv_decide" for a in ax)
        rows.append(f"| {e['property_id']} ({e.get('tier')}) | {c.get('obligations')} = {c.get('discharged')} | {c.get('evaluations')} | {c.get('distinct_nontrivial')} | {e.get('wall_s')} | {ax} |")
    return "\n".join(rows)


def main():
    p = os.path.join(V, "DESIGN.md")
    s = open(p).read()
    for key, fn in (("seeded", seeded_table), ("findings", findings_tables), ("evidence", evidence_table)):
        a, b = f"<!-- GEN:{key} -->", f"<!-- /GEN:{key} -->"
        if a in s and b in s:
            s = s[:s.index(a) + len(a)] + "\n" + fn() + "\n" + s[s.index(b):]
    open(p, "w").write(s)


main()
