#!/usr/bin/env python3
"""usage: mark_fixed.py <known_findings.d file> <commit> <signature-regex>...  — flips matching entries to status fixed"""
import json, re, sys
p, commit, pats = sys.argv[1], sys.argv[2], sys.argv[3:]
d = json.load(open(p))
n = 0
for f in d["findings"]:
    if f.get("status") == "known" and any(re.search(x, f["signature"]) for x in pats):
        f["status"] = "fixed"; f["commit"] = commit
        if not f["what"].startswith("fixed:"):
            f["what"] = f"fixed: property={f['property']} {commit} " + f["what"]
        n += 1
json.dump(d, open(p, "w"), indent=1)
print(p, "flipped", n, "remaining known:", [f["signature"] for f in d["findings"] if f.get("status") == "known"])
