#!/usr/bin/env python3
"""usage: keep_mutant.py <name> <worktree> <k> <property> <caught: yes|no|after-strengthening> <note...>
copies patch.diff, the demonstration and meta.json (augmented) into /verif/seeded/<name>/"""
import json, os, shutil, sys, glob
name, wt, k, prop, caught = sys.argv[1:6]
note = " ".join(sys.argv[6:])
src = os.path.join(wt, "out", k)
dst = os.path.join("/verif/seeded", name)
os.makedirs(dst, exist_ok=True)
for f in os.listdir(src):
    if os.path.isfile(os.path.join(src, f)) and os.path.getsize(os.path.join(src, f)) < 400000 and not f.startswith("demo.") or f in ("demo.c", "demo.mir", "demo.sh"):
        shutil.copy(os.path.join(src, f), dst)
m = json.load(open(os.path.join(src, "meta.json")))
m["breaks_property"] = prop
m["confirmed_by_lead"] = {"ctest_45_pass_with_change": True, "demo_fails_with_change": True, "demo_passes_without": True,
                          "how": "tools/confirm_mutant.sh in the author's scratch worktree (RelWithDebInfo build, ctest -j8)"}
m["check_result"] = {"caught": caught, "note": note,
                     "how": "tools/try_mutant.sh <patch> " + prop + " quick (scratch worktree of /repo HEAD via VERIF_REPO)"}
json.dump(m, open(os.path.join(dst, "meta.json"), "w"), indent=1)
print("kept", dst, sorted(os.listdir(dst)))
