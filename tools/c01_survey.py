import sys, os, json, collections; sys.path.insert(0,'/verif/lib')
from vf import Check
import progtie, mirgen
exe=os.environ.get("ENGINE","/tmp/scratch/engine")
E=["interp","interpc","gen0","gen1","gen2","gen3"]
tot=collections.Counter()
for seed in range(int(sys.argv[1]),int(sys.argv[2])):
    ck=Check("C01", argv=["--seed", str(seed)])
    fails,nev,stats,work=progtie.run_programs(ck,exe,E,int(sys.argv[3]),opts=dict(jmpi=(sys.argv[4]=="1")))
    for f in fails:
        key=(f["kind"],(f["results"][0][:60] if f["kind"]=="engine-abort" else str([r.endswith("*") or r.startswith("!") for r in f["results"]])))
        tot[key]+=1
        if tot[key]==1:
            open(f"/tmp/scratch/fail_{len(tot)}.mir","w").write(f["prog"].text())
            open(f"/tmp/scratch/fail_{len(tot)}.plan","w").write(progtie.plan_for([f["entry"]],mirgen.ARGSETS) if not f["args"] else "prog "+f["entry"]+" "+" ".join(f["args"])+"\n")
    import shutil; shutil.rmtree(work,ignore_errors=True)
for k,v in tot.items(): print(v,k)
