#!/bin/bash
# usage: process_mut.sh <worktree> <Cxx> [k...]  — confirm (tests 45/45, demo fails with / passes without) and try each mutant
WT=$1; ID=$2; shift 2; KS=${@:-1 2}
for k in $KS; do
  [ -f $WT/out/$k/patch.diff ] || { echo "no $WT/out/$k/patch.diff"; continue; }
  /verif/tools/confirm_mutant.sh $WT $k 2>&1 | grep "^mutant" | cut -c1-400
  /verif/tools/try_mutant.sh $WT/out/$k/patch.diff $ID quick
done
